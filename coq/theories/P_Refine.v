(* P_Refine.v -- provenance refinement (property C01, and through it C08, C10
   and the provenance part of C04, C09, C11, C12): on traces of the model the
   provenance checker [chk_prov] (Check.v, section "Provenance of every
   argument") only ever reports the codes of the recorded finding D12.

   STATUS (every stage fully proved; no axioms, nothing admitted):
     Stage 1  shape of every EExec: consumer found (no 102), as many arguments
              as leaves (no 101), kinds agree (no 160); [place] is correct
              ([place_correct], [sig_order_perm], [build_seq_In])         DONE
     Stage 2  cache coherence invariant [CI] (values, dvalues, groups,
              dgroups + presence of dgroups), preserved by every step
              ([CI_gen], [CI_commit_ctor], [CI_commit_dec], [MH_step])    DONE
     Stage 3  single leaves: postcondition [LP_single], stable under log
              extension ([LPk_mono]); 110, 120 (see below), 122, 124
              impossible; AND 123 impossible (beyond what was asked: the
              availability analysis is matched by [RDoomed], see below)   DONE
     Stage 4  group leaves: [LP_group]; 130, 140, 141, 150, 151 impossible DONE
     Stage 5  assembly over [walk]: [prov_refines]; [chk_invoked_once_nil];
              [C01_refines], [C08_refines], [C10_refines]                 DONE

   MAIN THEOREMS (all "Closed under the global context")
     prov_refines : wf_scopes h -> wf_strict h -> wf_fns h -> cfg_dry cfg = false ->
       In (i, c) (chk_prov bt h (map obs_of (run cfg (beh_of bt) du h))) ->
       c = 112 \/ c = 132 \/ (c = 120 /\ has_opt h = true /\ has_dec h = true)
     prov_refines_no_decorators : ... has_dec h = false -> chk_prov ... = []
     prov_refines_no_optionals  : ... has_opt h = false -> c = 112 \/ c = 132
     C01_refines, C08_refines, C10_refines : the same bound for chk_C01 (whose
       second half, chk_invoked_once, is empty: [chk_invoked_once_nil]),
       chk_C08, chk_C10.

   TWO DEVIATIONS FROM THE STATEMENT ASKED FOR, both forced (module
   [Counterexamples] at the end, all by vm_compute):
   (1) code 120 CAN occur on a model trace ([cex_opt_late]): an OPTIONAL
       single parameter receives zero because its provider failed
       findMissingDependencies, and a later leaf of the SAME consumer makes
       that provider succeed (a DECORATED value for the missing key has
       appeared in between: findMissingDependencies also accepts a decorated
       value in the view scope), so when the consumer runs, the checker sees a
       provider that has succeeded and a zero argument.  The theorem allows
       120 exactly there: only for histories with an optional single parameter
       AND a Decorate; the proof shows that the leaf is optional and the value
       AZero ([LP_single]).  Without decorators a provider that fails with
       missing dependencies can never succeed later in the same operation:
       it is "doomed" ([RDoomed], an inductive reading of the registry; lemmas
       D1 = "a doomed task never returns Done", D2 = "Fail with a
       missing-dependencies link implies doomed", both conjuncts of [MyP]),
       and a doomed constructor is not available in the sense of
       Spec.avail_set ([doomed_not_avail]) -- which is why 123 never fires.
   (2) [wf_keys] is not sufficient; the hypothesis is [wf_strict] (it implies
       [wf_keys]: [wf_strict_keys]): single RESULT keys have group 0 and group
       PARAMETER keys have a group name (else 130: [cex_kind1], [cex_kind2]);
       the keys of one group result are pairwise distinct (else the member is
       committed twice, 141 / 150: [cex_dupas]).  That a decorator returns
       each key once is no longer a hypothesis: [decorate] rejects such a
       decorator, so the invariant follows from its own check
       ([decorate_ok_inv]; [cex_dupdec] is now a rejected Decorate).

   Structure
     Part 0-2   lists; the chronological log [LG]; build order and [place]
     Part 3-5   [wf_strict]; static invariants [SI], [UI]; doomed constructors;
                the leaf postcondition and the checker ([chk_args_LP])
     Part 6-7   what commits write; [CI] and its preservation
     Part 8-9   worlds [Wld], extensions [Ext], event obligations; the
                evaluator level by level ([E_build_single], [E_build_group],
                [E_call_ctor], [E_call_dec], [eval_MyP])
     Part 10-12 operations and runs; the theorems
     Part 13-14 final forms; examples and counterexamples *)
From Dig Require Import Base Sig State Graph Register Resolve Run EvalInd Spec Check.
From Dig Require P_Once.
From Dig Require Import P_Events P_Frame P_Term P_Reg.
From Coq Require Import Permutation.

(* ---- generic list facts, boolean checkers vs. relations, place / build order *)

(* ================================================================== *)
(* Part 0 : generic facts                                              *)
(* ================================================================== *)

Lemma atom_eqb_eq : forall a b, atom_eqb a b = true <-> a = b.
Proof.
  intros [f e s i|] [f' e' s' i'|]; cbn; split; intros H; try discriminate; try reflexivity.
  - repeat (apply andb_true_iff in H; destruct H as [H ?]).
    apply Nat.eqb_eq in H, H0, H1, H2. subst. reflexivity.
  - injection H as -> -> -> ->. rewrite !Nat.eqb_refl. reflexivity.
Qed.

Lemma atom_eqb_refl : forall a, atom_eqb a a = true.
Proof. intros a. apply atom_eqb_eq. reflexivity. Qed.

Lemma memb_atom_In : forall a l, memb atom_eqb a l = true <-> In a l.
Proof.
  intros a l; induction l as [|x l IH]; cbn; [split; [discriminate|tauto]|].
  rewrite orb_true_iff, IH, atom_eqb_eq. split; intros [H|H]; auto.
Qed.

Lemma remove_one_perm : forall x l l', remove_one atom_eqb x l = Some l' -> Permutation l (x :: l').
Proof.
  intros x l; induction l as [|h t IH]; intros l' H; cbn in H; [discriminate|].
  destruct (atom_eqb x h) eqn:E.
  - apply atom_eqb_eq in E. subst h. injection H as <-. apply Permutation_refl.
  - destruct (remove_one atom_eqb x t) as [t'|] eqn:E2; [|discriminate]. injection H as <-.
    eapply Permutation_trans; [apply perm_skip; apply IH; reflexivity|]. apply perm_swap.
Qed.

Lemma remove_one_In : forall x l, In x l -> exists l', remove_one atom_eqb x l = Some l'.
Proof.
  intros x l; induction l as [|h t IH]; intros H; [destruct H|]. cbn.
  destruct (atom_eqb x h) eqn:E; [eexists; reflexivity|].
  destruct H as [->|H]; [rewrite atom_eqb_refl in E; discriminate|].
  destruct (IH H) as [t' ->]. eexists; reflexivity.
Qed.

Lemma perm_eqb_complete : forall l1 l2, Permutation l1 l2 -> perm_eqb atom_eqb l1 l2 = true.
Proof.
  induction l1 as [|h t IH]; intros l2 H; cbn.
  - apply Permutation_nil in H. subst. reflexivity.
  - assert (Hin : In h l2) by (eapply Permutation_in; [exact H|left; reflexivity]).
    destruct (remove_one_In h l2 Hin) as [l2' E]. rewrite E. apply IH.
    apply remove_one_perm in E. eapply Permutation_cons_inv. eapply Permutation_trans; eauto.
Qed.

Lemma subsetb_incl : forall l1 l2, incl l1 l2 -> subsetb atom_eqb l1 l2 = true.
Proof.
  intros l1 l2 H. unfold subsetb. apply forallb_forall. intros x Hx. apply memb_atom_In. apply H. exact Hx.
Qed.

Lemma nodupb_atom : forall l, NoDup l -> nodupb atom_eqb l = true.
Proof.
  induction l as [|x l IH]; intros H; [reflexivity|]. inversion H as [|? ? Hn Hd]; subst. cbn.
  rewrite IH by exact Hd. rewrite andb_true_r. apply negb_true_iff.
  destruct (memb atom_eqb x l) eqn:E; [|reflexivity]. apply memb_atom_In in E. contradiction.
Qed.

Lemma nodupb_key_NoDup : forall l, nodupb key_eqb l = true -> NoDup l.
Proof.
  induction l as [|x l IH]; intros H; [constructor|]. cbn in H. apply andb_true_iff in H as [H1 H2].
  constructor; [|apply IH; exact H2]. intros Hin. apply memb_key_In in Hin. rewrite Hin in H1. discriminate.
Qed.

Lemma flat_map_nil_all : forall (A B : Type) (f : A -> list B) l,
  (forall x, In x l -> f x = []) -> flat_map f l = [].
Proof.
  intros A B f l; induction l as [|x l IH]; intros H; cbn; [reflexivity|].
  rewrite (H x) by (left; reflexivity). apply IH. intros y Hy. apply H. right; exact Hy.
Qed.

Lemma flat_map_head : forall (A B : Type) (f : A -> list B) l h t,
  flat_map f l = h :: t ->
  exists p1 x p2 t', l = p1 ++ x :: p2 /\ (forall y, In y p1 -> f y = []) /\ f x = h :: t'.
Proof.
  intros A B f l; induction l as [|x l IH]; intros h t H; cbn in H; [discriminate|].
  destruct (f x) as [|h' t'] eqn:E.
  - cbn in H. destruct (IH _ _ H) as (p1 & y & p2 & t'' & -> & Hp & Hy).
    exists (x :: p1), y, p2, t''. split; [reflexivity|]. split; [|exact Hy].
    intros z [<-|Hz]; [exact E|apply Hp; exact Hz].
  - cbn in H. injection H as -> _. exists [], x, l, t'. split; [reflexivity|]. split; [intros y []|exact E].
Qed.

Lemma flat_map_nil_inv : forall (A B : Type) (f : A -> list B) l,
  flat_map f l = [] -> forall x, In x l -> f x = [].
Proof.
  intros A B f l; induction l as [|x l IH]; intros H y Hy; [destruct Hy|]. cbn in H.
  apply app_eq_nil in H as [H1 H2]. destruct Hy as [<-|Hy]; [exact H1|apply IH; assumption].
Qed.

Lemma find_map_app_none : forall (A B : Type) (f : A -> option B) l1 l2,
  (forall x, In x l1 -> f x = None) -> find_map f (l1 ++ l2) = find_map f l2.
Proof.
  intros A B f l1; induction l1 as [|x l1 IH]; intros l2 H; cbn; [reflexivity|].
  rewrite (H x) by (left; reflexivity). apply IH. intros y Hy. apply H. right; exact Hy.
Qed.

Lemma find_map_none_all : forall (A B : Type) (f : A -> option B) l,
  (forall x, In x l -> f x = None) -> find_map f l = None.
Proof.
  intros A B f l H. rewrite <- (app_nil_r l). rewrite find_map_app_none by exact H. reflexivity.
Qed.

Lemma filter_filter_andb : forall (A : Type) (p q : A -> bool) l,
  filter (fun x => p x && q x) l = filter q (filter p l).
Proof.
  intros A p q l; induction l as [|x l IH]; cbn; [reflexivity|].
  destruct (p x); cbn; [destruct (q x); rewrite IH; reflexivity|exact IH].
Qed.

Lemma Permutation_flat_map_ext : forall (A B : Type) (f g : A -> list B) l,
  (forall x, In x l -> Permutation (f x) (g x)) -> Permutation (flat_map f l) (flat_map g l).
Proof.
  intros A B f g l; induction l as [|x l IH]; intros H; cbn; [constructor|].
  apply Permutation_app; [apply H; left; reflexivity|apply IH; intros y Hy; apply H; right; exact Hy].
Qed.

Lemma Permutation_flat_map_l : forall (A B : Type) (f : A -> list B) l l',
  Permutation l l' -> Permutation (flat_map f l) (flat_map f l').
Proof.
  intros A B f l l' H; induction H; cbn.
  - constructor.
  - apply Permutation_app_head. exact IHPermutation.
  - rewrite !app_assoc. apply Permutation_app_tail. apply Permutation_app_comm.
  - eapply Permutation_trans; eauto.
Qed.

Lemma flat_map_flat_map : forall (A B C : Type) (f : A -> list B) (g : B -> list C) l,
  flat_map g (flat_map f l) = flat_map (fun x => flat_map g (f x)) l.
Proof.
  intros A B C f g l; induction l as [|x l IH]; cbn; [reflexivity|].
  rewrite flat_map_app, IH. reflexivity.
Qed.

(* flat_map over a filter whose extra condition only removes empty contributions *)
Lemma flat_map_filter_drop : forall (A B : Type) (f : A -> list B) (p q : A -> bool) l,
  (forall x, In x l -> q x = false -> f x = []) ->
  flat_map f (filter (fun x => p x && q x) l) = flat_map f (filter p l).
Proof.
  intros A B f p q l; induction l as [|x l IH]; intros H; cbn; [reflexivity|].
  assert (IH' : flat_map f (filter (fun x => p x && q x) l) = flat_map f (filter p l))
    by (apply IH; intros y Hy; apply H; right; exact Hy).
  destruct (p x); cbn [andb]; [|exact IH'].
  destruct (q x) eqn:E; cbn; [rewrite IH'; reflexivity|].
  rewrite (H x (or_introl eq_refl) E). exact IH'.
Qed.

(* one more element passes the filter *)
Lemma filter_add_perm : forall (p p' : nat -> bool) (n : nat) l,
  NoDup l -> In n l -> p n = false -> p' n = true -> (forall x, x <> n -> p' x = p x) ->
  Permutation (filter p' l) (n :: filter p l).
Proof.
  intros p p' n l; induction l as [|x l IH]; intros Hnd Hin Hp Hp' Hoth; [destruct Hin|].
  inversion Hnd as [|? ? Hnin Hnd']; subst. cbn [filter].
  destruct (Nat.eq_dec x n) as [->|Hne].
  - rewrite Hp, Hp'. constructor.
    replace (filter p' l) with (filter p l); [apply Permutation_refl|].
    apply filter_ext_in. intros y Hy. symmetry. apply Hoth. intros ->. contradiction.
  - destruct Hin as [->|Hin]; [congruence|]. rewrite (Hoth x Hne).
    destruct (p x).
    + eapply Permutation_trans; [apply perm_skip; apply IH; assumption|]. apply perm_swap.
    + apply IH; assumption.
Qed.

Lemma find_unique : forall (A : Type) (p : A -> bool) (l : list A) (d : A) i,
  i < length l -> p (nth i l d) = true ->
  (forall j, j < length l -> p (nth j l d) = true -> j = i) ->
  find p l = Some (nth i l d).
Proof.
  intros A p l d; induction l as [|x l IH]; intros i Hi Hp Hu; [cbn in Hi; lia|].
  cbn [find]. destruct (p x) eqn:E.
  - assert (0 = i) by (apply Hu; [cbn; lia|exact E]). subst i. reflexivity.
  - destruct i as [|i]; [cbn in Hp; congruence|]. cbn [nth]. apply IH.
    + cbn in Hi. lia.
    + exact Hp.
    + intros j Hj Hpj. assert (S j = S i) by (apply Hu; [cbn; lia|exact Hpj]). lia.
Qed.

(* ================================================================== *)
(* Part 1 : the log of lentries as a function of the event log          *)
(* ================================================================== *)

(* the checkers' chronological log of a (newest first) event log *)
Definition LG (l : list event) : list lentry := log_of_events (rev l).

Lemma LG_cons : forall ev l, LG (ev :: l) = LG l ++ log_of_event ev.
Proof.
  intros ev l. unfold LG. cbn [rev]. rewrite P_Once.log_of_events_app.
  unfold log_of_events at 2. cbn [flat_map]. rewrite app_nil_r. reflexivity.
Qed.

Lemma LG_app : forall new old, LG (new ++ old) = LG old ++ LG new.
Proof. intros new old. unfold LG. rewrite rev_app_distr. apply P_Once.log_of_events_app. Qed.

Lemma succ_of_app : forall L X f,
  succ_of (L ++ X) f = match succ_of L f with Some e => Some e | None => succ_of X f end.
Proof.
  intros L X f. unfold succ_of. induction L as [|l L IH]; cbn [app find_map]; [reflexivity|].
  destruct (Nat.eqb (le_fn l) f && le_ok l); [reflexivity|exact IH].
Qed.

Lemma succ_of_app_some : forall L X f e, succ_of L f = Some e -> succ_of (L ++ X) f = Some e.
Proof. intros L X f e H. rewrite succ_of_app, H. reflexivity. Qed.

Lemma succ_of_succb : forall l f, succ_of (LG l) f <> None <-> P_Once.succb f l = true.
Proof.
  intros l f. unfold LG. rewrite <- P_Once.succb_rev, <- P_Once.succ_of_events.
  destruct (succ_of _ f); cbn; split; congruence.
Qed.

Lemma succ_of_none_succb : forall l f, succ_of (LG l) f = None <-> P_Once.succb f l = false.
Proof.
  intros l f. pose proof (succ_of_succb l f) as H.
  destruct (succ_of (LG l) f), (P_Once.succb f l); split; intros; try reflexivity; try discriminate.
  - exfalso. assert (false = true) by (apply H; discriminate). discriminate.
  - exfalso. apply (proj2 H); reflexivity.
Qed.

Lemma log_of_event_other : forall ev f,
  (forall e r a lens, ev <> EExec f e r a (OOk lens)) -> succ_of (log_of_event ev) f = None.
Proof.
  intros [f' e r a o|g c t] f H; [|reflexivity].
  destruct o as [lens| |]; cbn; try (rewrite andb_false_r; reflexivity).
  destruct (Nat.eqb_spec f' f) as [->|Hne]; [|reflexivity]. exfalso. eapply H. reflexivity.
Qed.

Lemma members_of_ext : forall bt L L' k c,
  succ_of L (sc_fn c) = succ_of L' (sc_fn c) -> members_of bt L k c = members_of bt L' k c.
Proof. intros bt L L' k c H. unfold members_of. rewrite H. reflexivity. Qed.

Lemma lens_of_beh : forall bt f e lens, beh_of bt f e = OOk lens -> lens_of bt f e = lens.
Proof. intros bt f e lens H. unfold lens_of. unfold beh_of in H. rewrite H. reflexivity. Qed.

(* ================================================================== *)
(* Part 2 : build order and [place] (Stage 1)                          *)
(* ================================================================== *)

Section ParamInd.
  Variable P : param -> Prop.
  Hypothesis HS : forall k o, P (PSingle k o).
  Hypothesis HG : forall k s, P (PGroup k s).
  Hypothesis HO : forall fs, Forall P fs -> P (PObj fs).
  Fixpoint param_ind2 (p : param) : P p :=
    match p with
    | PSingle k o => HS k o
    | PGroup k s => HG k s
    | PObj fs => HO fs ((fix go (l : list param) : Forall P l :=
                           match l with
                           | [] => Forall_nil _
                           | x :: t => Forall_cons x (param_ind2 x) (go t)
                           end) fs)
    end.
End ParamInd.

(* the inner loops of decl_leaves / build_order as top-level functions *)
Fixpoint obj_leaves (l : list param) : list pleaf :=
  match l with [] => [] | x :: t => decl_leaves x ++ obj_leaves t end.

Fixpoint obj_order (off : nat) (l : list param) : list nat * list nat :=
  match l with
  | [] => ([], [])
  | f :: t =>
      let r := obj_order (off + nleaves f) t in
      if is_soft_group f then (fst r, off :: snd r)
      else (build_order off f ++ fst r, snd r)
  end.

Lemma decl_leaves_obj : forall fs, decl_leaves (PObj fs) = obj_leaves fs.
Proof. intros fs. cbn [decl_leaves]. induction fs as [|x t IH]; cbn; [reflexivity|]. rewrite IH. reflexivity. Qed.

Lemma build_order_obj : forall off fs,
  build_order off (PObj fs) = fst (obj_order off fs) ++ snd (obj_order off fs).
Proof.
  intros off fs. cbn [build_order].
  assert (E : forall l o,
    (fix go (off : nat) (l : list param) : list nat * list nat :=
       match l with
       | [] => ([], [])
       | f :: t => let r := go (off + nleaves f) t in
                   if is_soft_group f then (fst r, off :: snd r) else (build_order off f ++ fst r, snd r)
       end) o l = obj_order o l).
  { induction l as [|f t IH]; intros o; cbn; [reflexivity|]. rewrite IH. reflexivity. }
  rewrite E. reflexivity.
Qed.

Lemma build_order_perm : forall p off, Permutation (build_order off p) (seq off (nleaves p)).
Proof.
  induction p as [k o|k s|fs IH] using param_ind2; intros off.
  - cbn. apply Permutation_refl.
  - cbn. apply Permutation_refl.
  - rewrite build_order_obj. unfold nleaves. rewrite decl_leaves_obj.
    revert off. induction IH as [|f t Hf Ht IHt]; intros off; cbn [obj_order obj_leaves].
    + cbn. constructor.
    + rewrite app_length, seq_app. fold (nleaves f).
      specialize (IHt (off + nleaves f)).
      destruct (is_soft_group f) eqn:Es; cbn [fst snd].
      * destruct f as [k o|k [|]|fs']; try discriminate. cbn [nleaves decl_leaves length seq app].
        unfold nleaves in IHt. cbn [decl_leaves length] in IHt.
        apply Permutation_sym. apply Permutation_cons_app. apply Permutation_sym.
        replace (S off) with (off + 1) by lia. exact IHt.
      * rewrite <- app_assoc. apply Permutation_app; [apply Hf|exact IHt].
Qed.

Lemma build_order_list_perm : forall ps off,
  Permutation (build_order_list off ps) (seq off (length (decl_leaves_list ps))).
Proof.
  induction ps as [|p t IH]; intros off; cbn [build_order_list decl_leaves_list]; [constructor|].
  rewrite app_length, seq_app. apply Permutation_app; [apply build_order_perm|apply IH].
Qed.

Lemma sig_order_perm : forall sg, Permutation (sig_order sg) (seq 0 (length (sig_leaves sg))).
Proof. intros sg. apply build_order_list_perm. Qed.

Lemma alookup_nat_In : forall (B : Type) (l : list (nat * B)) i a,
  alookup Nat.eqb i l = Some a -> In (i, a) l.
Proof.
  intros B l; induction l as [|[j x] l IH]; intros i a H; cbn in H; [discriminate|].
  destruct (Nat.eqb_spec i j) as [->|Hne].
  - injection H as ->. left; reflexivity.
  - right. apply IH. exact H.
Qed.

Lemma alookup_nat_some : forall (B : Type) (l : list (nat * B)) i,
  In i (map fst l) -> exists a, alookup Nat.eqb i l = Some a.
Proof.
  intros B l; induction l as [|[j x] l IH]; intros i H; [destruct H|]. cbn.
  destruct (Nat.eqb_spec i j) as [->|Hne]; [eexists; reflexivity|].
  destruct H as [H|H]; [cbn in H; congruence|]. apply IH. exact H.
Qed.

Lemma Forall2_combine : forall (A B : Type) (R : A -> B -> Prop) l1 l2,
  Forall2 R l1 l2 -> forall x y, In (x, y) (combine l1 l2) -> R x y.
Proof.
  intros A B R l1 l2 H; induction H; intros a b Hin; [destruct Hin|].
  destruct Hin as [[= <- <-]|Hin]; [assumption|apply IHForall2; exact Hin].
Qed.

Lemma Forall2_nth_seq : forall (A B : Type) (R : A -> B -> Prop) (d : A) (g : nat -> B) (l : list A),
  (forall i, i < length l -> R (nth i l d) (g i)) -> Forall2 R l (map g (seq 0 (length l))).
Proof.
  intros A B R d g l; induction l as [|x l IH] using rev_ind; intros H; [constructor|].
  rewrite app_length. cbn [length]. rewrite Nat.add_1_r, seq_S, map_app. cbn [map Nat.add].
  apply Forall2_app.
  - apply IH. intros i Hi. specialize (H i). rewrite app_length in H. cbn in H.
    rewrite app_nth1 in H by exact Hi. apply H. lia.
  - constructor; [|constructor]. specialize (H (length l)). rewrite nth_middle in H. apply H.
    rewrite app_length. cbn. lia.
Qed.

Lemma Forall2_len : forall (A B : Type) (R : A -> B -> Prop) l1 l2, Forall2 R l1 l2 -> length l1 = length l2.
Proof. intros A B R l1 l2 H; induction H; cbn; congruence. Qed.

Lemma map_fst_combine' : forall (A B : Type) (l1 : list A) (l2 : list B),
  length l1 = length l2 -> map fst (combine l1 l2) = l1.
Proof.
  intros A B l1; induction l1 as [|x l1 IH]; intros [|y l2] H; cbn in *; try discriminate; [reflexivity|].
  f_equal. apply IH. lia.
Qed.

(* [place] puts the values built in build order back into declaration order *)
Theorem place_correct : forall (R : pleaf -> arg -> Prop) (leaves : list pleaf) (order : list nat) (built : list arg),
  Permutation order (seq 0 (length leaves)) ->
  Forall2 R (map (fun i => nth i leaves dummy_leaf) order) built ->
  Forall2 R leaves (place order built).
Proof.
  intros R leaves order built Hperm HF. unfold place.
  assert (Hlen : length order = length leaves).
  { rewrite (Permutation_length Hperm). apply seq_length. }
  rewrite Hlen. apply (Forall2_nth_seq _ _ R dummy_leaf). intros i Hi.
  assert (Hin : In i order).
  { eapply Permutation_in; [apply Permutation_sym; exact Hperm|]. apply in_seq. lia. }
  assert (Hlb : length order = length built).
  { apply Forall2_len in HF. rewrite map_length in HF. exact HF. }
  destruct (alookup_nat_some _ (combine order built) i) as [a Ha].
  { rewrite map_fst_combine' by exact Hlb. exact Hin. }
  rewrite Ha. cbn [opt_default].
  apply alookup_nat_In in Ha.
  assert (HF' : Forall2 (fun j a => R (nth j leaves dummy_leaf) a) order built).
  { clear -HF. revert built HF. induction order as [|j t IH]; intros built HF; inversion HF; subst; constructor; auto. }
  exact (Forall2_combine _ _ _ _ _ HF' _ _ Ha).
Qed.

Lemma flat_map_map' : forall (A B C : Type) (g : A -> B) (f : B -> list C) l,
  flat_map f (map g l) = flat_map (fun x => f (g x)) l.
Proof. intros A B C g f l; induction l as [|x l IH]; cbn; [reflexivity|]. rewrite IH. reflexivity. Qed.

(* ---- well-formedness, static invariants, the leaf postcondition LP and its
   two uses (stability, soundness w.r.t. the checker) *)

(* ================================================================== *)
(* Part 3 : the strict kind discipline                                 *)
(* ================================================================== *)

Definition pleaf_ok2 (l : pleaf) : bool :=
  match l with
  | LSingle k _ => Nat.eqb (k_group k) 0
  | LGroup k _ => negb (Nat.eqb (k_group k) 0)
  end.

Definition rleaf_ok2 (q : rleaf) : bool :=
  match q with
  | QSingle ks => forallb (fun k => Nat.eqb (k_group k) 0) ks
  | QGroup ks _ => forallb (fun k => negb (Nat.eqb (k_group k) 0)) ks && nodupb key_eqb ks
  end.

Definition is_opt_leaf (l : pleaf) : bool := match l with LSingle _ true => true | _ => false end.

Definition wf_sig2 (sg : fsig) : bool :=
  forallb pleaf_ok2 (sig_leaves sg) && forallb rleaf_ok2 (sig_rleaves sg).
Definition wf_dsig2 (sg : fsig) : bool := wf_sig2 sg && nodupb key_eqb (dec_keys sg).
Definition noopt_sig (sg : fsig) : bool := negb (existsb is_opt_leaf (sig_leaves sg)).

Definition op_strict (o : op) : bool :=
  match o with
  | OProvide _ p => wf_sig2 (pi_sig p)
  | ODecorate _ p => wf_sig2 (di_sig p)
  | OInvoke _ p => forallb pleaf_ok2 (sig_leaves (ii_sig p))
  | _ => true
  end.
(* single results carry no group name, group results and group parameters do;
   a group result lists each key once.  (That a decorator returns each key
   once is NOT required here: [decorate] rejects a decorator returning a key
   twice, so the invariant [si_dsig] below follows from its own check.) *)
Definition wf_strict (h : history) : bool := forallb op_strict h.

Definition op_sig (o : op) : fsig :=
  match o with
  | OProvide _ p => pi_sig p
  | ODecorate _ p => di_sig p
  | OInvoke _ p => ii_sig p
  | _ => dummy_sig
  end.
(* some signature of the history has an optional single parameter *)
Definition has_opt (h : history) : bool := existsb (fun o => negb (noopt_sig (op_sig o))) h.

(* the history registers a decorator *)
Definition is_decorate (o : op) : bool := match o with ODecorate _ _ => true | _ => false end.
Definition has_dec (h : history) : bool := existsb is_decorate h.

Lemma wf_sig2_leaves : forall sg l, wf_sig2 sg = true -> In l (sig_leaves sg) -> pleaf_ok2 l = true.
Proof.
  intros sg l H Hl. unfold wf_sig2 in H. apply andb_true_iff in H as [H _].
  rewrite forallb_forall in H. apply H. exact Hl.
Qed.

Lemma wf_sig2_rleaves : forall sg q, wf_sig2 sg = true -> In q (sig_rleaves sg) -> rleaf_ok2 q = true.
Proof.
  intros sg q H Hq. unfold wf_sig2 in H. apply andb_true_iff in H as [_ H].
  rewrite forallb_forall in H. apply H. exact Hq.
Qed.

Lemma build_seq_ok2 : forall sg, forallb pleaf_ok2 (sig_leaves sg) = true -> forallb pleaf_ok2 (sig_build_seq sg) = true.
Proof.
  intros sg H. rewrite forallb_forall in *. intros l Hl.
  unfold sig_build_seq in Hl. apply in_map_iff in Hl as (i & <- & _).
  destruct (nth_in_or_default i (sig_leaves sg) dummy_leaf) as [Hin| ->]; [apply H; exact Hin|reflexivity].
Qed.

Lemma build_seq_noopt : forall sg l, noopt_sig sg = true -> In l (sig_build_seq sg) -> is_opt_leaf l = false.
Proof.
  intros sg l H Hl. unfold noopt_sig in H. apply negb_true_iff in H.
  unfold sig_build_seq in Hl. apply in_map_iff in Hl as (i & <- & _).
  destruct (nth_in_or_default i (sig_leaves sg) dummy_leaf) as [Hin| ->]; [|reflexivity].
  destruct (is_opt_leaf (nth i (sig_leaves sg) dummy_leaf)) eqn:E; [|reflexivity].
  exfalso. assert (existsb is_opt_leaf (sig_leaves sg) = true) by (apply existsb_exists; eauto). congruence.
Qed.

Lemma single_key_group0 : forall sg k, wf_sig2 sg = true -> In k (single_keys sg) -> k_group k = 0.
Proof.
  intros sg k H Hk. unfold single_keys in Hk. apply in_flat_map in Hk as (q & Hq & Hk).
  pose proof (wf_sig2_rleaves sg q H Hq) as Hr. destruct q as [ks|ks fl]; [|destruct Hk].
  cbn in Hr. rewrite forallb_forall in Hr. apply Nat.eqb_eq. apply Hr. exact Hk.
Qed.

Lemma group_key_groupS : forall sg k, wf_sig2 sg = true -> In k (group_keys sg) -> k_group k <> 0.
Proof.
  intros sg k H Hk. unfold group_keys in Hk. apply in_flat_map in Hk as (q & Hq & Hk).
  pose proof (wf_sig2_rleaves sg q H Hq) as Hr. destruct q as [ks|ks fl]; [destruct Hk|].
  cbn in Hr. apply andb_true_iff in Hr as [Hr _]. rewrite forallb_forall in Hr.
  specialize (Hr k Hk). apply negb_true_iff, Nat.eqb_neq in Hr. exact Hr.
Qed.

(* ================================================================== *)
(* Part 4 : static invariants of the node / decorator tables           *)
(* ================================================================== *)

Section Static.
  Variable NO : bool.     (* the history has no optional single parameter *)

  Record SI (st : state) : Prop := mkSI {
    si_nsig : forall n, wf_sig2 (c_sig (get_node st n)) = true;
    si_nnodup : forall n, NoDup (single_keys (c_sig (get_node st n)));
    si_nopt : forall n, NO = true -> noopt_sig (c_sig (get_node st n)) = true;
    si_dsig : forall d, wf_dsig2 (d_sig (get_dec st d)) = true;
    si_dopt : forall d, NO = true -> noopt_sig (d_sig (get_dec st d)) = true
  }.

  Lemma SI_skel : forall st st', skel st = skel st' -> SI st -> SI st'.
  Proof.
    intros st st' E [A B C D F]. apply skel_eq_fields in E. destruct E. constructor.
    - intros n. rewrite <- sf_csig. apply A.
    - intros n. rewrite <- sf_csig. apply B.
    - intros n. rewrite <- sf_csig. apply C.
    - intros d. rewrite <- sf_dsig. apply D.
    - intros d. rewrite <- sf_dsig. apply F.
  Qed.

  Lemma SI_pres : forall st st', pres st st' -> SI st -> SI st'.
  Proof. intros st st' [E _]. apply SI_skel. symmetry. exact E. Qed.
End Static.

(* a single key has at most one provider per scope *)
Definition UI (st : state) : Prop :=
  forall b k n1 n2, k_group k = 0 -> In n1 (providers_at st b k) -> In n2 (providers_at st b k) -> n1 = n2.

Lemma UI_skel : forall st st', skel st = skel st' -> UI st -> UI st'.
Proof.
  intros st st' E H b k n1 n2 Hk. apply skel_eq_fields in E. destruct E.
  unfold providers_at. rewrite <- sf_providers. apply H. exact Hk.
Qed.

Lemma UI_pres : forall st st', pres st st' -> UI st -> UI st'.
Proof. intros st st' [E _]. apply UI_skel. symmetry. exact E. Qed.

Lemma UI_single : forall st r b k n, RegRel st r -> UI st -> k_group k = 0 ->
  In n (providers_at st b k) -> providers_at st b k = [n].
Proof.
  intros st r b k n HR HU Hk Hin.
  pose proof (RegRel_providers_NoDup st r b k HR) as Hnd.
  destruct (providers_at st b k) as [|x [|y t]] eqn:E; [destruct Hin| |].
  - destruct Hin as [->|[]]. reflexivity.
  - exfalso. assert (x = y).
    { apply (HU b k); [exact Hk|rewrite E; left; reflexivity|rewrite E; right; left; reflexivity]. }
    subst. inversion Hnd as [|? ? Hn _]; subst. apply Hn. left; reflexivity.
Qed.

(* registry-level kinds from SI *)
Lemma SI_reg_ctor : forall NO st r c, RegRel st r -> SI NO st -> In c (r_ctors r) -> wf_sig2 (sc_sig c) = true.
Proof.
  intros NO st r c HR HS Hc. rewrite (rr_ctors HR) in Hc. apply in_map_iff in Hc as (cn & <- & Hin).
  apply (In_nth _ _ dummy_cnode) in Hin as (n & _ & <-). apply (si_nsig NO st HS n).
Qed.

Lemma SI_single_only : forall NO st r k, RegRel st r -> SI NO st -> k_group k = 0 -> single_only r k.
Proof.
  intros NO st r k HR HS Hk c Hc. unfold feeds_group.
  destruct (memb key_eqb k (group_keys (sc_sig c))) eqn:E; [|reflexivity].
  exfalso. apply memb_key_In in E. apply (group_key_groupS _ _ (SI_reg_ctor NO st r c HR HS Hc) E). exact Hk.
Qed.

Lemma SI_group_only : forall NO st r k, RegRel st r -> SI NO st -> k_group k <> 0 -> group_only r k.
Proof.
  intros NO st r k HR HS Hk c Hc. unfold provides_single.
  destruct (memb key_eqb k (single_keys (sc_sig c))) eqn:E; [|reflexivity].
  exfalso. apply memb_key_In in E. apply Hk. apply (single_key_group0 _ _ (SI_reg_ctor NO st r c HR HS Hc) E).
Qed.

(* ================================================================== *)
(* Part 4b : constructors that cannot succeed in this operation         *)
(* ================================================================== *)

(* Relative to the registry and to the log L0 at the start of the operation:
   a constructor that has not succeeded yet and has a required single
   parameter without provider, or whose nearest provider is doomed, or a
   non-soft group parameter with a doomed feeder.  (Used only for registries
   without decorators, where a registry-level analysis is exact.) *)
Section Doomed.
  Variable r : registry.
  Variable L0 : list lentry.

  Inductive RDoomed : sctor -> Prop :=
  | rd_none : forall c k, succ_of L0 (sc_fn c) = None ->
      In (LSingle k false) (sig_leaves (sc_sig c)) ->
      nearest_provider r (sc_orig c) k = None -> RDoomed c
  | rd_single : forall c k c', succ_of L0 (sc_fn c) = None ->
      In (LSingle k false) (sig_leaves (sc_sig c)) ->
      nearest_provider r (sc_orig c) k = Some c' -> RDoomed c' -> RDoomed c
  | rd_group : forall c k c', succ_of L0 (sc_fn c) = None ->
      In (LGroup k false) (sig_leaves (sc_sig c)) ->
      In c' (feeders r (sc_orig c) k) -> RDoomed c' -> RDoomed c.

  Definition leaf_bad (v : sid) (l : pleaf) : Prop :=
    match l with
    | LSingle k false => match nearest_provider r v k with None => True | Some c' => RDoomed c' end
    | LGroup k false => exists c', In c' (feeders r v k) /\ RDoomed c'
    | _ => False
    end.

  Lemma RDoomed_intro : forall c l, succ_of L0 (sc_fn c) = None ->
    In l (sig_leaves (sc_sig c)) -> leaf_bad (sc_orig c) l -> RDoomed c.
  Proof.
    intros c l Hs Hl Hb. destruct l as [k [|]|k [|]]; cbn [leaf_bad] in Hb.
    - destruct Hb.
    - destruct (nearest_provider r (sc_orig c) k) as [c'|] eqn:E.
      + eapply rd_single; eauto.
      + eapply rd_none; eauto.
    - destruct Hb.
    - destruct Hb as (c' & Hc' & Hd). eapply rd_group; eauto.
  Qed.

  Lemma RDoomed_inv : forall c, RDoomed c ->
    succ_of L0 (sc_fn c) = None /\ exists l, In l (sig_leaves (sc_sig c)) /\ leaf_bad (sc_orig c) l.
  Proof.
    intros c H. destruct H as [c k Hs Hl Hn|c k c' Hs Hl Hn Hd|c k c' Hs Hl Hf Hd]; (split; [exact Hs|]).
    - exists (LSingle k false). split; [exact Hl|]. cbn. rewrite Hn. exact I.
    - exists (LSingle k false). split; [exact Hl|]. cbn. rewrite Hn. exact Hd.
    - exists (LGroup k false). split; [exact Hl|]. cbn. eauto.
  Qed.
End Doomed.


Lemma NoDup_map_inj_In : forall (A B : Type) (f : A -> B) (l : list A) x y,
  NoDup (map f l) -> In x l -> In y l -> f x = f y -> x = y.
Proof.
  intros A B f l; induction l as [|a l IH]; intros x y Hnd Hx Hy E; [destruct Hx|].
  cbn in Hnd. inversion Hnd as [|? ? Hn Hd]; subst.
  destruct Hx as [->|Hx], Hy as [->|Hy]; auto.
  - exfalso. apply Hn. rewrite E. apply in_map. exact Hy.
  - exfalso. apply Hn. rewrite <- E. apply in_map. exact Hx.
Qed.

Lemma feeders_In_ctors : forall r v k c, In c (feeders r v k) -> In c (r_ctors r).
Proof. intros r v k c H. unfold feeders in H. apply filter_In in H. tauto. Qed.

Lemma nearest_provider_ctors : forall r v k c, nearest_provider r v k = Some c -> In c (r_ctors r).
Proof.
  intros r v k c H. unfold nearest_provider in H.
  induction (spath r v) as [|b0 t IH]; cbn [find_map] in H; [discriminate|].
  destruct (hd_error (providers_in r b0 k)) as [c0|] eqn:E; [|apply IH; exact H].
  injection H as ->. unfold providers_in in E. destruct (filter _ (r_ctors r)) as [|x l] eqn:Ef; [discriminate|].
  cbn in E. injection E as ->.
  assert (In c (filter (fun c0 => Nat.eqb (sc_home c0) b0 && provides_single c0 k) (r_ctors r))) by (rewrite Ef; left; reflexivity).
  apply filter_In in H. tauto.
Qed.

(* a doomed constructor is not available in the sense of Spec.avail_set *)
Lemma doomed_not_avail : forall r L0 built,
  NoDup (map sc_fn (r_ctors r)) ->
  (forall c, In c (r_ctors r) -> RDoomed r L0 c -> ~ In (sc_fn c) built) ->
  forall c, In c (r_ctors r) -> RDoomed r L0 c -> avail_ctor r built c = false.
Proof.
  intros r L0 built Hnd Hb.
  assert (STEP : forall A, (forall c, In c (r_ctors r) -> RDoomed r L0 c -> ~ In (sc_fn c) A) ->
                 forall c, In c (r_ctors r) -> RDoomed r L0 c -> ~ In (sc_fn c) (avail_step r built A)).
  { intros A HA c Hc Hd Hin. unfold avail_step in Hin. apply in_map_iff in Hin as (c2 & Efn & Hc2).
    apply filter_In in Hc2 as [Hc2 Hcond].
    assert (c2 = c) by (eapply NoDup_map_inj_In; eauto). subst c2.
    apply orb_true_iff in Hcond as [Hbu|Hall].
    - apply memb_nat_In in Hbu. exact (Hb c Hc Hd Hbu).
    - destruct (RDoomed_inv r L0 c Hd) as (_ & l & Hl & Hbad).
      rewrite forallb_forall in Hall. specialize (Hall l Hl).
      destruct l as [k [|]|k [|]]; cbn [leaf_bad] in Hbad; cbn [leaf_avail] in Hall.
      + destruct Hbad.
      + destruct (nearest_provider r (sc_orig c) k) as [c'|] eqn:En; [|discriminate].
        apply memb_nat_In in Hall. apply (HA c' (nearest_provider_ctors _ _ _ _ En) Hbad Hall).
      + destruct Hbad.
      + destruct Hbad as (c' & Hc' & Hd'). rewrite forallb_forall in Hall. specialize (Hall c' Hc').
        apply memb_nat_In in Hall. apply (HA c' (feeders_In_ctors _ _ _ _ Hc') Hd' Hall). }
  assert (ITER : forall m A, (forall c, In c (r_ctors r) -> RDoomed r L0 c -> ~ In (sc_fn c) A) ->
                 forall c, In c (r_ctors r) -> RDoomed r L0 c -> ~ In (sc_fn c) (avail_iter m r built A)).
  { induction m as [|m IH]; intros A HA; cbn [avail_iter]; [exact HA|]. apply IH. apply STEP. exact HA. }
  intros c Hc Hd. unfold avail_ctor, avail_set.
  destruct (memb Nat.eqb (sc_fn c) (avail_iter (S (length (r_ctors r))) r built [])) eqn:E; [|reflexivity].
  exfalso. apply memb_nat_In in E. revert E. apply ITER; auto.
Qed.

Lemma built_of_succ : forall L f, In f (built_of L) -> succ_of L f <> None.
Proof.
  intros L f H. unfold built_of in H. apply in_flat_map in H as (l & Hl & Hf).
  destruct (le_ok l) eqn:Eok; [|destruct Hf]. destruct Hf as [<-|[]].
  unfold succ_of. induction L as [|x L IH]; [destruct Hl|]. cbn [find_map].
  destruct (Nat.eqb (le_fn x) (le_fn l) && le_ok x) eqn:E; [discriminate|].
  destruct Hl as [->|Hl]; [rewrite Nat.eqb_refl, Eok in E; discriminate|apply IH; exact Hl].
Qed.

(* ================================================================== *)
(* Part 5 : the leaf postcondition                                     *)
(* ================================================================== *)

Section LeafPost.
  Variable bt : list (fnid * list outcome).
  Variable r : registry.
  Variable L0 : list lentry.        (* the log when the operation began *)
  Variable NO : bool.
  Variable ND : bool.        (* the history has no Decorate *)

  Definition Allowed (c : nat) : Prop :=
    (c = 112 /\ ND = false) \/ (c = 132 /\ ND = false) \/ (c = 120 /\ NO = false /\ ND = false).

  Definition LP_single (L : list lentry) (OS : sdec -> Prop) (self : option fnid) (v : sid)
             (k : key) (opt : bool) (a : atom) : Prop :=
    match decorators_on_path r v k self with
    | d :: _ =>
        (exists e, succ_of L (sd_fn d) = Some e /\
                   a = AProd (sd_fn d) e (opt_default 0 (dec_slot k 0 (sig_rleaves (sd_sig d)))) 0) \/ OS d
    | [] =>
        match nearest_provider r v k with
        | Some c =>
            (exists e, succ_of L (sc_fn c) = Some e /\
                       a = AProd (sc_fn c) e (opt_default 0 (slot_of_single k 0 (sig_rleaves (sc_sig c)))) 0) \/
            (opt = true /\ a = AZero /\ (ND = false \/ RDoomed r L0 c))
        | None => opt = true /\ a = AZero
        end
    end.

  Definition LP_group (L : list lentry) (OS : sdec -> Prop) (self : option fnid) (v : sid)
             (k : key) (soft : bool) (l : list atom) : Prop :=
    match decorators_on_path r v k self with
    | d :: _ =>
        (exists e, succ_of L (sd_fn d) = Some e /\
           Permutation l (prod_atoms (sd_fn d) e (opt_default 0 (dec_slot k 0 (sig_rleaves (sd_sig d))))
                            (nth_len (lens_of bt (sd_fn d) e) (opt_default 0 (dec_slot k 0 (sig_rleaves (sd_sig d))))))) \/ OS d
    | [] =>
        let fs := feeders r v k in
        if soft then
          incl l (flat_map (members_of bt L k) fs) /\ incl (flat_map (members_of bt L0 k) fs) l /\ NoDup l
        else
          (forall c, In c fs -> succ_of L (sc_fn c) <> None) /\
          Permutation l (flat_map (members_of bt L k) fs)
    end.

  Definition LPk (L : list lentry) (OS : sdec -> Prop) (self : option fnid) (v : sid)
             (l : pleaf) (x : arg) : Prop :=
    match l, x with
    | LSingle k opt, ASingle a => LP_single L OS self v k opt a
    | LGroup k soft, ASlice al => LP_group L OS self v k soft al
    | _, _ => False
    end.

  (* ---------- stability ---------- *)

  Lemma members_of_mono : forall L L' k c,
    (forall f e, succ_of L f = Some e -> succ_of L' f = Some e) ->
    incl (members_of bt L k c) (members_of bt L' k c).
  Proof.
    intros L L' k c H. unfold members_of. destruct (succ_of L (sc_fn c)) as [e|] eqn:E.
    - rewrite (H _ _ E). apply incl_refl.
    - intros x [].
  Qed.

  Lemma members_of_stable : forall L L' k c,
    (forall f e, succ_of L f = Some e -> succ_of L' f = Some e) ->
    succ_of L (sc_fn c) <> None -> members_of bt L' k c = members_of bt L k c.
  Proof.
    intros L L' k c H Hs. unfold members_of. destruct (succ_of L (sc_fn c)) as [e|] eqn:E; [|congruence].
    rewrite (H _ _ E). reflexivity.
  Qed.

  Lemma LPk_mono : forall L L' (OS OS' : sdec -> Prop) self v l x,
    (forall f e, succ_of L f = Some e -> succ_of L' f = Some e) ->
    (forall d, OS d -> OS' d) ->
    LPk L OS self v l x -> LPk L' OS' self v l x.
  Proof.
    intros L L' OS OS' self v l x HL HOS.
    destruct l as [k opt|k soft], x as [a|al]; cbn [LPk]; try tauto.
    - unfold LP_single. destruct (decorators_on_path r v k self) as [|d t].
      + destruct (nearest_provider r v k) as [c|]; [|tauto].
        intros [(e & E & ->)|H]; [left; exists e; split; [apply HL; exact E|reflexivity]|right; exact H].
      + intros [(e & E & ->)|H]; [left; exists e; split; [apply HL; exact E|reflexivity]|right; apply HOS; exact H].
    - unfold LP_group. destruct (decorators_on_path r v k self) as [|d t].
      + cbv zeta. destruct soft.
        * intros (A & B & C). split; [|split; assumption].
          intros y Hy. apply A in Hy. apply in_flat_map in Hy as (c & Hc & Hy).
          apply in_flat_map. exists c. split; [exact Hc|]. eapply members_of_mono; eauto.
        * intros (A & B). split.
          -- intros c Hc E. destruct (succ_of L (sc_fn c)) as [e|] eqn:E2; [|exact (A c Hc E2)].
             rewrite (HL _ _ E2) in E. discriminate.
          -- eapply Permutation_trans; [exact B|]. apply Permutation_refl'.
             apply P_Frame.flat_map_ext_in. intros c Hc. symmetry. apply members_of_stable; auto.
      + intros [(e & E & P)|H]; [left; exists e; split; [apply HL; exact E|exact P]|right; apply HOS; exact H].
  Qed.

  (* ---------- soundness w.r.t. the checker ---------- *)

  (* what the checker lemmas need to know about the log L and the on-stack predicate *)
  Record ChkEnv (L : list lentry) (OS : sdec -> Prop) : Prop := mkChkEnv {
    ce_os : forall d, OS d -> succ_of L (sd_fn d) = None;
    ce_osnd : forall d, OS d -> ND = false;
    ce_nd : ND = is_nil (r_decs r);
    ce_fns : NoDup (map sc_fn (r_ctors r));
    ce_doom : ND = true -> forall c, In c (r_ctors r) -> RDoomed r L0 c -> succ_of L (sc_fn c) = None
  }.

  Lemma chk_single_LP : forall L (OS : sdec -> Prop) cn k opt a,
    ChkEnv L OS ->
    (NO = true -> opt = false) ->
    LP_single L OS (cn_self cn) (cn_view cn) k opt a ->
    forall c, In c (chk_single r L cn k opt a) -> Allowed c.
  Proof.
    intros L OS cn k opt a [HOS HOS2 HND Hfn HDm] Hopt H c Hc. unfold LP_single in H. unfold chk_single in Hc.
    destruct (decorators_on_path r (cn_view cn) k (cn_self cn)) as [|d t].
    - destruct (nearest_provider r (cn_view cn) k) as [pc|] eqn:Enp.
      + destruct H as [(e & E & ->)|(-> & -> & HD)].
        * rewrite E in Hc. rewrite atom_eqb_refl in Hc. destruct Hc.
        * destruct (succ_of L (sc_fn pc)) as [e|] eqn:Es.
          -- cbn in Hc. destruct Hc as [<-|[]]. right; right. split; [reflexivity|].
             split; [destruct NO; [discriminate (Hopt eq_refl)|reflexivity]|].
             destruct HD as [HD|HD]; [exact HD|].
             destruct ND eqn:End; [|reflexivity].
             rewrite (HDm eq_refl pc (nearest_provider_ctors _ _ _ _ Enp) HD) in Es. discriminate.
          -- cbn [andb atom_eqb guardb app] in Hc. exfalso.
             destruct (is_nil (r_decs r)) eqn:Enil; cbn [negb orb] in Hc; [|destruct Hc].
             destruct HD as [HD|HD]; [congruence|].
             rewrite (doomed_not_avail r L0 (built_of L) Hfn) in Hc; [destruct Hc| |apply (nearest_provider_ctors _ _ _ _ Enp)|exact HD].
             intros c0 Hc0 Hd0 Hin. apply built_of_succ in Hin. apply Hin. apply HDm; [congruence|exact Hc0|exact Hd0].
      + destruct H as [-> ->]. cbn in Hc. destruct Hc.
    - destruct H as [(e & E & ->)|H].
      + rewrite E in Hc. rewrite atom_eqb_refl in Hc. destruct Hc.
      + rewrite (HOS d H) in Hc. destruct Hc as [<-|[]]. left. split; [reflexivity|apply (HOS2 d H)].
  Qed.

  Lemma chk_group_LP : forall L (OS : sdec -> Prop) cn k soft l,
    ChkEnv L OS ->
    LP_group L OS (cn_self cn) (cn_view cn) k soft l ->
    forall c, In c (chk_group bt r L0 L cn k soft l) -> Allowed c.
  Proof.
    intros L OS cn k soft l [HOS HOS2 _ _ _] H c Hc. unfold LP_group in H. unfold chk_group in Hc.
    destruct (decorators_on_path r (cn_view cn) k (cn_self cn)) as [|d t].
    - cbv zeta in H, Hc. destruct soft.
      + destruct H as (A & B & C).
        rewrite (subsetb_incl _ _ A), (subsetb_incl _ _ B), (nodupb_atom _ C) in Hc. destruct Hc.
      + destruct H as (A & B). rewrite (perm_eqb_complete _ _ B) in Hc.
        replace (forallb (fun c0 => is_some (succ_of L (sc_fn c0))) (feeders r (cn_view cn) k)) with true in Hc; [destruct Hc|].
        symmetry. apply forallb_forall. intros x Hx. specialize (A x Hx).
        destruct (succ_of L (sc_fn x)); [reflexivity|congruence].
    - destruct H as [(e & E & P)|H].
      + rewrite E in Hc. cbv zeta in Hc. rewrite (perm_eqb_complete _ _ P) in Hc. destruct Hc.
      + rewrite (HOS d H) in Hc. destruct Hc as [<-|[]]. right; left. split; [reflexivity|apply (HOS2 d H)].
  Qed.

  Lemma chk_args_LP : forall L (OS : sdec -> Prop) cn ls args,
    ChkEnv L OS ->
    (NO = true -> forall l, In l ls -> is_opt_leaf l = false) ->
    Forall2 (LPk L OS (cn_self cn) (cn_view cn)) ls args ->
    forall c, In c (chk_args bt r L0 L cn ls args) -> Allowed c.
  Proof.
    intros L OS cn ls args HE Hopt HF. induction HF as [|l x ls args Hlx HF IH]; intros c Hc; [destruct Hc|].
    assert (Hopt' : NO = true -> forall l0, In l0 ls -> is_opt_leaf l0 = false)
      by (intros HN l0 Hl0; apply Hopt; [exact HN|right; exact Hl0]).
    destruct l as [k opt|k soft], x as [a|al]; cbn [LPk] in Hlx.
    - cbn [chk_args] in Hc. apply in_app_or in Hc as [Hc|Hc]; [|apply IH; assumption].
      apply (chk_single_LP L OS cn k opt a HE); [|exact Hlx|exact Hc].
      intros HN. specialize (Hopt HN _ (or_introl eq_refl)).
      destruct opt; [discriminate Hopt|reflexivity].
    - destruct Hlx.
    - destruct Hlx.
    - cbn [chk_args] in Hc. apply in_app_or in Hc as [Hc|Hc]; [|apply IH; assumption].
      exact (chk_group_LP L OS cn k soft al HE Hlx c Hc).
  Qed.
End LeafPost.

(* ---- what a commit writes; the cache-coherence invariant CI and its preservation *)

(* ================================================================== *)
(* Part 6 : what commit_results / commit_decorated write               *)
(* ================================================================== *)

Definition skeys (rs : list rleaf) : list key :=
  flat_map (fun q => match q with QSingle ks => ks | QGroup _ _ => [] end) rs.

Lemma single_keys_skeys : forall sg, single_keys sg = skeys (sig_rleaves sg).
Proof. reflexivity. Qed.

Lemma slot_of_single_none : forall k rs slot, ~ In k (skeys rs) -> slot_of_single k slot rs = None.
Proof.
  intros k rs; induction rs as [|[ks|ks fl] t IH]; intros slot H; cbn [slot_of_single]; [reflexivity| |].
  - cbn [skeys flat_map] in H. destruct (memb key_eqb k ks) eqn:E.
    + exfalso. apply H. apply in_or_app. left. apply memb_key_In. exact E.
    + apply IH. intros Hin. apply H. apply in_or_app. right. exact Hin.
  - apply IH. exact H.
Qed.

Lemma slot_of_single_In : forall k rs slot s, slot_of_single k slot rs = Some s -> In k (skeys rs).
Proof.
  intros k rs; induction rs as [|[ks|ks fl] t IH]; intros slot s H; cbn [slot_of_single] in H; [discriminate| |].
  - cbn [skeys flat_map]. apply in_or_app. destruct (memb key_eqb k ks) eqn:E.
    + left. apply memb_key_In. exact E.
    + right. eapply IH. exact H.
  - cbn [skeys flat_map app]. eapply IH. exact H.
Qed.

Lemma slot_of_single_some : forall k rs slot, In k (skeys rs) -> exists s, slot_of_single k slot rs = Some s.
Proof.
  intros k rs slot H. destruct (slot_of_single k slot rs) as [s|] eqn:E; [eexists; reflexivity|].
  exfalso. revert slot E. induction rs as [|[ks|ks fl] t IH]; intros slot E; [destruct H| |].
  - cbn [slot_of_single] in E. cbn [skeys flat_map] in H. destruct (memb key_eqb k ks) eqn:Em; [discriminate|].
    apply in_app_or in H as [H|H]; [apply memb_key_In in H; congruence|]. eapply IH; eauto.
  - cbn [slot_of_single] in E. eapply IH; eauto.
Qed.

Lemma commit_results_values_spec : forall f e lens k rs slot c,
  NoDup (skeys rs) ->
  alookup key_eqb k (s_values (commit_results false f e lens slot rs c)) =
  match slot_of_single k slot rs with
  | Some s => Some (AProd f e s 0)
  | None => alookup key_eqb k (s_values c)
  end.
Proof.
  intros f e lens k rs; induction rs as [|[ks|ks [|]] t IH]; intros slot c Hnd;
    cbn [commit_results slot_of_single]; try reflexivity.
  - cbn [skeys flat_map] in Hnd. rewrite IH by (eapply P_Once.NoDup_app_r; exact Hnd).
    cbn [s_values sc_set_values]. rewrite alookup_fold_aset.
    destruct (memb key_eqb k ks) eqn:E.
    + rewrite slot_of_single_none; [reflexivity|].
      intros Hin. apply memb_key_In in E. eapply P_Once.NoDup_app_disj; eauto.
    + reflexivity.
  - cbn [skeys flat_map app] in Hnd. rewrite IH by exact Hnd. reflexivity.
  - cbn [skeys flat_map app] in Hnd. rewrite IH by exact Hnd. reflexivity.
Qed.

Lemma alookup_list_fold_append : forall (l : list atom) k ks (m : list (key * list atom)),
  NoDup ks ->
  alookup_list key_eqb k (fold_left (fun m k => aset key_eqb k (alookup_list key_eqb k m ++ l) m) ks m) =
  if memb key_eqb k ks then alookup_list key_eqb k m ++ l else alookup_list key_eqb k m.
Proof.
  intros l k ks; induction ks as [|k0 t IH]; intros m Hnd; cbn [fold_left memb]; [reflexivity|].
  inversion Hnd as [|? ? Hnin Hnd']; subst. rewrite IH by exact Hnd'.
  unfold alookup_list at 1 3. rewrite alookup_aset.
  destruct (key_eqb k k0) eqn:E; cbn [orb].
  - apply key_eqb_eq in E. subst k0.
    destruct (memb key_eqb k t) eqn:Em; [apply memb_key_In in Em; contradiction|]. reflexivity.
  - fold (alookup_list key_eqb k m). reflexivity.
Qed.

Lemma commit_results_groups_spec : forall f e lens k rs slot c,
  (forall ks fl, In (QGroup ks fl) rs -> NoDup ks) ->
  alookup_list key_eqb k (s_groups (commit_results false f e lens slot rs c)) =
  alookup_list key_eqb k (s_groups c) ++ group_members k f e lens slot rs.
Proof.
  intros f e lens k rs; induction rs as [|[ks|ks [|]] t IH]; intros slot c Hnd;
    cbn [commit_results group_members].
  - rewrite app_nil_r. reflexivity.
  - rewrite IH by (intros ks' fl H; eapply Hnd; right; exact H). reflexivity.
  - rewrite IH by (intros ks' fl H; eapply Hnd; right; exact H).
    cbn [s_groups sc_set_groups]. rewrite alookup_list_fold_append by (eapply Hnd; left; reflexivity).
    destruct (memb key_eqb k ks); [rewrite <- app_assoc; reflexivity|reflexivity].
  - rewrite IH by (intros ks' fl H; eapply Hnd; right; exact H).
    cbn [s_groups sc_set_groups]. rewrite alookup_list_fold_append by (eapply Hnd; left; reflexivity).
    destruct (memb key_eqb k ks); [rewrite <- app_assoc; reflexivity|reflexivity].
Qed.

Lemma commit_results_dgroups : forall dry f e lens rs slot c,
  s_dgroups (commit_results dry f e lens slot rs c) = s_dgroups c.
Proof.
  intros dry f e lens rs; induction rs as [|[ks|ks [|]] t IH]; intros slot c; cbn [commit_results];
    [reflexivity| | |]; rewrite IH; reflexivity.
Qed.

Lemma commit_decorated_groups : forall dry f e lens rs slot c,
  s_groups (commit_decorated dry f e lens slot rs c) = s_groups c.
Proof.
  intros dry f e lens rs; induction rs as [|[[|k0 ks0]|[|k0 ks0] fl] t IH]; intros slot c; cbn [commit_decorated];
    [reflexivity| | | |]; rewrite IH; reflexivity.
Qed.

Lemma group_members_nil : forall k f e lens rs slot,
  (forall ks fl, In (QGroup ks fl) rs -> ~ In k ks) -> group_members k f e lens slot rs = [].
Proof.
  intros k f e lens rs; induction rs as [|[ks|ks [|]] t IH]; intros slot H; cbn [group_members]; [reflexivity| | |].
  - apply IH. intros ks' fl Hin. eapply H. right; exact Hin.
  - destruct (memb key_eqb k ks) eqn:E.
    + exfalso. apply memb_key_In in E. eapply H; [left; reflexivity|exact E].
    + cbn [app]. apply IH. intros ks' fl Hin. eapply H. right; exact Hin.
  - destruct (memb key_eqb k ks) eqn:E.
    + exfalso. apply memb_key_In in E. eapply H; [left; reflexivity|exact E].
    + cbn [app]. apply IH. intros ks' fl Hin. eapply H. right; exact Hin.
Qed.

(* the keys a decorator decorates, with the slot and kind of the first leaf returning k *)
Definition dkeys (rs : list rleaf) : list key :=
  flat_map (fun r => match r with
                     | QSingle (k :: _) => [k]
                     | QGroup (k :: _) _ => [k]
                     | _ => []
                     end) rs.

Lemma dec_keys_dkeys : forall sg, dec_keys sg = dkeys (sig_rleaves sg).
Proof. reflexivity. Qed.

Fixpoint dfind (k : key) (slot : nat) (rs : list rleaf) : option (nat * bool) :=
  match rs with
  | [] => None
  | QSingle (k' :: _) :: t => if key_eqb k k' then Some (slot, true) else dfind k (S slot) t
  | QGroup (k' :: _) _ :: t => if key_eqb k k' then Some (slot, false) else dfind k (S slot) t
  | _ :: t => dfind k (S slot) t
  end.

Lemma dec_slot_dfind : forall k rs slot, dec_slot k slot rs = option_map fst (dfind k slot rs).
Proof.
  intros k rs; induction rs as [|[[|k0 ks0]|[|k0 ks0] fl] t IH]; intros slot; cbn [dec_slot dfind]; try apply IH; try reflexivity.
  - destruct (key_eqb k k0); [reflexivity|apply IH].
  - destruct (key_eqb k k0); [reflexivity|apply IH].
Qed.

Lemma dfind_none : forall k rs slot, ~ In k (dkeys rs) -> dfind k slot rs = None.
Proof.
  intros k rs; induction rs as [|[[|k0 ks0]|[|k0 ks0] fl] t IH]; intros slot H; cbn [dfind]; try reflexivity;
    cbn [dkeys flat_map app] in H; try (apply IH; exact H).
  - destruct (key_eqb k k0) eqn:E; [apply key_eqb_eq in E; subst; exfalso; apply H; left; reflexivity|].
    apply IH. intros Hin. apply H. right. exact Hin.
  - destruct (key_eqb k k0) eqn:E; [apply key_eqb_eq in E; subst; exfalso; apply H; left; reflexivity|].
    apply IH. intros Hin. apply H. right. exact Hin.
Qed.

Lemma dfind_In : forall k rs slot s x, dfind k slot rs = Some (s, x) -> In k (dkeys rs).
Proof.
  intros k rs; induction rs as [|[[|k0 ks0]|[|k0 ks0] fl] t IH]; intros slot s x H; cbn [dfind] in H; try discriminate;
    cbn [dkeys flat_map app]; try (eapply IH; exact H).
  - destruct (key_eqb k k0) eqn:E; [apply key_eqb_eq in E; subst; left; reflexivity|right; eapply IH; exact H].
  - destruct (key_eqb k k0) eqn:E; [apply key_eqb_eq in E; subst; left; reflexivity|right; eapply IH; exact H].
Qed.

Lemma dfind_group_leaf : forall k ks fl rs slot, NoDup (dkeys rs) -> In (QGroup (k :: ks) fl) rs ->
  exists s, dfind k slot rs = Some (s, false).
Proof.
  intros k ks fl rs; induction rs as [|q t IH]; intros slot Hnd Hin; [destruct Hin|].
  destruct Hin as [->|Hin].
  - cbn [dfind]. rewrite key_eqb_refl. eexists; reflexivity.
  - assert (Hk : In k (dkeys t)).
    { unfold dkeys. apply in_flat_map. exists (QGroup (k :: ks) fl). split; [exact Hin|left; reflexivity]. }
    destruct q as [[|k0 ks0]|[|k0 ks0] fl0]; cbn [dfind]; cbn [dkeys flat_map app] in Hnd;
      try (apply IH; assumption).
    + inversion Hnd as [|? ? Hn Hd]; subst. destruct (key_eqb k k0) eqn:E.
      * apply key_eqb_eq in E. subst. contradiction.
      * apply IH; assumption.
    + inversion Hnd as [|? ? Hn Hd]; subst. destruct (key_eqb k k0) eqn:E.
      * apply key_eqb_eq in E. subst. contradiction.
      * apply IH; assumption.
Qed.

Lemma dfind_single_leaf : forall k ks rs slot, NoDup (dkeys rs) -> In (QSingle (k :: ks)) rs ->
  exists s, dfind k slot rs = Some (s, true).
Proof.
  intros k ks rs; induction rs as [|q t IH]; intros slot Hnd Hin; [destruct Hin|].
  destruct Hin as [->|Hin].
  - cbn [dfind]. rewrite key_eqb_refl. eexists; reflexivity.
  - assert (Hk : In k (dkeys t)).
    { unfold dkeys. apply in_flat_map. exists (QSingle (k :: ks)). split; [exact Hin|left; reflexivity]. }
    destruct q as [[|k0 ks0]|[|k0 ks0] fl0]; cbn [dfind]; cbn [dkeys flat_map app] in Hnd;
      try (apply IH; assumption).
    + inversion Hnd as [|? ? Hn Hd]; subst. destruct (key_eqb k k0) eqn:E.
      * apply key_eqb_eq in E. subst. contradiction.
      * apply IH; assumption.
    + inversion Hnd as [|? ? Hn Hd]; subst. destruct (key_eqb k k0) eqn:E.
      * apply key_eqb_eq in E. subst. contradiction.
      * apply IH; assumption.
Qed.

Lemma commit_decorated_spec : forall f e lens k rs slot c,
  NoDup (dkeys rs) ->
  alookup key_eqb k (s_dvalues (commit_decorated false f e lens slot rs c)) =
    match dfind k slot rs with
    | Some (s, true) => Some (AProd f e s 0)
    | _ => alookup key_eqb k (s_dvalues c)
    end /\
  alookup key_eqb k (s_dgroups (commit_decorated false f e lens slot rs c)) =
    match dfind k slot rs with
    | Some (s, false) => Some (prod_atoms f e s (nth_len lens s))
    | _ => alookup key_eqb k (s_dgroups c)
    end.
Proof.
  intros f e lens k rs; induction rs as [|[[|k0 ks0]|[|k0 ks0] fl] t IH]; intros slot c Hnd;
    cbn [commit_decorated dfind]; cbn [dkeys flat_map app] in Hnd; try (apply IH; exact Hnd).
  - split; reflexivity.
  - inversion Hnd as [|? ? Hn Hd]; subst.
    destruct (IH (S slot) (sc_set_dvalues (aset key_eqb k0 (AProd f e slot 0) (s_dvalues c)) c) Hd) as [A B].
    rewrite A, B. cbn [s_dvalues s_dgroups sc_set_dvalues]. rewrite alookup_aset.
    destruct (key_eqb k k0) eqn:E.
    + apply key_eqb_eq in E. subst k0. rewrite (dfind_none k t (S slot) Hn). split; reflexivity.
    + split; reflexivity.
  - inversion Hnd as [|? ? Hn Hd]; subst.
    destruct (IH (S slot) (sc_set_dgroups (aset key_eqb k0 (prod_atoms f e slot (nth_len lens slot)) (s_dgroups c)) c) Hd) as [A B].
    rewrite A, B. cbn [s_dvalues s_dgroups sc_set_dgroups]. rewrite alookup_aset.
    destruct (key_eqb k k0) eqn:E.
    + apply key_eqb_eq in E. subst k0. rewrite (dfind_none k t (S slot) Hn). split; reflexivity.
    + split; reflexivity.
Qed.

(* under the kind discipline a single key is returned by a single leaf *)
Lemma dfind_kind_single : forall k rs slot s x,
  forallb rleaf_ok2 rs = true -> k_group k = 0 -> dfind k slot rs = Some (s, x) -> x = true.
Proof.
  intros k rs; induction rs as [|[[|k0 ks0]|[|k0 ks0] fl] t IH]; intros slot s x Hok Hk H; cbn [dfind] in H; try discriminate;
    cbn [forallb] in Hok; apply andb_true_iff in Hok as [Hq Hok]; try (eapply IH; eauto; fail).
  - destruct (key_eqb k k0); [injection H as _ <-; reflexivity|eapply IH; eauto].
  - destruct (key_eqb k k0) eqn:E; [|eapply IH; eauto].
    apply key_eqb_eq in E. subst k0. cbn in Hq. rewrite Hk in Hq. discriminate.
Qed.

Lemma dfind_kind_group : forall k rs slot s x,
  forallb rleaf_ok2 rs = true -> k_group k <> 0 -> dfind k slot rs = Some (s, x) -> x = false.
Proof.
  intros k rs; induction rs as [|[[|k0 ks0]|[|k0 ks0] fl] t IH]; intros slot s x Hok Hk H; cbn [dfind] in H; try discriminate;
    cbn [forallb] in Hok; apply andb_true_iff in Hok as [Hq Hok]; try (eapply IH; eauto; fail).
  - destruct (key_eqb k k0) eqn:E; [|eapply IH; eauto].
    apply key_eqb_eq in E. subst k0. cbn in Hq. apply andb_true_iff in Hq as [Hq _]. apply Nat.eqb_eq in Hq. contradiction.
  - destruct (key_eqb k k0); [injection H as _ <-; reflexivity|eapply IH; eauto].
Qed.

(* ================================================================== *)
(* Part 7 : the cache-coherence invariant                               *)
(* ================================================================== *)

Definition LGs (st : state) : list lentry := LG (st_log st).

Section Coherence.
  Variable bt : list (fnid * list outcome).

  Record CI (st : state) : Prop := mkCI {
    ci_values : forall b k a, alookup key_eqb k (s_values (get_scope st b)) = Some a ->
      exists n e slot, n < length (st_nodes st) /\ c_home (get_node st n) = b /\
        c_called (get_node st n) = true /\
        succ_of (LGs st) (c_fn (get_node st n)) = Some e /\
        slot_of_single k 0 (sig_rleaves (c_sig (get_node st n))) = Some slot /\
        a = AProd (c_fn (get_node st n)) e slot 0;
    ci_dvalues : forall b k a, alookup key_eqb k (s_dvalues (get_scope st b)) = Some a ->
      exists d e slot, d < length (st_decs st) /\ d_home (get_dec st d) = b /\
        d_state (get_dec st d) = DCalled /\
        succ_of (LGs st) (d_fn (get_dec st d)) = Some e /\
        dec_slot k 0 (sig_rleaves (d_sig (get_dec st d))) = Some slot /\
        a = AProd (d_fn (get_dec st d)) e slot 0;
    ci_groups : forall b k,
      Permutation (alookup_list key_eqb k (s_groups (get_scope st b)))
                  (flat_map (fun n => members_of bt (LGs st) k (node_sctor st n)) (providers_at st b k));
    ci_dgroups : forall b k l, alookup key_eqb k (s_dgroups (get_scope st b)) = Some l ->
      exists d e slot, d < length (st_decs st) /\ d_home (get_dec st d) = b /\
        d_state (get_dec st d) = DCalled /\
        succ_of (LGs st) (d_fn (get_dec st d)) = Some e /\
        dec_slot k 0 (sig_rleaves (d_sig (get_dec st d))) = Some slot /\
        l = prod_atoms (d_fn (get_dec st d)) e slot (nth_len (lens_of bt (d_fn (get_dec st d)) e) slot);
    ci_dgpres : forall d k ks fl, d < length (st_decs st) -> d_state (get_dec st d) = DCalled ->
      In (QGroup (k :: ks) fl) (sig_rleaves (d_sig (get_dec st d))) ->
      alookup key_eqb k (s_dgroups (get_scope st (d_home (get_dec st d)))) <> None
  }.

  (* a general transfer: tables may grow at the end with uncalled, never executed entries *)
  Lemma CI_gen : forall st st',
    (forall b, P_Once.scaches (get_scope st' b) = P_Once.scaches (get_scope st b)) ->
    length (st_nodes st) <= length (st_nodes st') ->
    length (st_decs st) <= length (st_decs st') ->
    (forall n, n < length (st_nodes st) ->
       sctor_of (get_node st' n) = sctor_of (get_node st n) /\
       c_called (get_node st' n) = c_called (get_node st n) /\
       succ_of (LGs st') (c_fn (get_node st n)) = succ_of (LGs st) (c_fn (get_node st n))) ->
    (forall b k n, In n (providers_at st' b k) -> length (st_nodes st) <= n -> succ_of (LGs st') (c_fn (get_node st' n)) = None) ->
    (forall d, d < length (st_decs st) ->
       sdec_of (get_dec st' d) = sdec_of (get_dec st d) /\
       (d_state (get_dec st' d) = DCalled <-> d_state (get_dec st d) = DCalled) /\
       succ_of (LGs st') (d_fn (get_dec st d)) = succ_of (LGs st) (d_fn (get_dec st d))) ->
    (forall d, length (st_decs st) <= d -> d < length (st_decs st') -> d_state (get_dec st' d) <> DCalled) ->
    (forall b k, exists extra, providers_at st' b k = providers_at st b k ++ extra /\
                               forall n, In n extra -> length (st_nodes st) <= n) ->
    (forall b k n, In n (providers_at st b k) -> n < length (st_nodes st)) ->
    CI st -> CI st'.
  Proof.
    intros st st' HC LN LD HN HNnew HD HDnew HP HPr [V DV G DG DP].
    assert (EV : forall b, s_values (get_scope st' b) = s_values (get_scope st b))
      by (intros b; specialize (HC b); unfold P_Once.scaches in HC; congruence).
    assert (EDV : forall b, s_dvalues (get_scope st' b) = s_dvalues (get_scope st b))
      by (intros b; specialize (HC b); unfold P_Once.scaches in HC; congruence).
    assert (EG : forall b, s_groups (get_scope st' b) = s_groups (get_scope st b))
      by (intros b; specialize (HC b); unfold P_Once.scaches in HC; congruence).
    assert (EDG : forall b, s_dgroups (get_scope st' b) = s_dgroups (get_scope st b))
      by (intros b; specialize (HC b); unfold P_Once.scaches in HC; congruence).
    constructor.
    - intros b k a H. rewrite EV in H. destruct (V b k a H) as (n & e & slot & Hn & Hh & Hc & Hs & Hsl & ->).
      destruct (HN n Hn) as (E1 & E2 & E3).
      exists n, e, slot.
      pose proof (f_equal sc_fn E1) as Efn. pose proof (f_equal sc_sig E1) as Esig. pose proof (f_equal sc_home E1) as Eh.
      cbn in Efn, Esig, Eh. rewrite Efn, Esig, Eh, E2, E3.
      repeat split; auto. lia.
    - intros b k a H. rewrite EDV in H. destruct (DV b k a H) as (d & e & slot & Hd & Hh & Hc & Hs & Hsl & ->).
      destruct (HD d Hd) as (E1 & E2 & E3).
      exists d, e, slot.
      pose proof (f_equal sd_fn E1) as Efn. pose proof (f_equal sd_sig E1) as Esig. pose proof (f_equal sd_home E1) as Eh.
      cbn in Efn, Esig, Eh. rewrite Efn, Esig, Eh, E3.
      repeat split; auto; [lia|apply E2; exact Hc].
    - intros b k. rewrite EG. eapply Permutation_trans; [apply G|].
      destruct (HP b k) as (extra & HPe & Hex). rewrite HPe, flat_map_app.
      rewrite (flat_map_nil_all _ _ _ extra).
      + rewrite app_nil_r. apply Permutation_refl'. apply P_Frame.flat_map_ext_in. intros n Hn.
        apply HPr in Hn. destruct (HN n Hn) as (E1 & _ & E3).
        unfold node_sctor. rewrite E1. apply members_of_ext. cbn [sc_fn sctor_of]. symmetry. exact E3.
      + intros n Hn. unfold members_of, node_sctor. cbn [sc_fn sctor_of]. rewrite (HNnew b k n); [reflexivity| |apply Hex; exact Hn].
        rewrite HPe. apply in_or_app. right. exact Hn.
    - intros b k l H. rewrite EDG in H. destruct (DG b k l H) as (d & e & slot & Hd & Hh & Hc & Hs & Hsl & ->).
      destruct (HD d Hd) as (E1 & E2 & E3).
      exists d, e, slot.
      pose proof (f_equal sd_fn E1) as Efn. pose proof (f_equal sd_sig E1) as Esig. pose proof (f_equal sd_home E1) as Eh.
      cbn in Efn, Esig, Eh. rewrite Efn, Esig, Eh, E3.
      repeat split; auto; [lia|apply E2; exact Hc].
    - intros d k ks fl Hd Hc Hin.
      destruct (Nat.lt_ge_cases d (length (st_decs st))) as [Hlt|Hge]; [|exfalso; exact (HDnew d Hge Hd Hc)].
      destruct (HD d Hlt) as (E1 & E2 & _).
      pose proof (f_equal sd_sig E1) as Esig. pose proof (f_equal sd_home E1) as Eh. cbn in Esig, Eh.
      rewrite Eh, EDG. rewrite Esig in Hin. apply (DP d k ks fl Hlt); [apply E2; exact Hc|exact Hin].
  Qed.

  Lemma flat_map_update_perm : forall (B : Type) (g g' : nat -> list B) (n : nat) l,
    NoDup l -> In n l -> g n = [] -> (forall m, In m l -> m <> n -> g' m = g m) ->
    Permutation (flat_map g' l) (flat_map g l ++ g' n).
  Proof.
    intros B g g' n l; induction l as [|x l IH]; intros Hnd Hin Hg Hoth; [destruct Hin|].
    inversion Hnd as [|? ? Hnin Hnd']; subst. cbn [flat_map].
    destruct (Nat.eq_dec x n) as [->|Hne].
    - rewrite Hg. cbn [app].
      replace (flat_map g' l) with (flat_map g l).
      + apply Permutation_app_comm.
      + apply P_Frame.flat_map_ext_in. intros m Hm. symmetry. apply Hoth; [right; exact Hm|].
        intros ->. contradiction.
    - destruct Hin as [->|Hin]; [congruence|].
      rewrite (Hoth x (or_introl eq_refl) Hne). rewrite <- app_assoc. apply Permutation_app_head.
      apply IH; auto. intros m Hm. apply Hoth. right; exact Hm.
  Qed.

  Lemma succ_of_snoc_other : forall L f e g, g <> f -> succ_of (L ++ [mkLE f e true]) g = succ_of L g.
  Proof.
    intros L f e g H. rewrite succ_of_app. destruct (succ_of L g); [reflexivity|].
    cbn. apply Nat.eqb_neq in H. rewrite Nat.eqb_sym, H. reflexivity.
  Qed.

  Lemma succ_of_snoc_same : forall L f e, succ_of L f = None -> succ_of (L ++ [mkLE f e true]) f = Some e.
  Proof. intros L f e H. rewrite succ_of_app, H. cbn. rewrite Nat.eqb_refl. reflexivity. Qed.

  Lemma succ_of_snoc_keep : forall L f e g x, succ_of L g = Some x -> succ_of (L ++ [mkLE f e true]) g = Some x.
  Proof. intros. apply succ_of_app_some. assumption. Qed.

  (* ---------- a constructor has just succeeded ---------- *)
  Lemma CI_commit_ctor : forall st Y r n e lens,
    RegRel st r ->
    NoDup (P_Once.fnsl (st_nodes st) (st_decs st)) ->
    n < length (st_nodes st) ->
    wf_sig2 (c_sig (get_node st n)) = true ->
    NoDup (single_keys (c_sig (get_node st n))) ->
    c_called (get_node st n) = false ->
    succ_of (LGs st) (c_fn (get_node st n)) = None ->
    LGs Y = LGs st ++ [mkLE (c_fn (get_node st n)) e true] ->
    lens_of bt (c_fn (get_node st n)) e = lens ->
    length (st_nodes Y) = length (st_nodes st) -> length (st_decs Y) = length (st_decs st) ->
    (forall m, sctor_of (get_node Y m) = sctor_of (get_node st m)) ->
    c_called (get_node Y n) = true ->
    (forall m, m <> n -> c_called (get_node Y m) = c_called (get_node st m)) ->
    (forall d, get_dec Y d = get_dec st d) ->
    (forall b, b <> c_home (get_node st n) -> P_Once.scaches (get_scope Y b) = P_Once.scaches (get_scope st b)) ->
    P_Once.scaches (get_scope Y (c_home (get_node st n))) =
      P_Once.scaches (commit_results false (c_fn (get_node st n)) e lens 0 (sig_rleaves (c_sig (get_node st n)))
                        (get_scope st (c_home (get_node st n)))) ->
    (forall b, s_providers (get_scope Y b) = s_providers (get_scope st b)) ->
    CI st -> CI Y.
  Proof.
    intros st Y r n e lens HR Hnd Hn Hwf Hsk Hnc Hsucc HL Hlens LN LD HS HcY Hcoth HDec HCoth HChome HProv [V DV G DG DP].
    set (f := c_fn (get_node st n)) in *. set (home := c_home (get_node st n)) in *.
    set (rs := sig_rleaves (c_sig (get_node st n))) in *.
    assert (Fn : forall m, c_fn (get_node Y m) = c_fn (get_node st m)) by (intros m; exact (f_equal sc_fn (HS m))).
    assert (Sg : forall m, c_sig (get_node Y m) = c_sig (get_node st m)) by (intros m; exact (f_equal sc_sig (HS m))).
    assert (Hm : forall m, c_home (get_node Y m) = c_home (get_node st m)) by (intros m; exact (f_equal sc_home (HS m))).
    assert (F1 : forall m, m < length (st_nodes st) -> m <> n -> c_fn (get_node st m) <> f).
    { intros m Hm' Hne E. apply Hne. eapply (P_Once.nodup_nd (st_nodes st) (st_decs st)); eauto. }
    assert (F2 : forall d, d < length (st_decs st) -> d_fn (get_dec st d) <> f).
    { intros d Hd E. symmetry in E. revert E. apply (P_Once.nodup_nd_dd (st_nodes st) (st_decs st)); auto. }
    assert (CASES : forall b, (b <> home /\ P_Once.scaches (get_scope Y b) = P_Once.scaches (get_scope st b)) \/ b = home).
    { intros b. destruct (Nat.eq_dec b home) as [->|Hne]; [right; reflexivity|left; split; [exact Hne|apply HCoth; exact Hne]]. }
    assert (OLDV : forall b k a, alookup key_eqb k (s_values (get_scope st b)) = Some a ->
      exists n0 e0 slot, n0 < length (st_nodes Y) /\ c_home (get_node Y n0) = b /\ c_called (get_node Y n0) = true /\
        succ_of (LGs Y) (c_fn (get_node Y n0)) = Some e0 /\
        slot_of_single k 0 (sig_rleaves (c_sig (get_node Y n0))) = Some slot /\ a = AProd (c_fn (get_node Y n0)) e0 slot 0).
    { intros b k a H. destruct (V b k a H) as (n0 & e0 & slot & Hn0 & Hh & Hc & Hs & Hsl & ->).
      assert (Hne : n0 <> n) by (intros ->; congruence).
      exists n0, e0, slot. rewrite Fn, Sg, Hm, HL, (Hcoth n0 Hne). repeat split; auto; [lia|].
      apply succ_of_snoc_keep. exact Hs. }
    assert (OLDD : forall d e0, d < length (st_decs st) -> succ_of (LGs st) (d_fn (get_dec st d)) = Some e0 ->
       succ_of (LGs Y) (d_fn (get_dec Y d)) = Some e0).
    { intros d e0 Hd Hs. rewrite HDec, HL. apply succ_of_snoc_keep. exact Hs. }
    assert (EDV : forall b, s_dvalues (get_scope Y b) = s_dvalues (get_scope st b)).
    { intros b. destruct (CASES b) as [[_ E]| ->].
      - unfold P_Once.scaches in E. congruence.
      - unfold P_Once.scaches in HChome. transitivity (s_dvalues (commit_results false f e lens 0 rs (get_scope st home))); [congruence|].
        apply commit_results_dvalues. }
    assert (EDG : forall b, s_dgroups (get_scope Y b) = s_dgroups (get_scope st b)).
    { intros b. destruct (CASES b) as [[_ E]| ->].
      - unfold P_Once.scaches in E. congruence.
      - unfold P_Once.scaches in HChome. transitivity (s_dgroups (commit_results false f e lens 0 rs (get_scope st home))); [congruence|].
        apply commit_results_dgroups. }
    constructor.
    - intros b k a H. destruct (CASES b) as [[_ E]| ->].
      + apply OLDV. unfold P_Once.scaches in E. replace (s_values (get_scope st b)) with (s_values (get_scope Y b)) by congruence. exact H.
      + assert (EV : s_values (get_scope Y home) = s_values (commit_results false f e lens 0 rs (get_scope st home)))
          by (unfold P_Once.scaches in HChome; congruence).
        rewrite EV, commit_results_values_spec in H by exact Hsk.
        destruct (slot_of_single k 0 rs) as [s|] eqn:Es; [|apply OLDV; exact H].
        injection H as <-. exists n, e, s. rewrite Fn, Sg, Hm, HL. repeat split; auto; [lia|].
        apply succ_of_snoc_same. exact Hsucc.
    - intros b k a H. rewrite EDV in H. destruct (DV b k a H) as (d & e0 & slot & Hd & Hh & Hc & Hs & Hsl & ->).
      exists d, e0, slot. rewrite (OLDD d e0 Hd Hs), HDec. repeat split; auto. lia.
    - intros b k. unfold providers_at. rewrite HProv. fold (providers_at st b k).
      assert (EXT : forall m, In m (providers_at st b k) -> m <> n ->
                members_of bt (LGs Y) k (node_sctor Y m) = members_of bt (LGs st) k (node_sctor st m)).
      { intros m Hmi Hne. unfold node_sctor. rewrite HS. apply members_of_ext. cbn [sc_fn sctor_of].
        rewrite HL. apply succ_of_snoc_other. apply F1; [|exact Hne].
        eapply providers_at_in_range; eauto. }
      assert (SAME : ~ In n (providers_at st b k) ->
                flat_map (fun m => members_of bt (LGs Y) k (node_sctor Y m)) (providers_at st b k) =
                flat_map (fun m => members_of bt (LGs st) k (node_sctor st m)) (providers_at st b k)).
      { intros Hnin. apply P_Frame.flat_map_ext_in. intros m Hmi. apply EXT; [exact Hmi|]. intros ->. contradiction. }
      destruct (CASES b) as [[Hne E]| ->].
      + replace (s_groups (get_scope Y b)) with (s_groups (get_scope st b)) by (unfold P_Once.scaches in E; congruence).
        rewrite SAME; [apply G|]. intros Hin. apply (RegRel_providers_In st r b k n HR) in Hin. apply Hne. symmetry. apply Hin.
      + assert (EGr : s_groups (get_scope Y home) = s_groups (commit_results false f e lens 0 rs (get_scope st home)))
          by (unfold P_Once.scaches in HChome; congruence).
        rewrite EGr, commit_results_groups_spec.
        2:{ intros ks fl Hq. pose proof (wf_sig2_rleaves _ _ Hwf Hq) as Hr. cbn in Hr.
            apply andb_true_iff in Hr as [_ Hr]. apply nodupb_key_NoDup. exact Hr. }
        destruct (in_dec Nat.eq_dec n (providers_at st home k)) as [Hin|Hnin].
        * eapply Permutation_trans; [apply Permutation_app_tail; apply G|].
          apply Permutation_sym.
          replace (group_members k f e lens 0 rs) with (members_of bt (LGs Y) k (node_sctor Y n)).
          -- apply (flat_map_update_perm _ (fun m => members_of bt (LGs st) k (node_sctor st m))
                      (fun m => members_of bt (LGs Y) k (node_sctor Y m)) n).
             ++ eapply RegRel_providers_NoDup; eauto.
             ++ exact Hin.
             ++ unfold members_of, node_sctor. cbn [sc_fn sctor_of]. fold f. rewrite Hsucc. reflexivity.
             ++ exact EXT.
          -- unfold members_of, node_sctor. rewrite HS. cbn [sc_fn sc_sig sctor_of]. fold f rs.
             rewrite HL, (succ_of_snoc_same _ _ _ Hsucc), Hlens. reflexivity.
        * rewrite SAME by exact Hnin. rewrite group_members_nil; [rewrite app_nil_r; apply G|].
          intros ks fl Hq Hk. apply Hnin. apply (RegRel_providers_In st r home k n HR).
          split; [exact Hn|]. split; [reflexivity|]. unfold sig_keys. apply in_flat_map.
          exists (QGroup ks fl). split; [exact Hq|exact Hk].
    - intros b k l H. rewrite EDG in H. destruct (DG b k l H) as (d & e0 & slot & Hd & Hh & Hc & Hs & Hsl & ->).
      exists d, e0, slot. rewrite (OLDD d e0 Hd Hs), HDec. repeat split; auto. lia.
    - intros d k ks fl Hd Hc Hin. rewrite HDec in *. rewrite EDG. rewrite LD in Hd. eapply DP; eauto.
  Qed.

  (* ---------- a decorator has just succeeded ---------- *)
  Lemma CI_commit_dec : forall st Y r d e lens,
    RegRel st r ->
    NoDup (P_Once.fnsl (st_nodes st) (st_decs st)) ->
    d < length (st_decs st) ->
    wf_dsig2 (d_sig (get_dec st d)) = true ->
    d_state (get_dec st d) <> DCalled ->
    succ_of (LGs st) (d_fn (get_dec st d)) = None ->
    LGs Y = LGs st ++ [mkLE (d_fn (get_dec st d)) e true] ->
    lens_of bt (d_fn (get_dec st d)) e = lens ->
    length (st_nodes Y) = length (st_nodes st) -> length (st_decs Y) = length (st_decs st) ->
    (forall m, get_node Y m = get_node st m) ->
    (forall x, sdec_of (get_dec Y x) = sdec_of (get_dec st x)) ->
    d_state (get_dec Y d) = DCalled ->
    (forall x, x <> d -> d_state (get_dec Y x) = d_state (get_dec st x)) ->
    (forall b, b <> d_home (get_dec st d) -> P_Once.scaches (get_scope Y b) = P_Once.scaches (get_scope st b)) ->
    P_Once.scaches (get_scope Y (d_home (get_dec st d))) =
      P_Once.scaches (commit_decorated false (d_fn (get_dec st d)) e lens 0 (sig_rleaves (d_sig (get_dec st d)))
                        (get_scope st (d_home (get_dec st d)))) ->
    (forall b, s_providers (get_scope Y b) = s_providers (get_scope st b)) ->
    CI st -> CI Y.
  Proof.
    intros st Y r d e lens HR Hnd Hd Hwf Hnc Hsucc HL Hlens LN LD HNode HS HcY Hcoth HCoth HChome HProv [V DV G DG DP].
    set (f := d_fn (get_dec st d)) in *. set (home := d_home (get_dec st d)) in *.
    set (rs := sig_rleaves (d_sig (get_dec st d))) in *.
    assert (Hdk : NoDup (dkeys rs)).
    { unfold wf_dsig2 in Hwf. apply andb_true_iff in Hwf as [_ Hwf]. apply nodupb_key_NoDup. exact Hwf. }
    assert (Fn : forall x, d_fn (get_dec Y x) = d_fn (get_dec st x)) by (intros x; exact (f_equal sd_fn (HS x))).
    assert (Sg : forall x, d_sig (get_dec Y x) = d_sig (get_dec st x)) by (intros x; exact (f_equal sd_sig (HS x))).
    assert (Hm : forall x, d_home (get_dec Y x) = d_home (get_dec st x)) by (intros x; exact (f_equal sd_home (HS x))).
    assert (F1 : forall x, x < length (st_decs st) -> x <> d -> d_fn (get_dec st x) <> f).
    { intros x Hx Hne E. apply Hne. eapply (P_Once.nodup_dd (st_nodes st) (st_decs st)); eauto. }
    assert (F2 : forall m, m < length (st_nodes st) -> c_fn (get_node st m) <> f).
    { intros m Hm'. apply (P_Once.nodup_nd_dd (st_nodes st) (st_decs st)); auto. }
    assert (CASES : forall b, (b <> home /\ P_Once.scaches (get_scope Y b) = P_Once.scaches (get_scope st b)) \/ b = home).
    { intros b. destruct (Nat.eq_dec b home) as [->|Hne]; [right; reflexivity|left; split; [exact Hne|apply HCoth; exact Hne]]. }
    assert (EV : forall b, s_values (get_scope Y b) = s_values (get_scope st b)).
    { intros b. destruct (CASES b) as [[_ E]| ->].
      - unfold P_Once.scaches in E. congruence.
      - unfold P_Once.scaches in HChome. transitivity (s_values (commit_decorated false f e lens 0 rs (get_scope st home))); [congruence|].
        apply commit_decorated_values. }
    assert (EG : forall b, s_groups (get_scope Y b) = s_groups (get_scope st b)).
    { intros b. destruct (CASES b) as [[_ E]| ->].
      - unfold P_Once.scaches in E. congruence.
      - unfold P_Once.scaches in HChome. transitivity (s_groups (commit_decorated false f e lens 0 rs (get_scope st home))); [congruence|].
        apply commit_decorated_groups. }
    assert (EHV : forall k, alookup key_eqb k (s_dvalues (get_scope Y home)) =
                   match dfind k 0 rs with Some (s, true) => Some (AProd f e s 0)
                                      | _ => alookup key_eqb k (s_dvalues (get_scope st home)) end).
    { intros k. replace (s_dvalues (get_scope Y home)) with (s_dvalues (commit_decorated false f e lens 0 rs (get_scope st home)))
        by (unfold P_Once.scaches in HChome; congruence).
      apply commit_decorated_spec. exact Hdk. }
    assert (EHG : forall k, alookup key_eqb k (s_dgroups (get_scope Y home)) =
                   match dfind k 0 rs with Some (s, false) => Some (prod_atoms f e s (nth_len lens s))
                                      | _ => alookup key_eqb k (s_dgroups (get_scope st home)) end).
    { intros k. replace (s_dgroups (get_scope Y home)) with (s_dgroups (commit_decorated false f e lens 0 rs (get_scope st home)))
        by (unfold P_Once.scaches in HChome; congruence).
      apply commit_decorated_spec. exact Hdk. }
    assert (OLDX : forall x, x < length (st_decs st) -> d_state (get_dec st x) = DCalled ->
                     x <> d /\ d_state (get_dec Y x) = DCalled).
    { intros x Hx Hc. assert (x <> d) by (intros ->; congruence). split; [assumption|]. rewrite Hcoth by assumption. exact Hc. }
    constructor.
    - intros b k a H. rewrite EV in H. destruct (V b k a H) as (n0 & e0 & slot & Hn0 & Hh & Hc & Hs & Hsl & ->).
      exists n0, e0, slot. rewrite HNode, HL. repeat split; auto; [lia|]. apply succ_of_snoc_keep. exact Hs.
    - assert (OLD : forall b k a, alookup key_eqb k (s_dvalues (get_scope st b)) = Some a ->
        exists x e0 slot, x < length (st_decs Y) /\ d_home (get_dec Y x) = b /\ d_state (get_dec Y x) = DCalled /\
          succ_of (LGs Y) (d_fn (get_dec Y x)) = Some e0 /\
          dec_slot k 0 (sig_rleaves (d_sig (get_dec Y x))) = Some slot /\ a = AProd (d_fn (get_dec Y x)) e0 slot 0).
      { intros b k a H. destruct (DV b k a H) as (x & e0 & slot & Hx & Hh & Hc & Hs & Hsl & ->).
        destruct (OLDX x Hx Hc) as [Hne HcY'].
        exists x, e0, slot. rewrite Fn, Sg, Hm, HL. repeat split; auto; [lia|]. apply succ_of_snoc_keep. exact Hs. }
      intros b k a H. destruct (CASES b) as [[_ E]| ->].
      + apply OLD. unfold P_Once.scaches in E. replace (s_dvalues (get_scope st b)) with (s_dvalues (get_scope Y b)) by congruence. exact H.
      + rewrite EHV in H. destruct (dfind k 0 rs) as [[s [|]]|] eqn:Ef; try (apply OLD; exact H).
        injection H as <-. exists d, e, s. rewrite Fn, Sg, Hm, HL. repeat split; auto; [lia| |].
        * apply succ_of_snoc_same. exact Hsucc.
        * fold rs. rewrite dec_slot_dfind, Ef. reflexivity.
    - intros b k. unfold providers_at. rewrite HProv. fold (providers_at st b k). rewrite EG.
      eapply Permutation_trans; [apply G|]. apply Permutation_refl'. apply P_Frame.flat_map_ext_in.
      intros m Hmi. unfold node_sctor. rewrite HNode. apply members_of_ext. cbn [sc_fn sctor_of].
      rewrite HL. symmetry. apply succ_of_snoc_other.
      apply F2. eapply providers_at_in_range; eauto.
    - assert (OLD : forall b k l, alookup key_eqb k (s_dgroups (get_scope st b)) = Some l ->
        exists x e0 slot, x < length (st_decs Y) /\ d_home (get_dec Y x) = b /\ d_state (get_dec Y x) = DCalled /\
          succ_of (LGs Y) (d_fn (get_dec Y x)) = Some e0 /\
          dec_slot k 0 (sig_rleaves (d_sig (get_dec Y x))) = Some slot /\
          l = prod_atoms (d_fn (get_dec Y x)) e0 slot (nth_len (lens_of bt (d_fn (get_dec Y x)) e0) slot)).
      { intros b k l H. destruct (DG b k l H) as (x & e0 & slot & Hx & Hh & Hc & Hs & Hsl & ->).
        destruct (OLDX x Hx Hc) as [Hne HcY'].
        exists x, e0, slot. rewrite Fn, Sg, Hm, HL. repeat split; auto; [lia|]. apply succ_of_snoc_keep. exact Hs. }
      intros b k l H. destruct (CASES b) as [[_ E]| ->].
      + apply OLD. unfold P_Once.scaches in E. replace (s_dgroups (get_scope st b)) with (s_dgroups (get_scope Y b)) by congruence. exact H.
      + rewrite EHG in H. destruct (dfind k 0 rs) as [[s [|]]|] eqn:Ef; try (apply OLD; exact H).
        injection H as <-. exists d, e, s. rewrite Fn, Sg, Hm, HL. repeat split; auto; [lia| | |].
        * apply succ_of_snoc_same. exact Hsucc.
        * fold rs. rewrite dec_slot_dfind, Ef. reflexivity.
        * fold f. rewrite Hlens. reflexivity.
    - intros x k ks fl Hx Hc Hin. rewrite Sg in Hin. rewrite Hm. rewrite LD in Hx.
      destruct (Nat.eq_dec x d) as [->|Hne].
      + fold home. rewrite EHG. fold rs in Hin.
        destruct (dfind_group_leaf k ks fl rs 0 Hdk Hin) as [s ->]. discriminate.
      + rewrite Hcoth in Hc by exact Hne. pose proof (DP x k ks fl Hx Hc Hin) as Hold.
        destruct (CASES (d_home (get_dec st x))) as [[_ E]|E].
        * unfold P_Once.scaches in E. replace (s_dgroups (get_scope Y (d_home (get_dec st x)))) with (s_dgroups (get_scope st (d_home (get_dec st x)))) by congruence.
          exact Hold.
        * rewrite E in *. rewrite EHG. destruct (dfind k 0 rs) as [[s [|]]|]; try exact Hold. discriminate.
  Qed.
End Coherence.

(* ---- the world invariant, extension relation, event obligations; combinators *)

(* ================================================================== *)
(* Part 8 : worlds, extensions, event obligations                      *)
(* ================================================================== *)

Definition onstk (st : state) (d : sdec) : Prop :=
  exists x, x < length (st_decs st) /\ sdec_of (get_dec st x) = d /\ d_state (get_dec st x) = DOnStack.

Definition self_ok (st : state) (self : option fnid) : Prop :=
  match self with
  | None => True
  | Some f => exists x, x < length (st_decs st) /\ d_fn (get_dec st x) = f /\ d_state (get_dec st x) = DOnStack
  end.

Definition Ext (st st' : state) : Prop :=
  pres st st' /\ P_Term.TR st st' /\ P_Once.frame st st' /\ P_Once.rel_once st st'.

Lemma Ext_refl : forall st, Ext st st.
Proof.
  intros st. split; [apply pres_refl|]. split; [apply TR_refl|]. split; [apply P_Once.frame_refl|apply P_Once.rel_once_refl].
Qed.

Lemma Ext_trans : forall x y z, Ext x y -> Ext y z -> Ext x z.
Proof.
  intros x y z (A1 & B1 & C1 & D1) (A2 & B2 & C2 & D2).
  split; [eapply pres_trans; eauto|]. split; [eapply TR_trans; eauto|].
  split; [eapply P_Once.frame_trans; eauto|eapply P_Once.rel_once_trans; eauto].
Qed.

Lemma Ext_lens : forall st st', Ext st st' ->
  length (st_nodes st') = length (st_nodes st) /\ length (st_decs st') = length (st_decs st) /\
  length (st_scopes st') = length (st_scopes st).
Proof. intros st st' (A & _). apply pres_lens. exact A. Qed.

Lemma Ext_fields : forall st st', Ext st st' -> skel_fields st' st.
Proof. intros st st' ([E _] & _). apply skel_eq_fields. exact E. Qed.

Lemma Ext_sdec : forall st st' x, Ext st st' -> sdec_of (get_dec st' x) = sdec_of (get_dec st x).
Proof.
  intros st st' x H. apply Ext_fields in H. destruct H. unfold sdec_of. rewrite sf_dfn, sf_dsig, sf_dhome. reflexivity.
Qed.

Lemma Ext_sctor : forall st st' x, Ext st st' -> sctor_of (get_node st' x) = sctor_of (get_node st x).
Proof.
  intros st st' x H. apply Ext_fields in H. destruct H. unfold sctor_of. rewrite sf_cfn, sf_csig, sf_chome, sf_corig. reflexivity.
Qed.

Lemma Ext_log : forall st st', Ext st st' -> exists new, st_log st' = new ++ st_log st.
Proof. intros st st' (_ & _ & C & _). apply P_Once.frame_log. exact C. Qed.

Lemma Ext_succ : forall st st' f e, Ext st st' -> succ_of (LGs st) f = Some e -> succ_of (LGs st') f = Some e.
Proof.
  intros st st' f e H Hs. destruct (Ext_log _ _ H) as [new E]. unfold LGs. rewrite E, LG_app.
  apply succ_of_app_some. exact Hs.
Qed.

Lemma Ext_onstk : forall st st' d, Ext st st' -> onstk st d -> onstk st' d.
Proof.
  intros st st' d H (x & Hx & Hd & Hs). exists x.
  destruct (Ext_lens _ _ H) as (_ & LD & _). split; [lia|]. split; [rewrite (Ext_sdec _ _ x H); exact Hd|].
  destruct H as (_ & (_ & B & _) & _). apply B. exact Hs.
Qed.

Lemma Ext_self_ok : forall st st' self, Ext st st' -> self_ok st self -> self_ok st' self.
Proof.
  intros st st' [f|] H; [|auto]. intros (x & Hx & Hf & Hs). exists x.
  destruct (Ext_lens _ _ H) as (_ & LD & _). split; [lia|].
  split; [rewrite <- Hf; exact (f_equal sd_fn (Ext_sdec _ _ x H))|].
  destruct H as (_ & (_ & B & _) & _). apply B. exact Hs.
Qed.

Lemma Ext_called : forall st st' n, Ext st st' -> c_called (get_node st n) = true -> c_called (get_node st' n) = true.
Proof. intros st st' n (_ & (_ & _ & C) & _). apply C. Qed.

Lemma Ext_dcalled : forall st st' d, Ext st st' -> d_state (get_dec st d) = DCalled -> d_state (get_dec st' d) = DCalled.
Proof. intros st st' d (_ & _ & _ & (_ & _ & C & _)). apply C. Qed.

Lemma Ext_donstack : forall st st' d, Ext st st' -> (d_state (get_dec st' d) = DOnStack <-> d_state (get_dec st d) = DOnStack).
Proof. intros st st' d (_ & (_ & B & _) & _). apply B. Qed.

Lemma Ext_path : forall st st' v, Ext st st' -> path st' v = path st v.
Proof.
  intros st st' v H. pose proof (Ext_fields _ _ H) as F. destruct F.
  unfold path. rewrite sf_len. apply P_Frame.path_fuel_parents. intros a. apply sf_parent.
Qed.

Lemma Ext_decorators : forall st st' b, Ext st st' -> s_decorators (get_scope st' b) = s_decorators (get_scope st b).
Proof. intros st st' b H. apply Ext_fields in H. destruct H. apply sf_decorators. Qed.

Lemma Ext_providers_at : forall st st' b k, Ext st st' -> providers_at st' b k = providers_at st b k.
Proof. intros st st' b k H. apply Ext_fields in H. destruct H. unfold providers_at. rewrite sf_providers. reflexivity. Qed.

Lemma Ext_providers_on_path : forall st st' v k, Ext st st' -> providers_on_path st' v k = providers_on_path st v k.
Proof.
  intros st st' v k H. unfold providers_on_path. rewrite (Ext_path _ _ v H).
  apply flat_map_ext. intros b. apply Ext_providers_at. exact H.
Qed.

Fixpoint evs_all (Q : list event -> event -> Prop) (new old : list event) : Prop :=
  match new with
  | [] => True
  | ev :: t => Q (t ++ old) ev /\ evs_all Q t old
  end.

Lemma evs_all_app : forall Q n2 n1 old,
  evs_all Q (n2 ++ n1) old <-> evs_all Q n2 (n1 ++ old) /\ evs_all Q n1 old.
Proof.
  intros Q n2; induction n2 as [|ev t IH]; intros n1 old; cbn [app evs_all]; [tauto|].
  rewrite IH, <- app_assoc. tauto.
Qed.

Section World.
  Variable bt : list (fnid * list outcome).
  Variable r : registry.
  Variable log0 : list event.
  Variable NO : bool.
  Variable ND : bool.

  Definition sfx (st : state) : Prop := exists new, st_log st = new ++ log0.

  Record Wld (st : state) : Prop := mkWld {
    w_G : P_Term.G st;
    w_R : RegRel st r;
    w_refs : P_Once.refs_ok st;
    w_once : P_Once.inv_once st;
    w_SI : SI NO st;
    w_UI : UI st;
    w_CI : CI bt st;
    w_sfx : sfx st;
    w_nodec : ND = true -> st_decs st = [];
    w_D : ND = true -> forall n, n < length (st_nodes st) ->
            RDoomed r (LG log0) (node_sctor st n) -> c_called (get_node st n) = false;
    w_ND : ND = is_nil (r_decs r)
  }.

  Definition LPs (st : state) (self : option fnid) (v : sid) (l : pleaf) (x : arg) : Prop :=
    LPk bt r (LG log0) ND (LGs st) (onstk st) self v l x.

  Lemma LPs_Ext : forall st st' self v l x, Ext st st' -> LPs st self v l x -> LPs st' self v l x.
  Proof.
    intros st st' self v l x H. unfold LPs. apply LPk_mono.
    - intros f e. apply Ext_succ. exact H.
    - intros d. apply Ext_onstk. exact H.
  Qed.

  Definition dummy_op : op := OScope 0.

  Definition EvOK (lb : list event) (ev : event) : Prop :=
    match ev with
    | EExec f e rl args o =>
        rl <> RoleInv /\
        forall c, In c (chk_exec_event bt r (LG log0) dummy_op (LG lb) ev) -> Allowed NO ND c
    | ECallback _ _ _ => True
    end.

  Definition NewOK (st st' : state) : Prop :=
    exists new, st_log st' = new ++ st_log st /\ evs_all EvOK new (st_log st).

  Lemma NewOK_refl : forall st, NewOK st st.
  Proof. intros st. exists []. split; [reflexivity|exact I]. Qed.

  Lemma NewOK_eqlog : forall st st', st_log st' = st_log st -> NewOK st st'.
  Proof. intros st st' E. exists []. split; [exact E|exact I]. Qed.

  Lemma NewOK_trans : forall x y z, NewOK x y -> NewOK y z -> NewOK x z.
  Proof.
    intros x y z (n1 & E1 & A1) (n2 & E2 & A2). exists (n2 ++ n1).
    split; [rewrite E2, E1, app_assoc; reflexivity|].
    apply evs_all_app. rewrite E1 in A2. split; assumption.
  Qed.

  Lemma NewOK_eqlog_r : forall x y z, NewOK x y -> st_log z = st_log y -> NewOK x z.
  Proof. intros x y z (n1 & E1 & A1) E. exists n1. split; [congruence|exact A1]. Qed.

  Lemma NewOK_eqlog_l : forall x y z, st_log y = st_log x -> NewOK y z -> NewOK x z.
  Proof. intros x y z E (n1 & E1 & A1). exists n1. rewrite <- E. split; assumption. Qed.

  (* a DOnStack decorator has no successful execution *)
  Lemma onstk_nosucc : forall st d, P_Once.inv_once st -> onstk st d -> succ_of (LGs st) (sd_fn d) = None.
  Proof.
    intros st d (_ & _ & C & _) (x & Hx & <- & Hs). apply succ_of_none_succb. cbn [sd_fn sdec_of].
    specialize (C x Hx). unfold P_Once.dd in C. fold (get_dec st x) in C.
    destruct (P_Once.succb (d_fn (get_dec st x)) (st_log st)); [|reflexivity].
    assert (d_state (get_dec st x) = DCalled) by (apply C; reflexivity). congruence.
  Qed.

  Lemma Wld_TInv : forall st, Wld st -> TInv st.
  Proof. intros st H. destruct (w_G st H) as ((HT & _) & _). exact HT. Qed.

  Lemma Wld_SInv : forall st, Wld st -> SInv st.
  Proof. intros st H. destruct (w_G st H) as (HS & _). exact HS. Qed.

  Lemma Wld_nodup : forall st, Wld st -> NoDup (P_Once.fnsl (st_nodes st) (st_decs st)).
  Proof. intros st H. destruct (w_once st H) as (A & _). exact A. Qed.

  Lemma sfx_Ext : forall st st', Ext st st' -> sfx st -> sfx st'.
  Proof.
    intros st st' H [new E]. destruct (Ext_log _ _ H) as [new' E']. exists (new' ++ new).
    rewrite E', E, app_assoc. reflexivity.
  Qed.

  (* L0 is a prefix of every log of the operation *)
  Lemma sfx_succ : forall st f e, sfx st -> succ_of (LG log0) f = Some e -> succ_of (LGs st) f = Some e.
  Proof.
    intros st f e [new E] H. unfold LGs. rewrite E, LG_app. apply succ_of_app_some. exact H.
  Qed.

  (* called <-> has a success *)
  Lemma called_succ : forall st n, P_Once.inv_once st -> n < length (st_nodes st) ->
    (c_called (get_node st n) = true <-> succ_of (LGs st) (c_fn (get_node st n)) <> None).
  Proof.
    intros st n (_ & B & _) Hn. unfold LGs. rewrite succ_of_succb. apply (B n Hn).
  Qed.

  Lemma dcalled_succ : forall st d, P_Once.inv_once st -> d < length (st_decs st) ->
    (d_state (get_dec st d) = DCalled <-> succ_of (LGs st) (d_fn (get_dec st d)) <> None).
  Proof.
    intros st d (_ & _ & C & _) Hd. unfold LGs. rewrite succ_of_succb. apply (C d Hd).
  Qed.
End World.

(* ---- bridges used by the leaf lemmas *)

Definition Cself (self : option fnid) (d : sdec) : bool :=
  negb (option_eqb Nat.eqb (Some (sd_fn d)) self).

Lemma filter_flat_map : forall (A B : Type) (p : B -> bool) (f : A -> list B) l,
  filter p (flat_map f l) = flat_map (fun x => filter p (f x)) l.
Proof.
  intros A B p f l; induction l as [|x l IH]; cbn; [reflexivity|]. rewrite filter_app, IH. reflexivity.
Qed.

(* decorators_on_path with a self-exclusion = the unrestricted list, filtered *)
Lemma dop_filter : forall r v k self,
  decorators_on_path r v k self = filter (Cself self) (decorators_on_path r v k None).
Proof.
  intros r v k self. unfold decorators_on_path. rewrite filter_flat_map. apply flat_map_ext. intros b.
  rewrite <- filter_filter_andb. apply filter_ext. intros d. unfold Cself. cbn [option_eqb negb].
  rewrite andb_true_r. reflexivity.
Qed.

Lemma dop_self : forall st r v k self, RegRel st r ->
  decorators_on_path r v k self =
  map (node_sdec st) (filter (fun x => Cself self (node_sdec st x)) (decs_on_path st v k)).
Proof.
  intros st r v k self HR. rewrite dop_filter, (decorators_on_path_reg st r v k HR).
  symmetry. apply map_filter_comm.
Qed.

Lemma filter_head : forall (A : Type) (p : A -> bool) l h t,
  filter p l = h :: t ->
  exists pre post, l = pre ++ h :: post /\ (forall y, In y pre -> p y = false) /\ p h = true.
Proof.
  intros A p l; induction l as [|x l IH]; intros h t H; cbn in H; [discriminate|].
  destruct (p x) eqn:E.
  - injection H as -> _. exists [], l. split; [reflexivity|]. split; [intros y []|exact E].
  - destruct (IH _ _ H) as (pre & post & -> & Hp & Hh). exists (x :: pre), post.
    split; [reflexivity|]. split; [|exact Hh]. intros y [<-|Hy]; [exact E|apply Hp; exact Hy].
Qed.

Lemma filter_nil_inv : forall (A : Type) (p : A -> bool) l, filter p l = [] -> forall y, In y l -> p y = false.
Proof.
  intros A p l; induction l as [|x l IH]; intros H y Hy; [destruct Hy|]. cbn in H.
  destruct (p x) eqn:E; [discriminate|]. destruct Hy as [<-|Hy]; [exact E|apply IH; assumption].
Qed.

(* splitting a flat_map of at-most-singletons at an element *)
Lemma flat_map_split1 : forall (A B : Type) (F : A -> list B) l pre x post,
  (forall a, length (F a) <= 1) ->
  flat_map F l = pre ++ x :: post ->
  exists p1 bx p2, l = p1 ++ bx :: p2 /\ flat_map F p1 = pre /\ F bx = [x] /\ flat_map F p2 = post.
Proof.
  intros A B F l; induction l as [|a l IH]; intros pre x post H1 H; cbn in H.
  - destruct pre; discriminate.
  - specialize (H1 a) as Ha. destruct (F a) as [|y [|z t]] eqn:E; cbn in Ha; [| |lia].
    + cbn in H. destruct (IH pre x post H1 H) as (p1 & bx & p2 & -> & A1 & A2 & A3).
      exists (a :: p1), bx, p2. split; [reflexivity|]. cbn. rewrite E. cbn. auto.
    + cbn in H. destruct pre as [|y' pre'].
      * cbn in H. injection H as -> H. exists [], a, l. split; [reflexivity|]. cbn. auto.
      * cbn in H. injection H as -> H. destruct (IH pre' x post H1 H) as (p1 & bx & p2 & -> & A1 & A2 & A3).
        exists (a :: p1), bx, p2. split; [reflexivity|]. cbn. rewrite E. cbn. rewrite A1. auto.
Qed.

Lemma opt_list_len : forall (A : Type) (o : option A), length (opt_list o) <= 1.
Proof. intros A [x|]; cbn; lia. Qed.

(* ---------- find_provider, with cached values ---------- *)

Lemma find_provider_spec : forall st k bs,
  match find_provider st bs k with
  | PVal a => exists pre b post, bs = pre ++ b :: post /\
       (forall b', In b' pre -> alookup key_eqb k (s_values (get_scope st b')) = None /\ providers_at st b' k = []) /\
       alookup key_eqb k (s_values (get_scope st b)) = Some a
  | PProv b ns => exists pre post, bs = pre ++ b :: post /\
       (forall b', In b' pre -> alookup key_eqb k (s_values (get_scope st b')) = None /\ providers_at st b' k = []) /\
       alookup key_eqb k (s_values (get_scope st b)) = None /\ ns = providers_at st b k /\ ns <> []
  | PNone => True
  end.
Proof.
  intros st k bs; induction bs as [|b t IH]; cbn [find_provider]; [exact I|].
  destruct (alookup key_eqb k (s_values (get_scope st b))) as [a|] eqn:Ev.
  - exists [], b, t. split; [reflexivity|]. split; [intros b' []|exact Ev].
  - destruct (providers_at st b k) as [|n ns] eqn:Ep.
    + destruct (find_provider st t k) as [a|b0 ns0|].
      * destruct IH as (pre & b1 & post & -> & Hp & Hv). exists (b :: pre), b1, post.
        split; [reflexivity|]. split; [|exact Hv]. intros b' [<-|Hb']; [split; assumption|apply Hp; exact Hb'].
      * destruct IH as (pre & post & -> & Hp & Hv & Hns & Hne). exists (b :: pre), post.
        split; [reflexivity|]. split; [|auto]. intros b' [<-|Hb']; [split; assumption|apply Hp; exact Hb'].
      * exact I.
    + exists [], t. split; [reflexivity|]. split; [intros b' []|]. split; [exact Ev|]. split; [symmetry; exact Ep|discriminate].
Qed.

Lemma nearest_provider_at : forall st r v k pre b post n ns,
  RegRel st r -> single_only r k ->
  path st v = pre ++ b :: post ->
  (forall b', In b' pre -> providers_at st b' k = []) ->
  providers_at st b k = n :: ns ->
  nearest_provider r v k = Some (node_sctor st n).
Proof.
  intros st r v k pre b post n ns HR Hk Hpath Hpre Hb.
  unfold nearest_provider. rewrite <- (path_spath st r v HR), Hpath.
  rewrite find_map_app_none.
  - cbn [find_map]. rewrite (RegRel_providers_in st r b k HR Hk), Hb. reflexivity.
  - intros b' Hb'. rewrite (RegRel_providers_in st r b' k HR Hk), (Hpre b' Hb'). reflexivity.
Qed.

(* ---------- decorator keys ---------- *)

Lemma dkeys_group_leaf : forall rs k, forallb rleaf_ok2 rs = true -> In k (dkeys rs) -> k_group k <> 0 ->
  exists ks fl, In (QGroup (k :: ks) fl) rs.
Proof.
  intros rs k Hok Hin Hk. unfold dkeys in Hin. apply in_flat_map in Hin as (q & Hq & Hkq).
  rewrite forallb_forall in Hok. specialize (Hok q Hq).
  destruct q as [[|k0 ks0]|[|k0 ks0] fl]; cbn in Hkq; try destruct Hkq as [<-|[]]; try destruct Hkq.
  - exfalso. cbn in Hok. apply andb_true_iff in Hok as [Hok _]. apply Nat.eqb_eq in Hok. contradiction.
  - exists ks0, fl. exact Hq.
Qed.

Lemma dec_slot_In : forall k rs s, dec_slot k 0 rs = Some s -> In k (dkeys rs).
Proof.
  intros k rs s H. rewrite dec_slot_dfind in H. destruct (dfind k 0 rs) as [[s' x]|] eqn:E; [|discriminate].
  eapply dfind_In; eauto.
Qed.

(* the decorator of k registered in scope b is unique *)
Lemma dec_lookup_unique : forall st r b k d s, RegRel st r ->
  d < length (st_decs st) -> d_home (get_dec st d) = b ->
  dec_slot k 0 (sig_rleaves (d_sig (get_dec st d))) = Some s ->
  alookup key_eqb k (s_decorators (get_scope st b)) = Some d.
Proof.
  intros st r b k d s HR Hd Hh Hs. apply (rr_decorators HR). split; [exact Hd|]. split; [exact Hh|].
  apply memb_key_In. rewrite dec_keys_dkeys. eapply dec_slot_In; eauto.
Qed.

(* fn identifies the decorator *)
Lemma dec_fn_inj : forall st x y, NoDup (P_Once.fnsl (st_nodes st) (st_decs st)) ->
  x < length (st_decs st) -> y < length (st_decs st) ->
  d_fn (get_dec st x) = d_fn (get_dec st y) -> x = y.
Proof. intros st x y H Hx Hy E. eapply (P_Once.nodup_dd (st_nodes st) (st_decs st)); eauto. Qed.

(* find among the registry's constructors / decorators by fn *)
Lemma find_ctor_reg : forall st r n, RegRel st r -> NoDup (P_Once.fnsl (st_nodes st) (st_decs st)) ->
  n < length (st_nodes st) ->
  find (fun c => Nat.eqb (sc_fn c) (c_fn (get_node st n))) (r_ctors r) = Some (sctor_of (get_node st n)).
Proof.
  intros st r n HR Hnd Hn. rewrite (rr_ctors HR).
  replace (sctor_of (get_node st n)) with (nth n (map sctor_of (st_nodes st)) (sctor_of dummy_cnode))
    by (rewrite map_nth; reflexivity).
  apply find_unique.
  - rewrite map_length. exact Hn.
  - rewrite map_nth. cbn. apply Nat.eqb_refl.
  - intros j Hj Hp. rewrite map_length in Hj. rewrite map_nth in Hp. cbn in Hp. apply Nat.eqb_eq in Hp.
    eapply (P_Once.nodup_nd (st_nodes st) (st_decs st)); eauto.
Qed.

Lemma find_dec_reg : forall st r d, RegRel st r -> NoDup (P_Once.fnsl (st_nodes st) (st_decs st)) ->
  d < length (st_decs st) ->
  find (fun c => Nat.eqb (sd_fn c) (d_fn (get_dec st d))) (r_decs r) = Some (sdec_of (get_dec st d)).
Proof.
  intros st r d HR Hnd Hd. rewrite (rr_decs HR).
  replace (sdec_of (get_dec st d)) with (nth d (map sdec_of (st_decs st)) (sdec_of dummy_dnode))
    by (rewrite map_nth; reflexivity).
  apply find_unique.
  - rewrite map_length. exact Hd.
  - rewrite map_nth. cbn. apply Nat.eqb_refl.
  - intros j Hj Hp. rewrite map_length in Hj. rewrite map_nth in Hp. cbn in Hp. apply Nat.eqb_eq in Hp.
    eapply (P_Once.nodup_dd (st_nodes st) (st_decs st)); eauto.
Qed.

(* ================================================================== *)
(* CI under the administrative state changes                            *)
(* ================================================================== *)

Section CIAdmin.
  Variable bt : list (fnid * list outcome).

  Lemma CI_same' : forall st st',
    (forall b k n, In n (providers_at st b k) -> n < length (st_nodes st)) ->
    (forall b, P_Once.scaches (get_scope st' b) = P_Once.scaches (get_scope st b)) ->
    length (st_nodes st') = length (st_nodes st) -> length (st_decs st') = length (st_decs st) ->
    (forall n, sctor_of (get_node st' n) = sctor_of (get_node st n) /\
               c_called (get_node st' n) = c_called (get_node st n)) ->
    (forall d, sdec_of (get_dec st' d) = sdec_of (get_dec st d) /\
               (d_state (get_dec st' d) = DCalled <-> d_state (get_dec st d) = DCalled)) ->
    (forall b, s_providers (get_scope st' b) = s_providers (get_scope st b)) ->
    (forall g, In g (P_Once.fnsl (st_nodes st) (st_decs st)) -> succ_of (LGs st') g = succ_of (LGs st) g) ->
    CI bt st -> CI bt st'.
  Proof.
    intros st st' HR HC LN LD HN HD HP HS. apply CI_gen.
    - exact HC.
    - lia.
    - lia.
    - intros n Hn. destruct (HN n) as [A B]. split; [exact A|]. split; [exact B|].
      apply HS. apply P_Once.fns_nd_in. exact Hn.
    - intros b k n Hin Hn. exfalso. unfold providers_at in Hin. rewrite HP in Hin. apply (HR b k n) in Hin. lia.
    - intros d Hd. destruct (HD d) as [A B]. split; [exact A|]. split; [exact B|].
      apply HS. apply P_Once.fns_dd_in. exact Hd.
    - intros d Hd Hd'. exfalso. lia.
    - intros b k. exists []. rewrite app_nil_r. split; [|intros n []]. unfold providers_at. rewrite HP. reflexivity.
    - exact HR.
  Qed.

  Lemma CI_same : forall st st' r,
    RegRel st r ->
    (forall b, P_Once.scaches (get_scope st' b) = P_Once.scaches (get_scope st b)) ->
    length (st_nodes st') = length (st_nodes st) -> length (st_decs st') = length (st_decs st) ->
    (forall n, sctor_of (get_node st' n) = sctor_of (get_node st n) /\
               c_called (get_node st' n) = c_called (get_node st n)) ->
    (forall d, sdec_of (get_dec st' d) = sdec_of (get_dec st d) /\
               (d_state (get_dec st' d) = DCalled <-> d_state (get_dec st d) = DCalled)) ->
    (forall b, s_providers (get_scope st' b) = s_providers (get_scope st b)) ->
    (forall g, succ_of (LGs st') g = succ_of (LGs st) g) ->
    CI bt st -> CI bt st'.
  Proof.
    intros st st' r HR HC LN LD HN HD HP HS. apply CI_same'; auto.
    intros b k n Hn. eapply providers_at_in_range; eauto.
  Qed.

  Lemma sctor_set_onstack : forall st n x m, sctor_of (get_node (set_onstack st n x) m) = sctor_of (get_node st m).
  Proof. intros. apply (node_field_upd sctor_of). reflexivity. Qed.

  Lemma sctor_set_called : forall st n m, sctor_of (get_node (set_called st n) m) = sctor_of (get_node st m).
  Proof. intros. apply (node_field_upd sctor_of). reflexivity. Qed.

  Lemma dec_field_upd : forall (X : Type) (fld : dnode -> X) st d f m,
    (forall c, fld (f c) = fld c) -> fld (get_dec (upd_dec st d f) m) = fld (get_dec st m).
  Proof.
    intros X fld st d f m H. destruct (Nat.eq_dec d m) as [<-|Hne].
    - destruct (Nat.lt_ge_cases d (length (st_decs st))) as [Hlt|Hge].
      + rewrite P_Once.get_dec_upd_same by exact Hlt. apply H.
      + rewrite P_Once.upd_dec_oob by exact Hge. reflexivity.
    - rewrite P_Once.get_dec_upd_other by exact Hne. reflexivity.
  Qed.

  Lemma sdec_set_dstate : forall st d x m, sdec_of (get_dec (set_dstate st d x) m) = sdec_of (get_dec st m).
  Proof. intros. apply (dec_field_upd _ sdec_of). reflexivity. Qed.

  Lemma CI_set_onstack : forall st r n x, RegRel st r -> CI bt st -> CI bt (set_onstack st n x).
  Proof.
    intros st r n x HR. apply (CI_same st _ r HR); try reflexivity.
    - apply P_Once.nodes_len_upd_node.
    - intros m. split; [apply sctor_set_onstack|apply called_set_onstack].
    - intros d. split; [reflexivity|tauto].
  Qed.

  Lemma CI_set_dstate : forall st r d x, RegRel st r -> x <> DCalled -> d_state (get_dec st d) <> DCalled ->
    CI bt st -> CI bt (set_dstate st d x).
  Proof.
    intros st r d x HR Hx Hd. apply (CI_same st _ r HR); try reflexivity.
    - apply P_Once.decs_len_upd_dec.
    - intros m. split; reflexivity.
    - intros m. split; [apply sdec_set_dstate|].
      destruct (Nat.eq_dec m d) as [->|Hne].
      + destruct (Nat.lt_ge_cases d (length (st_decs st))) as [Hlt|Hge].
        * rewrite dstate_set_same by exact Hlt. split; intros H; congruence.
        * unfold set_dstate. rewrite P_Once.upd_dec_oob by exact Hge. tauto.
      + rewrite dstate_set_other by exact Hne. tauto.
  Qed.

  Lemma CI_deq : forall st st' r, RegRel st r -> deq st st' ->
    (forall g, succ_of (LGs st') g = succ_of (LGs st) g) -> CI bt st -> CI bt st'.
  Proof.
    intros st st' r HR D HS. pose proof D as (ES & EN & ED).
    apply (CI_same st _ r HR); auto.
    - intros b. rewrite (deq_scope b D). reflexivity.
    - rewrite EN. reflexivity.
    - rewrite ED. reflexivity.
    - intros n. rewrite (deq_node n D). split; reflexivity.
    - intros d. rewrite (deq_dec d D). split; [reflexivity|tauto].
    - intros b. rewrite (deq_scope b D). reflexivity.
  Qed.
  Lemma CI_deq' : forall st st',
    (forall b k n, In n (providers_at st b k) -> n < length (st_nodes st)) -> deq st st' ->
    (forall g, In g (P_Once.fnsl (st_nodes st) (st_decs st)) -> succ_of (LGs st') g = succ_of (LGs st) g) ->
    CI bt st -> CI bt st'.
  Proof.
    intros st st' HR D HS. pose proof D as (ES & EN & ED).
    apply (CI_same' st _ HR); auto.
    - intros b. rewrite (deq_scope b D). reflexivity.
    - rewrite EN. reflexivity.
    - rewrite ED. reflexivity.
    - intros n. rewrite (deq_node n D). split; reflexivity.
    - intros d. rewrite (deq_dec d D). split; [reflexivity|tauto].
    - intros b. rewrite (deq_scope b D). reflexivity.
  Qed.
End CIAdmin.

(* logs after an execution and its optional callback *)
Lemma LG_cb_opt : forall (has : bool) f c t l, LG ((if has then [ECallback f c t] else []) ++ l) = LG l.
Proof. intros [|] f c t l; cbn [app]; [rewrite LG_cons; cbn; apply app_nil_r|reflexivity]. Qed.

Lemma LG_exec_ok : forall f e rl args lens l, LG (EExec f e rl args (OOk lens) :: l) = LG l ++ [mkLE f e true].
Proof. intros. rewrite LG_cons. reflexivity. Qed.

Lemma succ_of_exec_fail : forall f e rl args o l g, (forall lens, o <> OOk lens) ->
  succ_of (LG (EExec f e rl args o :: l)) g = succ_of (LG l) g.
Proof.
  intros f e rl args o l g H. rewrite LG_cons, succ_of_app. destruct (succ_of (LG l) g); [reflexivity|].
  destruct o as [lens| |]; [exfalso; eapply H; reflexivity| |]; cbn; rewrite andb_false_r; reflexivity.
Qed.

Lemma noopt_leaves : forall sg l, noopt_sig sg = true -> In l (sig_leaves sg) -> is_opt_leaf l = false.
Proof.
  intros sg l H Hl. unfold noopt_sig in H. apply negb_true_iff in H.
  destruct (is_opt_leaf l) eqn:E; [|reflexivity].
  exfalso. assert (existsb is_opt_leaf (sig_leaves sg) = true) by (apply existsb_exists; eauto). congruence.
Qed.

Lemma succ_of_exec_other : forall f e rl args o l g, g <> f ->
  succ_of (LG (EExec f e rl args o :: l)) g = succ_of (LG l) g.
Proof.
  intros f e rl args o l g H. rewrite LG_cons, succ_of_app. destruct (succ_of (LG l) g); [reflexivity|].
  apply Nat.eqb_neq in H. rewrite Nat.eqb_sym in H.
  destruct o as [lens| |]; cbn; rewrite H; reflexivity.
Qed.

(* ---------- no provider at all ---------- *)

Lemma find_provider_none : forall st k bs, find_provider st bs k = PNone ->
  forall b, In b bs -> providers_at st b k = [].
Proof.
  intros st k bs; induction bs as [|b0 t IH]; intros H b Hb; [destruct Hb|]. cbn [find_provider] in H.
  destruct (alookup key_eqb k (s_values (get_scope st b0))); [discriminate|].
  destruct (providers_at st b0 k) as [|n ns] eqn:E; [|discriminate].
  destruct Hb as [<-|Hb]; [exact E|apply IH; assumption].
Qed.

Lemma nearest_provider_none : forall st r v k, RegRel st r -> single_only r k ->
  (forall b, In b (path st v) -> providers_at st b k = []) -> nearest_provider r v k = None.
Proof.
  intros st r v k HR Hk H. unfold nearest_provider. rewrite <- (path_spath st r v HR).
  apply find_map_none_all. intros b Hb. rewrite (RegRel_providers_in st r b k HR Hk), (H b Hb). reflexivity.
Qed.

Lemma providers_on_path_nil : forall st v k, providers_on_path st v k = [] ->
  forall b, In b (path st v) -> providers_at st b k = [].
Proof. intros st v k H b Hb. unfold providers_on_path in H. eapply flat_map_nil_inv in H; eauto. Qed.

Lemma shallow_missing_In : forall st v ls k, In k (shallow_missing st v ls) ->
  In (LSingle k false) ls /\ providers_on_path st v k = [].
Proof.
  intros st v ls k H. unfold shallow_missing in H. apply in_flat_map in H as (l & Hl & Hk).
  destruct l as [k' [|]|k' s]; try destruct Hk.
  destruct (has_provider st v k' || is_some (alookup key_eqb k' (s_dvalues (get_scope st v)))) eqn:E; [destruct Hk|].
  destruct Hk as [<-|[]]. split; [exact Hl|].
  apply orb_false_iff in E as [E _]. unfold has_provider in E. apply negb_false_iff in E.
  destruct (providers_on_path st v k'); [reflexivity|discriminate].
Qed.

Lemma build_seq_In : forall sg l, In l (sig_build_seq sg) <-> In l (sig_leaves sg).
Proof.
  intros sg l. unfold sig_build_seq. pose proof (sig_order_perm sg) as HP. split.
  - intros H. apply in_map_iff in H as (i & <- & Hi).
    apply (Permutation_in _ HP) in Hi. apply in_seq in Hi. apply nth_In. lia.
  - intros H. apply (In_nth _ _ dummy_leaf) in H as (i & Hi & <-). apply in_map_iff. exists i. split; [reflexivity|].
    apply (Permutation_in _ (Permutation_sym HP)). apply in_seq. lia.
Qed.


(* ---- the evaluator, one level *)

Definition tpre2 (t : task) (st : state) : Prop :=
  match t with
  | TLeaf _ l => pleaf_ok2 l = true
  | TLeaves _ ls => forallb pleaf_ok2 ls = true
  | TCallCtor n => n < length (st_nodes st)
  | TCallDec d => d < length (st_decs st) /\ d_state (get_dec st d) <> DOnStack
  end.

Lemma pleaf_ok2_leaf_ok : forall l, pleaf_ok2 l = true -> leaf_ok l = true.
Proof. intros [k o|k s] H; [exact H|reflexivity]. Qed.

Lemma tpre2_tpre : forall t st, tpre2 t st -> P_Term.tpre t st.
Proof.
  intros [v l|v ls|n|d] st H; cbn in *; auto.
  - apply pleaf_ok2_leaf_ok. exact H.
  - rewrite forallb_forall in *. intros l Hl. apply pleaf_ok2_leaf_ok. apply H. exact Hl.
Qed.

Lemma tpre2_pre : forall t st, tpre2 t st -> P_Once.pre t st.
Proof. intros [v l|v ls|n|d] st H; cbn in *; auto. Qed.

Section EvalLevel.
  Variable cfg : config.
  Variable bt : list (fnid * list outcome).
  Variable du : dur.
  Hypothesis Hdry : cfg_dry cfg = false.
  Variable r : registry.
  Variable log0 : list event.
  Variable NO : bool.
  Variable ND : bool.

  Let b : beh := beh_of bt.

  Definition Post (t : task) (st : state) (o : out) : Prop :=
    match fst o, t with
    | Done args, TLeaf v l => exists x, args = [x] /\ forall self, self_ok st self -> LPs bt r log0 ND (snd o) self v l x
    | Done args, TLeaves v ls => forall self, self_ok st self -> Forall2 (LPs bt r log0 ND (snd o) self v) ls args
    | _, _ => True
    end.

  (* a task that cannot succeed in this operation (decorator-free registries) *)
  Definition bad (t : task) (st : state) : Prop :=
    match t with
    | TLeaf v l => leaf_bad r (LG log0) v l
    | TLeaves v ls => exists l, In l ls /\ leaf_bad r (LG log0) v l
    | TCallCtor n => RDoomed r (LG log0) (node_sctor st n)
    | TCallDec _ => False
    end.

  Definition DInv (st : state) : Prop :=
    ND = true -> forall n, n < length (st_nodes st) ->
      RDoomed r (LG log0) (node_sctor st n) -> c_called (get_node st n) = false.

  Definition CD (st : state) : Prop := CI bt st /\ DInv st.

  Definition MyP (t : task) (st : state) (o : out) : Prop :=
    Wld bt r log0 NO ND st -> tpre2 t st ->
    CD (snd o) /\ NewOK bt r log0 NO ND st (snd o) /\ Post t st o /\
    (ND = true -> bad t st -> forall x, fst o <> Done x) /\
    (ND = true -> forall e, fst o = Fail e -> has_missingdeps e = true -> bad t st).

  Variable fuel : nat.
  Let rec : task -> state -> out := eval cfg b du fuel.
  Hypothesis IH : forall t st, MyP t st (rec t st).

  Notation W := (Wld bt r log0 NO ND).
  Notation NOK := (NewOK bt r log0 NO ND).
  Notation L0 := (LG log0).

  Lemma W_CD : forall st, W st -> CD st.
  Proof. intros st HW. split; [apply (w_CI _ _ _ _ _ _ HW)|exact (w_D _ _ _ _ _ _ HW)]. Qed.

  (* everything a recursive call gives *)
  Lemma W_rec : forall t st, W st -> tpre2 t st ->
    W (snd (rec t st)) /\ Ext st (snd (rec t st)) /\ NOK st (snd (rec t st)) /\
    P_Term.tpost t (fst (rec t st)) (snd (rec t st)) /\ Post t st (rec t st) /\
    (ND = true -> bad t st -> forall x, fst (rec t st) <> Done x) /\
    (ND = true -> forall e, fst (rec t st) = Fail e -> has_missingdeps e = true -> bad t st).
  Proof.
    intros t st HW Hp. destruct (IH t st HW Hp) as ((HC & HDI) & HN & HPo & HB1 & HB2).
    destruct HW as [HG HR Hrefs Honce HSI HUI HCI Hsfx Hnd HD HNDr].
    destruct (eval_PT cfg b du fuel t st) as [Hpres HPT]. fold rec in Hpres, HPT.
    destruct (HPT (tpre2_tpre _ _ Hp) HG) as (HG' & HTR & Hpost).
    pose proof (P_Once.eval_frame cfg b du fuel t st) as Hfr. fold rec in Hfr.
    destruct (P_Once.eval_once cfg b du Hdry fuel t st Hrefs (tpre2_pre _ _ Hp) Honce) as [Honce' Hrel]. fold rec in Honce', Hrel.
    assert (HE : Ext st (snd (rec t st))) by (split; [|split; [|split]]; assumption).
    split; [|split; [exact HE|split; [exact HN|split; [exact Hpost|split; [exact HPo|split; [exact HB1|exact HB2]]]]]].
    constructor; auto.
    - eapply RegRel_pres; eauto.
    - eapply P_Once.refs_ok_frame; eauto.
    - eapply SI_pres; eauto.
    - eapply UI_pres; eauto.
    - eapply sfx_Ext; eauto.
    - intros HN'. destruct (pres_lens _ _ Hpres) as (_ & LD & _). rewrite (Hnd HN') in LD.
      apply length_zero_iff_nil. exact LD.
  Qed.

  (* ---------- the loops ---------- *)

  Lemma E_call_ctors : forall ns st, W st -> (forall n, In n ns -> n < length (st_nodes st)) ->
    W (snd (call_ctors rec ns st)) /\ Ext st (snd (call_ctors rec ns st)) /\ NOK st (snd (call_ctors rec ns st)) /\
    (fst (call_ctors rec ns st) = LDone ->
     forall n, In n ns -> c_called (get_node (snd (call_ctors rec ns st)) n) = true) /\
    (ND = true -> (exists n, In n ns /\ RDoomed r L0 (node_sctor st n)) -> fst (call_ctors rec ns st) <> LDone) /\
    (ND = true -> forall cr e, fst (call_ctors rec ns st) = LFail cr e -> has_missingdeps e = true ->
       exists n, In n ns /\ RDoomed r L0 (node_sctor st n)).
  Proof.
    induction ns as [|n t IHn]; intros st HW Hr; cbn [call_ctors].
    - cbn [fst snd]. split; [exact HW|]. split; [apply Ext_refl|]. split; [apply NewOK_refl|].
      split; [intros _ n []|]. split; [intros _ (n & [] & _)|intros _ cr e; discriminate].
    - destruct (W_rec (TCallCtor n) st HW (Hr n (or_introl eq_refl))) as (W1 & E1 & N1 & Po1 & _ & B1 & B2).
      cbn [bad] in B1, B2.
      destruct (rec (TCallCtor n) st) as [[a|e|a] st1]; cbn [fst snd] in *.
      + destruct Po1 as [_ C1].
        destruct (IHn st1 W1) as (W2 & E2 & N2 & C2 & D2 & F2).
        { intros m Hm. destruct (Ext_lens _ _ E1) as (-> & _). apply Hr. right. exact Hm. }
        assert (SC : forall m, node_sctor st1 m = node_sctor st m) by (intros m; apply Ext_sctor; exact E1).
        split; [exact W2|]. split; [eapply Ext_trans; eauto|]. split; [eapply NewOK_trans; eauto|].
        split; [|split].
        * intros HD m [<-|Hm]; [eapply Ext_called; eauto|apply C2; assumption].
        * intros HN (m & [<-|Hm] & Hdm).
          -- exfalso. apply (B1 HN Hdm a). reflexivity.
          -- apply (D2 HN). exists m. split; [exact Hm|]. rewrite SC. exact Hdm.
        * intros HN cr e He Hm. destruct (F2 HN cr e He Hm) as (m & Hm' & Hdm).
          exists m. split; [right; exact Hm'|]. rewrite <- SC. exact Hdm.
      + split; [exact W1|]. split; [exact E1|]. split; [exact N1|]. split; [discriminate|].
        split; [intros _ _; discriminate|].
        intros HN cr e' [= <- <-] Hm. exists n. split; [left; reflexivity|]. apply (B2 HN e eq_refl Hm).
      + split; [exact W1|]. split; [exact E1|]. split; [exact N1|]. split; [discriminate|].
        split; [intros _ _; discriminate|intros _ cr e'; discriminate].
  Qed.

  Lemma E_call_group_decs : forall k bs st, W st ->
    W (snd (call_group_decs rec k bs st)) /\ Ext st (snd (call_group_decs rec k bs st)) /\
    NOK st (snd (call_group_decs rec k bs st)) /\
    (fst (call_group_decs rec k bs st) = LDone ->
     forall s d, In s bs -> alookup key_eqb k (s_decorators (get_scope st s)) = Some d ->
       d_state (get_dec st d) = DOnStack \/ d_state (get_dec (snd (call_group_decs rec k bs st)) d) = DCalled) /\
    (ND = true -> fst (call_group_decs rec k bs st) = LDone).
  Proof.
    intros k; induction bs as [|s t IHb]; intros st HW; cbn [call_group_decs].
    - cbn [fst snd]. split; [exact HW|]. split; [apply Ext_refl|]. split; [apply NewOK_refl|]. split; [intros _ s d []|reflexivity].
    - destruct (alookup key_eqb k (s_decorators (get_scope st s))) as [d|] eqn:E.
      2:{ destruct (IHb st HW) as (W2 & E2 & N2 & C2 & D2). split; [exact W2|]. split; [exact E2|]. split; [exact N2|].
          split; [|exact D2].
          intros HD s' d' [<-|Hs'] Hl; [congruence|]. apply (C2 HD s' d'); assumption. }
      assert (Hdr : d < length (st_decs st)) by (eapply dec_range; [apply (Wld_SInv _ _ _ _ _ _ HW)|exact E]).
      assert (NDF : ND = true -> False).
      { intros HN. rewrite (w_nodec _ _ _ _ _ _ HW HN) in Hdr. cbn in Hdr. lia. }
      destruct (dstate_eqb (d_state (get_dec st d)) DOnStack) eqn:Eo.
      { destruct (IHb st HW) as (W2 & E2 & N2 & C2 & D2). split; [exact W2|]. split; [exact E2|]. split; [exact N2|].
        split; [|exact D2].
        intros HD s' d' [<-|Hs'] Hl; [|apply (C2 HD s' d'); assumption].
        left. rewrite E in Hl. injection Hl as <-. apply P_Once.dstate_eqb_true. exact Eo. }
      assert (Hpre : tpre2 (TCallDec d) st).
      { split; [exact Hdr|]. apply P_Once.dstate_eqb_false. exact Eo. }
      destruct (W_rec (TCallDec d) st HW Hpre) as (W1 & E1 & N1 & Po1 & _).
      destruct (rec (TCallDec d) st) as [[a|e|a] st1]; cbn [fst snd] in *.
      + destruct Po1 as [_ C1].
        destruct (IHb st1 W1) as (W2 & E2 & N2 & C2 & D2).
        split; [exact W2|]. split; [eapply Ext_trans; eauto|]. split; [eapply NewOK_trans; eauto|].
        split; [|exact D2].
        intros HD s' d' [<-|Hs'] Hl.
        * rewrite E in Hl. injection Hl as <-. right. eapply Ext_dcalled; eauto.
        * rewrite <- (Ext_decorators _ _ s' E1) in Hl. destruct (C2 HD s' d' Hs' Hl) as [H|H]; [|right; exact H].
          left. apply (Ext_donstack _ _ d' E1). exact H.
      + split; [exact W1|]. split; [exact E1|]. split; [exact N1|]. split; [discriminate|intros HN; destruct (NDF HN)].
      + split; [exact W1|]. split; [exact E1|]. split; [exact N1|]. split; [discriminate|intros HN; destruct (NDF HN)].
  Qed.

  Lemma E_build_list : forall v ls st, W st -> forallb pleaf_ok2 ls = true ->
    W (snd (build_list rec v ls st)) /\ Ext st (snd (build_list rec v ls st)) /\ NOK st (snd (build_list rec v ls st)) /\
    (forall args, fst (build_list rec v ls st) = Done args ->
       forall self, self_ok st self -> Forall2 (LPs bt r log0 ND (snd (build_list rec v ls st)) self v) ls args) /\
    (ND = true -> (exists l, In l ls /\ leaf_bad r L0 v l) -> forall x, fst (build_list rec v ls st) <> Done x) /\
    (ND = true -> forall e, fst (build_list rec v ls st) = Fail e -> has_missingdeps e = true ->
       exists l, In l ls /\ leaf_bad r L0 v l).
  Proof.
    intros v; induction ls as [|l t IHl]; intros st HW Hl; cbn [build_list].
    - cbn [fst snd]. split; [exact HW|]. split; [apply Ext_refl|]. split; [apply NewOK_refl|].
      split; [intros args [= <-] self _; constructor|]. split; [intros _ (l & [] & _)|intros _ e; discriminate].
    - cbn [forallb] in Hl. apply andb_true_iff in Hl as [Hl Ht].
      destruct (W_rec (TLeaf v l) st HW Hl) as (W1 & E1 & N1 & _ & Po1 & B1 & B2). unfold Post in Po1. cbn [bad] in B1, B2.
      destruct (rec (TLeaf v l) st) as [[a|e|a] st1]; cbn [fst snd] in *.
      + destruct Po1 as (x & -> & Hx).
        destruct (IHl st1 W1 Ht) as (W2 & E2 & N2 & F2 & D2 & G2).
        assert (BADT : ND = true -> (exists l0, In l0 (l :: t) /\ leaf_bad r L0 v l0) -> exists l0, In l0 t /\ leaf_bad r L0 v l0).
        { intros HN (l0 & [<-|Hl0] & Hb); [exfalso; apply (B1 HN Hb [x]); reflexivity|eauto]. }
        destruct (build_list rec v t st1) as [[r2|e2|a2] st2]; cbn [fst snd] in *;
          (split; [exact W2|]; split; [eapply Ext_trans; eauto|]; split; [eapply NewOK_trans; eauto|]).
        * split; [|split].
          -- intros args [= <-] self Hself. cbn [app]. constructor.
             ++ eapply LPs_Ext; [exact E2|]. apply Hx. exact Hself.
             ++ apply F2; [reflexivity|]. eapply Ext_self_ok; eauto.
          -- intros HN Hb y _. apply (D2 HN (BADT HN Hb) r2). reflexivity.
          -- intros _ e; discriminate.
        * split; [intros args; discriminate|]. split; [intros _ _ y; discriminate|].
          intros HN e [= <-] Hm. destruct (G2 HN e2 eq_refl Hm) as (l0 & Hl0 & Hb). exists l0. split; [right; exact Hl0|exact Hb].
        * split; [intros args; discriminate|]. split; [intros _ _ y; discriminate|intros _ e; discriminate].
      + split; [exact W1|]. split; [exact E1|]. split; [exact N1|]. split; [intros args; discriminate|].
        split; [intros _ _ y; discriminate|].
        intros HN e' [= <-] Hm. exists l. split; [left; reflexivity|]. apply (B2 HN e eq_refl Hm).
      + split; [exact W1|]. split; [exact E1|]. split; [exact N1|]. split; [intros args; discriminate|].
        split; [intros _ _ y; discriminate|intros _ e; discriminate].
  Qed.

  (* ---------- single leaves ---------- *)

  Lemma skeys_sig_keys : forall rs k, In k (skeys rs) -> In k (flat_map rleaf_keys rs).
  Proof.
    intros rs k H. unfold skeys in H. apply in_flat_map in H as (q & Hq & Hk). apply in_flat_map.
    exists q. split; [exact Hq|]. destruct q; [exact Hk|destruct Hk].
  Qed.

  (* the nearest providing scope has exactly one provider of a single key: the nearest provider *)
  Lemma prov_is_nearest : forall st v k pre b0 post n,
    W st -> k_group k = 0 ->
    path st v = pre ++ b0 :: post ->
    (forall b', In b' pre -> providers_at st b' k = []) ->
    In n (providers_at st b0 k) ->
    providers_at st b0 k = [n] /\ nearest_provider r v k = Some (node_sctor st n).
  Proof.
    intros st v k pre b0 post n HW Hk Hpath Hpre Hin.
    pose proof (w_R _ _ _ _ _ _ HW) as HR.
    pose proof (UI_single st r b0 k n HR (w_UI _ _ _ _ _ _ HW) Hk Hin) as Hone.
    split; [exact Hone|].
    eapply nearest_provider_at; eauto. eapply SI_single_only; eauto. apply (w_SI _ _ _ _ _ _ HW).
  Qed.

  (* a cached or freshly committed value of k in scope b on the path, no provider nearer:
     it is the nearest provider's output *)
  Lemma value_is_nearest : forall st v k pre b0 post a,
    W st -> k_group k = 0 ->
    path st v = pre ++ b0 :: post ->
    (forall b', In b' pre -> providers_at st b' k = []) ->
    alookup key_eqb k (s_values (get_scope st b0)) = Some a ->
    exists n e, n < length (st_nodes st) /\ c_called (get_node st n) = true /\
      nearest_provider r v k = Some (node_sctor st n) /\
      succ_of (LGs st) (sc_fn (node_sctor st n)) = Some e /\
      a = AProd (sc_fn (node_sctor st n)) e
            (opt_default 0 (slot_of_single k 0 (sig_rleaves (sc_sig (node_sctor st n))))) 0.
  Proof.
    intros st v k pre b0 post a HW Hk Hpath Hpre Hv.
    destruct (ci_values bt st (w_CI _ _ _ _ _ _ HW) b0 k a Hv) as (n & e & slot & Hn & Hh & Hc & Hs & Hsl & ->).
    pose proof (w_R _ _ _ _ _ _ HW) as HR.
    assert (Hin : In n (providers_at st b0 k)).
    { apply (RegRel_providers_In st r b0 k n HR). split; [exact Hn|]. split; [exact Hh|].
      apply skeys_sig_keys. eapply slot_of_single_In. exact Hsl. }
    destruct (prov_is_nearest st v k pre b0 post n HW Hk Hpath Hpre Hin) as [_ Hnp].
    exists n, e. split; [exact Hn|]. split; [exact Hc|]. split; [exact Hnp|].
    unfold node_sctor. cbn [sc_fn sc_sig sctor_of]. rewrite Hsl. split; [exact Hs|reflexivity].
  Qed.

  Lemma has_missingdeps_wrap_single : forall cr k e, has_missingdeps (wrap (LParamSingle cr k) e) = has_missingdeps e.
  Proof. reflexivity. Qed.
  Lemma has_missingdeps_wrap_group : forall cr k e, has_missingdeps (wrap (LParamGroup cr k) e) = has_missingdeps e.
  Proof. reflexivity. Qed.
  Lemma has_missingdeps_wrap_args : forall e, has_missingdeps (wrap LArgsFailed e) = has_missingdeps e.
  Proof. reflexivity. Qed.

  Lemma E_build_single : forall v k opt st, W st -> k_group k = 0 ->
    CD (snd (build_single rec v k opt st)) /\ NOK st (snd (build_single rec v k opt st)) /\
    (forall args, fst (build_single rec v k opt st) = Done args ->
       exists x, args = [x] /\
         forall self, self_ok st self -> LPs bt r log0 ND (snd (build_single rec v k opt st)) self v (LSingle k opt) x) /\
    (ND = true -> leaf_bad r L0 v (LSingle k opt) -> forall x, fst (build_single rec v k opt st) <> Done x) /\
    (ND = true -> forall e, fst (build_single rec v k opt st) = Fail e -> has_missingdeps e = true ->
       leaf_bad r L0 v (LSingle k opt)).
  Proof.
    intros v k opt st HW Hk. unfold build_single.
    pose proof (w_R _ _ _ _ _ _ HW) as HR.
    pose proof (Wld_nodup _ _ _ _ _ _ HW) as Hnd.
    assert (Hdop : forall self, decorators_on_path r v k self =
               map (node_sdec st) (filter (fun x => Cself self (node_sdec st x)) (decs_on_path st v k)))
      by (intros self; apply dop_self; exact HR).
    assert (Hstk : forall x st', Ext st st' -> In x (decs_on_path st v k) -> d_state (get_dec st x) = DOnStack ->
               onstk st' (node_sdec st x)).
    { intros x st' HE Hx Hs. apply (Ext_onstk st st' _ HE). exists x.
      apply (decs_on_path_In st r v k x HR) in Hx. destruct Hx as (Hx & _). auto. }
    destruct (find_dec st v k) as [[d bsc]|] eqn:EF.
    - (* a decorator that is not on the stack *)
      destruct (find_dec_sound st r v k d bsc HR EF) as (pre & post & Hdecs & _ & Hpre & Hdn & Hb & Hbin & Hd & Hmem & Hlook).
      assert (NDF : ND = true -> False).
      { intros HN. rewrite (w_nodec _ _ _ _ _ _ HW HN) in Hd. cbn in Hd. lia. }
      assert (Hp : tpre2 (TCallDec d) st) by (split; assumption).
      destruct (W_rec (TCallDec d) st HW Hp) as (W1 & E1 & N1 & Po1 & _).
      destruct (rec (TCallDec d) st) as [[rr0|e0|a0] st1]; cbn [fst snd] in *.
      + destruct (alookup key_eqb k (s_dvalues (get_scope st1 bsc))) as [a|] eqn:EA; cbn [fst snd].
        2:{ split; [apply (W_CD _ W1)|]. split; [exact N1|]. split; [intros args; discriminate|].
            split; [intros _ _ x; discriminate|intros _ e; discriminate]. }
        split; [apply (W_CD _ W1)|]. split; [exact N1|].
        split; [|split; [intros HN; destruct (NDF HN)|intros HN; destruct (NDF HN)]].
        intros args [= <-]. exists (ASingle a). split; [reflexivity|]. intros self Hself.
        unfold LPs. cbn [LPk]. unfold LP_single.
        destruct (ci_dvalues bt st1 (w_CI _ _ _ _ _ _ W1) bsc k a EA) as (d' & e & slot & Hd' & Hh' & Hc' & Hs' & Hsl' & ->).
        assert (d' = d).
        { pose proof (dec_lookup_unique st1 r bsc k d' slot (w_R _ _ _ _ _ _ W1) Hd' Hh' Hsl') as HL.
          rewrite (Ext_decorators _ _ bsc E1) in HL. congruence. }
        subst d'.
        rewrite (Hdop self), Hdecs, filter_app. cbn [filter].
        destruct (filter (fun x => Cself self (node_sdec st x)) pre) as [|x t] eqn:Efp.
        * assert (HC : Cself self (node_sdec st d) = true).
          { unfold Cself, node_sdec. cbn [sd_fn sdec_of]. destruct self as [f|]; [|reflexivity]. cbn [option_eqb].
            destruct Hself as (x0 & Hx0 & Hf0 & Hs0).
            destruct (Nat.eqb_spec (d_fn (get_dec st d)) f) as [Ef|]; [|reflexivity].
            exfalso. assert (x0 = d) by (eapply dec_fn_inj; eauto; congruence). subst x0. contradiction. }
          rewrite HC. cbn [app map]. left. exists e. unfold node_sdec. cbn [sd_fn sd_sig sdec_of].
          pose proof (Ext_sdec _ _ d E1) as Esd.
          pose proof (f_equal sd_fn Esd) as Efn. pose proof (f_equal sd_sig Esd) as Esig. cbn in Efn, Esig.
          rewrite <- Efn, <- Esig, Hsl'. split; [exact Hs'|reflexivity].
        * cbn [app map]. right.
          assert (Hx : In x pre).
          { assert (In x (filter (fun x => Cself self (node_sdec st x)) pre)) by (rewrite Efp; left; reflexivity).
            apply filter_In in H. tauto. }
          apply Hstk; [exact E1| |apply Hpre; exact Hx]. rewrite Hdecs. apply in_or_app. left. exact Hx.
      + split; [apply (W_CD _ W1)|]. split; [exact N1|]. split; [intros args; discriminate|].
        split; [intros _ _ x; discriminate|intros HN; destruct (NDF HN)].
      + split; [apply (W_CD _ W1)|]. split; [exact N1|]. split; [intros args; discriminate|].
        split; [intros _ _ x; discriminate|intros _ e; discriminate].
    - (* every decorator of k on the path is on the stack *)
      assert (Hall : forall x, In x (decs_on_path st v k) -> d_state (get_dec st x) = DOnStack).
      { intros x Hx. rewrite (find_dec_char st r v k HR) in EF.
        destruct (find (dec_free st) (decs_on_path st v k)) as [y|] eqn:Efd; [discriminate|].
        pose proof (find_none _ _ Efd x Hx) as Hf. unfold dec_free in Hf. apply negb_false_iff in Hf.
        apply P_Once.dstate_eqb_true. exact Hf. }
      assert (Hhead : forall st' self, Ext st st' ->
                 match decorators_on_path r v k self with h :: _ => onstk st' h | [] => True end).
      { intros st' self HE. rewrite (Hdop self).
        destruct (filter (fun x => Cself self (node_sdec st x)) (decs_on_path st v k)) as [|x t] eqn:Efp; [exact I|].
        cbn [map]. assert (Hx : In x (decs_on_path st v k)).
        { assert (In x (filter (fun x => Cself self (node_sdec st x)) (decs_on_path st v k))) by (rewrite Efp; left; reflexivity).
          apply filter_In in H. tauto. }
        apply Hstk; auto. }
      (* the shape of LP when no decorator applies *)
      assert (LPZ : forall st', Ext st st' -> opt = true ->
                 (forall c, nearest_provider r v k = Some c -> ND = false \/ RDoomed r L0 c) ->
                 forall self, LPs bt r log0 ND st' self v (LSingle k opt) (ASingle AZero)).
      { intros st' HE Ho Hdm self. unfold LPs. cbn [LPk]. unfold LP_single.
        pose proof (Hhead st' self HE) as Hh.
        destruct (decorators_on_path r v k self) as [|h t]; [|right; exact Hh].
        destruct (nearest_provider r v k) as [c|]; [right|]; repeat split; auto. }
      assert (LPV : forall st' a, Ext st st' ->
                 (exists c e, nearest_provider r v k = Some c /\ succ_of (LGs st') (sc_fn c) = Some e /\
                    a = AProd (sc_fn c) e (opt_default 0 (slot_of_single k 0 (sig_rleaves (sc_sig c)))) 0) ->
                 forall self, LPs bt r log0 ND st' self v (LSingle k opt) (ASingle a)).
      { intros st' a HE (c & e & Hnp & Hs & ->) self. unfold LPs. cbn [LPk]. unfold LP_single.
        pose proof (Hhead st' self HE) as Hh.
        destruct (decorators_on_path r v k self) as [|h t]; [|right; exact Hh].
        rewrite Hnp. left. exists e. split; [exact Hs|reflexivity]. }
      destruct (find_map (fun s => alookup key_eqb k (s_dvalues (get_scope st s))) (path st v)) as [a|] eqn:EM.
      { exfalso. apply P_Once.find_map_some in EM as (s & Hs & Hl).
        destruct (ci_dvalues bt st (w_CI _ _ _ _ _ _ HW) s k a Hl) as (d' & e & slot & Hd' & Hh' & Hc' & _ & Hsl' & _).
        assert (Hin : In d' (decs_on_path st v k)).
        { apply (decs_on_path_In st r v k d' HR). split; [exact Hd'|]. split; [rewrite Hh'; exact Hs|].
          apply memb_key_In. rewrite dec_keys_dkeys. eapply dec_slot_In; eauto. }
        apply Hall in Hin. congruence. }
      pose proof (find_provider_spec st k (path st v)) as HFP.
      destruct (find_provider st (path st v) k) as [a|bsc ns|] eqn:EP.
      + (* a cached value *)
        destruct HFP as (pre & b0 & post & Hpath & Hpre & Hv).
        destruct (value_is_nearest st v k pre b0 post a HW Hk Hpath (fun b' Hb' => proj2 (Hpre b' Hb')) Hv)
          as (n & e & Hn & Hcl & Hnp & Hs & Ha).
        cbn [fst snd]. split; [apply (W_CD _ HW)|]. split; [apply NewOK_refl|]. split; [|split].
        * intros args [= <-]. exists (ASingle a). split; [reflexivity|]. intros self _.
          apply LPV; [apply Ext_refl|]. exists (node_sctor st n), e. auto.
        * intros HN Hbad x _. destruct opt; [exact Hbad|]. cbn [leaf_bad] in Hbad. rewrite Hnp in Hbad.
          rewrite (w_D _ _ _ _ _ _ HW HN n Hn Hbad) in Hcl. discriminate.
        * intros _ e'; discriminate.
      + destruct HFP as (pre & post & Hpath & Hpre & Hv & Hns & Hne).
        destruct ns as [|n0 ns']; [congruence|].
        assert (Hin0 : In n0 (providers_at st bsc k)) by (rewrite <- Hns; left; reflexivity).
        destruct (prov_is_nearest st v k pre bsc post n0 HW Hk Hpath (fun b' Hb' => proj2 (Hpre b' Hb')) Hin0) as [Hone Hnp].
        assert (Hnsone : n0 :: ns' = [n0]) by congruence.
        destruct (E_call_ctors (n0 :: ns') st HW) as (W1 & E1 & N1 & C1 & D1c & D2c).
        { intros n Hn. rewrite Hns in Hn. eapply providers_at_in_range; eauto. }
        assert (DOOM : ND = true -> forall cr e, fst (call_ctors rec (n0 :: ns') st) = LFail cr e ->
                   has_missingdeps e = true -> RDoomed r L0 (node_sctor st n0)).
        { intros HN cr e He Hm. destruct (D2c HN cr e He Hm) as (n & Hn & Hdm). rewrite Hnsone in Hn.
          destruct Hn as [<-|[]]. exact Hdm. }
        destruct (call_ctors rec (n0 :: ns') st) as [[|c e|a] st1]; cbn [fst snd] in *.
        * destruct (alookup key_eqb k (s_values (get_scope st1 bsc))) as [a|] eqn:EA; cbn [fst snd].
          2:{ split; [apply (W_CD _ W1)|]. split; [exact N1|]. split; [intros args; discriminate|].
              split; [intros _ _ x; discriminate|intros _ e; discriminate]. }
          split; [apply (W_CD _ W1)|]. split; [exact N1|]. split; [|split].
          -- intros args [= <-]. exists (ASingle a). split; [reflexivity|]. intros self _.
             apply LPV; [exact E1|].
             destruct (value_is_nearest st1 v k pre bsc post a W1 Hk) as (n & e & _ & _ & Hnp1 & Hs1 & Ha1).
             ++ rewrite (Ext_path _ _ v E1). exact Hpath.
             ++ intros b' Hb'. rewrite (Ext_providers_at _ _ b' k E1). apply Hpre. exact Hb'.
             ++ exact EA.
             ++ exists (node_sctor st1 n), e. auto.
          -- intros HN Hbad x _. destruct opt; [exact Hbad|]. cbn [leaf_bad] in Hbad. rewrite Hnp in Hbad.
             apply (D1c HN); [|reflexivity]. exists n0. split; [left; reflexivity|exact Hbad].
          -- intros _ e'; discriminate.
        * destruct (opt && has_missingdeps e) eqn:EO; cbn [fst snd].
          -- apply andb_true_iff in EO as [Eopt Emd].
             split; [apply (W_CD _ W1)|]. split; [exact N1|]. split; [|split].
             ++ intros args [= <-]. exists (ASingle AZero). split; [reflexivity|]. intros self _.
                apply LPZ; [exact E1|exact Eopt|].
                intros c0 Hc0. rewrite Hnp in Hc0. injection Hc0 as <-.
                destruct ND eqn:End; [right|left; reflexivity]. apply (DOOM eq_refl c e eq_refl Emd).
             ++ intros _ Hbad. subst opt. destruct Hbad.
             ++ intros _ e'; discriminate.
          -- split; [apply (W_CD _ W1)|]. split; [exact N1|]. split; [intros args; discriminate|].
             split; [intros _ _ x; discriminate|].
             intros HN e' [= <-] Hm. rewrite has_missingdeps_wrap_single in Hm. rewrite Hm, andb_true_r in EO. subst opt.
             cbn [leaf_bad]. rewrite Hnp. apply (DOOM HN c e eq_refl Hm).
        * split; [apply (W_CD _ W1)|]. split; [exact N1|]. split; [intros args; discriminate|].
          split; [intros _ _ x; discriminate|intros _ e; discriminate].
      + (* no provider on the path *)
        assert (Hnone : nearest_provider r v k = None).
        { eapply nearest_provider_none; [exact HR|eapply SI_single_only; eauto; apply (w_SI _ _ _ _ _ _ HW)|].
          apply find_provider_none. exact EP. }
        destruct opt; cbn [fst snd].
        * split; [apply (W_CD _ HW)|]. split; [apply NewOK_refl|]. split; [|split].
          -- intros args [= <-]. exists (ASingle AZero). split; [reflexivity|]. intros self _.
             apply LPZ; [apply Ext_refl|reflexivity|]. intros c0 Hc0. congruence.
          -- intros _ [].
          -- intros _ e; discriminate.
        * split; [apply (W_CD _ HW)|]. split; [apply NewOK_refl|]. split; [intros args; discriminate|].
          split; [intros _ _ x; discriminate|]. intros _ e [= <-] Hm. discriminate Hm.
  Qed.

  (* ---------- group leaves ---------- *)

  Lemma group_members_In : forall k f e lens rs slot a, In a (group_members k f e lens slot rs) ->
    exists s i, a = AProd f e s i /\ slot <= s.
  Proof.
    intros k f e lens rs; induction rs as [|[ks|ks [|]] t IHr]; intros slot a H; cbn [group_members] in H.
    - destruct H.
    - destruct (IHr _ _ H) as (s & i & -> & Hs). exists s, i. split; [reflexivity|lia].
    - apply in_app_or in H as [H|H].
      + destruct (memb key_eqb k ks); [|destruct H]. unfold prod_atoms in H. apply in_map_iff in H as (i & <- & _).
        exists slot, i. split; [reflexivity|lia].
      + destruct (IHr _ _ H) as (s & i & -> & Hs). exists s, i. split; [reflexivity|lia].
    - apply in_app_or in H as [H|H].
      + destruct (memb key_eqb k ks); [|destruct H]. destruct H as [<-|[]]. exists slot, 0. split; [reflexivity|lia].
      + destruct (IHr _ _ H) as (s & i & -> & Hs). exists s, i. split; [reflexivity|lia].
  Qed.

  Lemma prod_atoms_NoDup : forall f e slot len, NoDup (prod_atoms f e slot len).
  Proof.
    intros f e slot len. unfold prod_atoms. apply FinFun.Injective_map_NoDup; [|apply seq_NoDup].
    intros i j H. injection H as ->. reflexivity.
  Qed.

  Lemma group_members_NoDup : forall k f e lens rs slot, NoDup (group_members k f e lens slot rs).
  Proof.
    intros k f e lens rs; induction rs as [|[ks|ks [|]] t IHr]; intros slot; cbn [group_members].
    - constructor.
    - apply IHr.
    - apply P_Frame.NoDup_app_disjoint; [destruct (memb key_eqb k ks); [apply prod_atoms_NoDup|constructor]|apply IHr|].
      intros a Ha Hb. apply group_members_In in Hb as (s & i & -> & Hs).
      destruct (memb key_eqb k ks); [|destruct Ha]. unfold prod_atoms in Ha. apply in_map_iff in Ha as (j & [= -> _] & _). lia.
    - apply P_Frame.NoDup_app_disjoint; [destruct (memb key_eqb k ks); [repeat constructor; intros []|constructor]|apply IHr|].
      intros a Ha Hb. apply group_members_In in Hb as (s & i & -> & Hs).
      destruct (memb key_eqb k ks); [|destruct Ha]. destruct Ha as [[= -> _]|[]]. lia.
  Qed.

  Lemma members_nodup : forall st L v k, W st -> NoDup (flat_map (members_of bt L k) (feeders r v k)).
  Proof.
    intros st L v k HW. pose proof (w_R _ _ _ _ _ _ HW) as HR. pose proof (Wld_nodup _ _ _ _ _ _ HW) as Hnd.
    assert (Hfn : NoDup (map sc_fn (r_ctors r))).
    { rewrite (rr_ctors HR), map_map. cbn [sc_fn sctor_of]. eapply P_Once.NoDup_app_l. exact Hnd. }
    assert (Hfs : NoDup (map sc_fn (feeders r v k))).
    { unfold feeders. clear -Hfn. induction (r_ctors r) as [|c l IHl]; cbn; [constructor|].
      cbn in Hfn. inversion Hfn as [|? ? Hn Hd]; subst.
      destruct (encloses r (sc_home c) v && feeds_group c k); cbn; [|apply IHl; exact Hd].
      constructor; [|apply IHl; exact Hd]. intros Hin. apply Hn. apply in_map_iff in Hin as (c' & E & Hc').
      apply in_map_iff. exists c'. split; [exact E|]. apply filter_In in Hc'. tauto. }
    apply P_Frame.NoDup_flat_map_disjoint.
    - eapply NoDup_map_inv. exact Hfs.
    - intros c _. unfold members_of. destruct (succ_of L (sc_fn c)); [apply group_members_NoDup|constructor].
    - intros c c' a Hc Hc' Hne Ha Ha'. unfold members_of in Ha, Ha'.
      destruct (succ_of L (sc_fn c)) as [e|]; [|destruct Ha]. destruct (succ_of L (sc_fn c')) as [e'|]; [|destruct Ha'].
      apply group_members_In in Ha as (s & i & -> & _). apply group_members_In in Ha' as (s' & i' & [= Ef _ _ _] & _).
      apply Hne. clear -Hfs Hc Hc' Ef. induction (feeders r v k) as [|x l IHl]; [destruct Hc|].
      cbn in Hfs. inversion Hfs as [|? ? Hn Hd]; subst.
      destruct Hc as [->|Hc], Hc' as [->|Hc']; auto.
      + exfalso. apply Hn. rewrite Ef. apply in_map. exact Hc'.
      + exfalso. apply Hn. rewrite <- Ef. apply in_map. exact Hc.
  Qed.

  Lemma groups_perm : forall st v k, W st -> k_group k <> 0 ->
    Permutation (flat_map (fun s => alookup_list key_eqb k (s_groups (get_scope st s))) (path st v))
                (flat_map (members_of bt (LGs st) k) (feeders r v k)).
  Proof.
    intros st v k HW Hk. pose proof (w_R _ _ _ _ _ _ HW) as HR.
    eapply Permutation_trans.
    { apply Permutation_flat_map_ext. intros s _. apply (ci_groups bt st (w_CI _ _ _ _ _ _ HW) s k). }
    rewrite <- flat_map_flat_map. fold (providers_on_path st v k).
    rewrite <- (flat_map_map' _ _ _ (node_sctor st) (members_of bt (LGs st) k)).
    apply Permutation_flat_map_l. apply feeders_perm; [exact HR|apply (Wld_TInv _ _ _ _ _ _ HW)|].
    eapply SI_group_only; eauto. apply (w_SI _ _ _ _ _ _ HW).
  Qed.

  Lemma dg_none : forall st s k, W st ->
    (forall x, alookup key_eqb k (s_decorators (get_scope st s)) = Some x -> d_state (get_dec st x) = DOnStack) ->
    alookup key_eqb k (s_dgroups (get_scope st s)) = None.
  Proof.
    intros st s k HW H. destruct (alookup key_eqb k (s_dgroups (get_scope st s))) as [l|] eqn:E; [|reflexivity].
    exfalso. destruct (ci_dgroups bt st (w_CI _ _ _ _ _ _ HW) s k l E) as (d' & e & slot & Hd' & Hh' & Hc' & _ & Hsl' & _).
    pose proof (dec_lookup_unique st r s k d' slot (w_R _ _ _ _ _ _ HW) Hd' Hh' Hsl') as HL.
    apply H in HL. congruence.
  Qed.

  Lemma dg_some : forall st s k x, W st -> k_group k <> 0 ->
    alookup key_eqb k (s_decorators (get_scope st s)) = Some x -> d_state (get_dec st x) = DCalled ->
    exists e, succ_of (LGs st) (d_fn (get_dec st x)) = Some e /\
      alookup key_eqb k (s_dgroups (get_scope st s)) =
      Some (prod_atoms (d_fn (get_dec st x)) e (opt_default 0 (dec_slot k 0 (sig_rleaves (d_sig (get_dec st x)))))
              (nth_len (lens_of bt (d_fn (get_dec st x)) e) (opt_default 0 (dec_slot k 0 (sig_rleaves (d_sig (get_dec st x))))))).
  Proof.
    intros st s k x HW Hk HL Hc. pose proof (w_R _ _ _ _ _ _ HW) as HR.
    pose proof (proj1 (rr_decorators HR s k x) HL) as (Hx & Hh & Hmem).
    apply memb_key_In in Hmem. rewrite dec_keys_dkeys in Hmem.
    pose proof (si_dsig NO st (w_SI _ _ _ _ _ _ HW) x) as Hwf. unfold wf_dsig2 in Hwf.
    apply andb_true_iff in Hwf as [Hwf _]. unfold wf_sig2 in Hwf. apply andb_true_iff in Hwf as [_ Hwf].
    destruct (dkeys_group_leaf _ k Hwf Hmem Hk) as (ks & fl & Hleaf).
    pose proof (ci_dgpres bt st (w_CI _ _ _ _ _ _ HW) x k ks fl Hx Hc Hleaf) as Hne. rewrite Hh in Hne.
    destruct (alookup key_eqb k (s_dgroups (get_scope st s))) as [l|] eqn:E; [|congruence].
    destruct (ci_dgroups bt st (w_CI _ _ _ _ _ _ HW) s k l E) as (d' & e & slot & Hd' & Hh' & Hc' & Hs' & Hsl' & ->).
    pose proof (dec_lookup_unique st r s k d' slot HR Hd' Hh' Hsl') as HL'.
    assert (d' = x) by congruence. subst d'.
    exists e. split; [exact Hs'|]. rewrite Hsl'. reflexivity.
  Qed.

  Lemma in_decs_on_path : forall st v k x, In x (decs_on_path st v k) <->
    exists s, In s (path st v) /\ alookup key_eqb k (s_decorators (get_scope st s)) = Some x.
  Proof.
    intros st v k x. unfold decs_on_path. rewrite in_flat_map. split.
    - intros (s & Hs & Hx). exists s. split; [exact Hs|].
      destruct (alookup key_eqb k (s_decorators (get_scope st s))) as [y|]; [|destruct Hx].
      destruct Hx as [->|[]]. reflexivity.
    - intros (s & Hs & E). exists s. split; [exact Hs|]. rewrite E. left; reflexivity.
  Qed.

  Lemma E_build_group : forall v k soft st, W st -> k_group k <> 0 ->
    CD (snd (build_group rec v k soft st)) /\ NOK st (snd (build_group rec v k soft st)) /\
    (forall args, fst (build_group rec v k soft st) = Done args ->
       exists x, args = [x] /\
         forall self, self_ok st self -> LPs bt r log0 ND (snd (build_group rec v k soft st)) self v (LGroup k soft) x) /\
    (ND = true -> leaf_bad r L0 v (LGroup k soft) -> forall x, fst (build_group rec v k soft st) <> Done x) /\
    (ND = true -> forall e, fst (build_group rec v k soft st) = Fail e -> has_missingdeps e = true ->
       leaf_bad r L0 v (LGroup k soft)).
  Proof.
    intros v k soft st HW Hk. unfold build_group.
    pose proof (w_R _ _ _ _ _ _ HW) as HR.
    pose proof (Wld_nodup _ _ _ _ _ _ HW) as Hnd.
    destruct (E_call_group_decs k (rev (path st v)) st HW) as (W1 & E1 & N1 & C1 & NDL).
    destruct (call_group_decs rec k (rev (path st v)) st) as [[|c0 e0|a0] st1]; cbn [fst snd] in *.
    2:{ split; [apply (W_CD _ W1)|]. split; [exact N1|]. split; [intros args; discriminate|].
        split; [intros _ _ x; discriminate|intros HN; discriminate (NDL HN)]. }
    2:{ split; [apply (W_CD _ W1)|]. split; [exact N1|]. split; [intros args; discriminate|].
        split; [intros _ _ x; discriminate|intros _ e; discriminate]. }
    assert (Hdecs : forall x, In x (decs_on_path st v k) ->
               d_state (get_dec st x) = DOnStack \/ d_state (get_dec st1 x) = DCalled).
    { intros x Hx. apply in_decs_on_path in Hx as (s & Hs & HL). apply (C1 eq_refl s x); [|exact HL].
      apply in_rev. rewrite rev_involutive. exact Hs. }
    assert (Hdop : forall self, decorators_on_path r v k self =
               map (node_sdec st) (filter (fun x => Cself self (node_sdec st x)) (decs_on_path st v k)))
      by (intros self; apply dop_self; exact HR).
    assert (Hpath1 : path st1 v = path st v) by (apply Ext_path; exact E1).
    (* a decorator excluded by self is on the stack *)
    assert (Hself_stk : forall self x, self_ok st self -> In x (decs_on_path st v k) ->
               Cself self (node_sdec st x) = false -> d_state (get_dec st x) = DOnStack).
    { intros self x Hself Hx HC. unfold Cself, node_sdec in HC. cbn [sd_fn sdec_of] in HC.
      destruct self as [f|]; [|discriminate]. cbn [option_eqb] in HC. apply negb_false_iff, Nat.eqb_eq in HC.
      destruct Hself as (x0 & Hx0 & Hf0 & Hs0).
      apply (decs_on_path_In st r v k x HR) in Hx. destruct Hx as (Hx & _).
      assert (x0 = x) by (eapply dec_fn_inj; eauto; congruence). subst. exact Hs0. }
    (* the analysis of the head of the checker's decorator list *)
    assert (HEAD : forall st' self, Ext st1 st' -> self_ok st self ->
      match decorators_on_path r v k self with
      | [] => forall s, In s (path st v) -> alookup key_eqb k (s_dgroups (get_scope st1 s)) = None
      | h :: _ => onstk st' h \/
          exists e, succ_of (LGs st1) (sd_fn h) = Some e /\
            find_map (fun s => alookup key_eqb k (s_dgroups (get_scope st1 s))) (path st v) =
            Some (prod_atoms (sd_fn h) e (opt_default 0 (dec_slot k 0 (sig_rleaves (sd_sig h))))
                    (nth_len (lens_of bt (sd_fn h) e) (opt_default 0 (dec_slot k 0 (sig_rleaves (sd_sig h))))))
      end).
    { intros st' self HE' Hself. rewrite (Hdop self).
      destruct (filter (fun x => Cself self (node_sdec st x)) (decs_on_path st v k)) as [|x t] eqn:Efp; cbn [map].
      - intros s Hs. apply (dg_none st1 s k W1). intros y HL.
        rewrite (Ext_decorators _ _ s E1) in HL.
        assert (Hy : In y (decs_on_path st v k)) by (apply in_decs_on_path; eauto).
        apply (Ext_donstack _ _ y E1). apply (Hself_stk self y Hself Hy).
        eapply filter_nil_inv in Efp; eauto.
      - destruct (filter_head _ _ _ _ _ Efp) as (pre & post & Hsplit & Hpre & HCx).
        assert (Hx : In x (decs_on_path st v k)) by (rewrite Hsplit; apply in_elt).
        destruct (Hdecs x Hx) as [Hs|Hc].
        + left. apply (Ext_onstk st st'); [eapply Ext_trans; eauto|]. exists x.
          apply (decs_on_path_In st r v k x HR) in Hx. destruct Hx as (Hx & _). auto.
        + right. pose proof Hsplit as Hsplit'. unfold decs_on_path in Hsplit'.
          destruct (flat_map_split1 _ _ _ _ _ _ _ (fun a => opt_list_len _ _) Hsplit') as (p1 & bx & p2 & Hp & Hp1 & Hbx & _).
          assert (HLx : alookup key_eqb k (s_decorators (get_scope st bx)) = Some x).
          { destruct (alookup key_eqb k (s_decorators (get_scope st bx))) as [y|]; [|discriminate]. cbn in Hbx. congruence. }
          rewrite <- (Ext_decorators _ _ bx E1) in HLx.
          destruct (dg_some st1 bx k x W1 Hk HLx Hc) as (e & Hs & Hdg).
          pose proof (Ext_sdec _ _ x E1) as Esd.
          pose proof (f_equal sd_fn Esd) as Efn. pose proof (f_equal sd_sig Esd) as Esig. cbn in Efn, Esig.
          exists e. unfold node_sdec. cbn [sd_fn sd_sig sdec_of]. rewrite <- Efn, <- Esig. split; [exact Hs|].
          rewrite Hp, find_map_app_none.
          * cbn [find_map]. rewrite Hdg. reflexivity.
          * intros s Hs1. apply (dg_none st1 s k W1). intros y HL.
            rewrite (Ext_decorators _ _ s E1) in HL.
            assert (Hy : In y pre).
            { rewrite <- Hp1. apply in_flat_map. exists s. split; [exact Hs1|]. rewrite HL. left; reflexivity. }
            apply (Ext_donstack _ _ y E1). apply (Hself_stk self y Hself); [rewrite Hsplit; apply in_or_app; left; exact Hy|].
            apply Hpre. exact Hy. }
    rewrite Hpath1.
    destruct (find_map (fun s => alookup key_eqb k (s_dgroups (get_scope st1 s))) (path st v)) as [l|] eqn:EM.
    - cbn [fst snd]. split; [apply (W_CD _ W1)|]. split; [exact N1|].
      split; [|split; [|intros _ e; discriminate]].
      2:{ intros HN _ x _. apply P_Once.find_map_some in EM as (s & _ & Hl).
          destruct (ci_dgroups bt st1 (w_CI _ _ _ _ _ _ W1) s k l Hl) as (d' & _ & _ & Hd' & _).
          rewrite (w_nodec _ _ _ _ _ _ W1 HN) in Hd'. cbn in Hd'. lia. }
      intros args [= <-]. exists (ASlice l). split; [reflexivity|]. intros self Hself.
      unfold LPs. cbn [LPk]. unfold LP_group.
      pose proof (HEAD st1 self (Ext_refl st1) Hself) as HH.
      destruct (decorators_on_path r v k self) as [|h t].
      + exfalso. rewrite find_map_none_all in EM; [discriminate|]. exact HH.
      + destruct HH as [HH|(e & Hs & Hf)]; [right; exact HH|]. left. exists e. split; [exact Hs|].
        injection Hf as ->. apply Permutation_refl.
    - (* undecorated *)
      assert (NODEC : forall st' self, Ext st1 st' -> self_ok st self ->
                match decorators_on_path r v k self with [] => True | h :: _ => onstk st' h end).
      { intros st' self HE' Hself. pose proof (HEAD st' self HE' Hself) as HH.
        destruct (decorators_on_path r v k self) as [|h t]; [exact I|].
        destruct HH as [HH|(e & _ & Hf)]; [exact HH|]. discriminate. }
      destruct soft.
      + cbn [fst snd]. split; [apply (W_CD _ W1)|]. split; [exact N1|].
        split; [|split; [intros _ []|intros _ e; discriminate]].
        intros args [= <-]. eexists. split; [reflexivity|]. intros self Hself.
        unfold LPs. cbn [LPk]. unfold LP_group.
        pose proof (NODEC st1 self (Ext_refl st1) Hself) as HH.
        destruct (decorators_on_path r v k self) as [|h t]; [|right; exact HH].
        cbv zeta. rewrite Hpath1.
        pose proof (groups_perm st1 v k W1 Hk) as HP. rewrite Hpath1 in HP.
        split; [|split].
        * intros a Ha. eapply Permutation_in; eauto.
        * intros a Ha. eapply Permutation_in; [apply Permutation_sym; exact HP|].
          apply in_flat_map in Ha as (c & Hc & Ha). apply in_flat_map. exists c. split; [exact Hc|].
          eapply members_of_mono; [|exact Ha]. intros f e. apply sfx_succ. apply (w_sfx _ _ _ _ _ _ W1).
        * eapply Permutation_NoDup; [apply Permutation_sym; exact HP|]. eapply members_nodup; eauto.
      + assert (FEED : forall c', In c' (feeders r v k) -> exists n, In n (providers_on_path st1 v k) /\ c' = node_sctor st1 n).
        { intros c' Hc'. apply (feeders_In st1 r v k c' (w_R _ _ _ _ _ _ W1) (Wld_TInv _ _ _ _ _ _ W1)) in Hc'; [exact Hc'|].
          apply (SI_group_only NO st1 r k (w_R _ _ _ _ _ _ W1) (w_SI _ _ _ _ _ _ W1) Hk). }
        assert (FEED' : forall n, In n (providers_on_path st1 v k) -> In (node_sctor st1 n) (feeders r v k)).
        { intros n Hn. apply (feeders_In st1 r v k _ (w_R _ _ _ _ _ _ W1) (Wld_TInv _ _ _ _ _ _ W1)); [|eauto].
          apply (SI_group_only NO st1 r k (w_R _ _ _ _ _ _ W1) (w_SI _ _ _ _ _ _ W1) Hk). }
        destruct (E_call_ctors (providers_on_path st1 v k) st1 W1) as (W2 & E2 & N2 & C2 & D1c & D2c).
        { intros n Hn. apply (providers_on_path_In st1 r v k n (w_R _ _ _ _ _ _ W1)) in Hn. tauto. }
        destruct (call_ctors rec (providers_on_path st1 v k) st1) as [[|c e|a] st2]; cbn [fst snd] in *.
        2:{ split; [apply (W_CD _ W2)|]. split; [eapply NewOK_trans; eauto|]. split; [intros args; discriminate|].
            split; [intros _ _ x; discriminate|].
            intros HN e' [= <-] Hm. rewrite has_missingdeps_wrap_group in Hm.
            destruct (D2c HN c e eq_refl Hm) as (n & Hn & Hdm). cbn [leaf_bad]. exists (node_sctor st1 n). split; [apply FEED'; exact Hn|exact Hdm]. }
        2:{ split; [apply (W_CD _ W2)|]. split; [eapply NewOK_trans; eauto|]. split; [intros args; discriminate|].
            split; [intros _ _ x; discriminate|intros _ e; discriminate]. }
        split; [apply (W_CD _ W2)|]. split; [eapply NewOK_trans; eauto|].
        split; [|split; [|intros _ e; discriminate]].
        2:{ intros HN (c' & Hc' & Hdm) x _. destruct (FEED c' Hc') as (n & Hn & ->).
            apply (D1c HN); [|reflexivity]. exists n. split; assumption. }
        intros args [= <-]. eexists. split; [reflexivity|]. intros self Hself.
        unfold LPs. cbn [LPk]. unfold LP_group.
        pose proof (NODEC st2 self E2 Hself) as HH.
        destruct (decorators_on_path r v k self) as [|h t]; [|right; exact HH].
        cbv zeta. split.
        * intros c Hc. pose proof (w_R _ _ _ _ _ _ W2) as HR2.
          apply (feeders_In st2 r v k c HR2 (Wld_TInv _ _ _ _ _ _ W2)) in Hc.
          2:{ eapply SI_group_only; eauto. apply (w_SI _ _ _ _ _ _ W2). }
          destruct Hc as (n & Hn & ->).
          assert (Hn2 : n < length (st_nodes st2)) by (apply (providers_on_path_In st2 r v k n HR2) in Hn; tauto).
          unfold node_sctor. cbn [sc_fn sctor_of]. apply (called_succ st2 n (w_once _ _ _ _ _ _ W2) Hn2).
          apply C2; [reflexivity|]. rewrite <- (Ext_providers_on_path _ _ v k E2). exact Hn.
        * apply groups_perm; assumption.
  Qed.


  (* ---------- frames ---------- *)

  Lemma DInv_transfer : forall st st', DInv st ->
    length (st_nodes st') = length (st_nodes st) ->
    (forall n, sctor_of (get_node st' n) = sctor_of (get_node st n)) ->
    (forall n, c_called (get_node st' n) = true ->
       c_called (get_node st n) = true \/ (ND = true -> ~ RDoomed r L0 (node_sctor st n))) ->
    DInv st'.
  Proof.
    intros st st' HD LN HS HC HN n Hn Hd. unfold node_sctor in Hd. rewrite HS in Hd. rewrite LN in Hn.
    destruct (c_called (get_node st' n)) eqn:E; [|reflexivity].
    destruct (HC n E) as [H|H].
    - rewrite (HD HN n Hn Hd) in H. discriminate.
    - exfalso. apply (H HN). exact Hd.
  Qed.

  Lemma DInv_deq : forall st st', deq st st' -> DInv st -> DInv st'.
  Proof.
    intros st st' D HD. apply (DInv_transfer st st' HD).
    - destruct D as (_ & -> & _). reflexivity.
    - intros n. rewrite (deq_node n D). reflexivity.
    - intros n H. left. rewrite (deq_node n D) in H. exact H.
  Qed.

  Lemma DInv_set_onstack : forall st n x, DInv st -> DInv (set_onstack st n x).
  Proof.
    intros st n x HD. apply (DInv_transfer st _ HD).
    - apply P_Once.nodes_len_upd_node.
    - intros m. apply sctor_set_onstack.
    - intros m H. left. rewrite called_set_onstack in H. exact H.
  Qed.

  Lemma DInv_set_dstate : forall st d x, DInv st -> DInv (set_dstate st d x).
  Proof.
    intros st d x HD. apply (DInv_transfer st _ HD); [reflexivity|reflexivity|]. intros m H. left. exact H.
  Qed.

  Lemma W_set_onstack : forall st n x, W st -> W (set_onstack st n x).
  Proof.
    intros st n x [HG HR Hrefs Honce HSI HUI HCI Hsfx Hnd HD HNDr].
    assert (HP : pres st (set_onstack st n x)) by apply pres_set_onstack.
    constructor.
    - destruct HG as (HS & HK & HV). destruct (pres_static _ _ HP HS HK) as [HS0 HK0].
      split; [exact HS0|]. split; [exact HK0|]. apply VI_set_onstack. exact HV.
    - eapply RegRel_pres; eauto.
    - eapply P_Once.refs_ok_frame; [|exact Hrefs]. apply P_Once.frame_upd_node. reflexivity.
    - unfold P_Once.inv_once. cbn [set_onstack upd_node set_nodes st_nodes st_decs st_log].
      apply P_Once.IO_node_upd; [intros c; split; reflexivity|exact Honce].
    - eapply SI_pres; eauto.
    - eapply UI_pres; eauto.
    - eapply CI_set_onstack; eauto.
    - exact Hsfx.
    - exact Hnd.
    - apply DInv_set_onstack. exact HD.
    - exact HNDr.
  Qed.

  Lemma W_set_dstate : forall st d x, W st -> d < length (st_decs st) -> x <> DCalled ->
    d_state (get_dec st d) <> DCalled -> W (set_dstate st d x).
  Proof.
    intros st d x [HG HR Hrefs Honce HSI HUI HCI Hsfx Hnd HD HNDr] Hd Hx Hnc.
    assert (HP : pres st (set_dstate st d x)) by apply pres_set_dstate.
    constructor.
    - destruct HG as (HS & HK & HV). destruct (pres_static _ _ HP HS HK) as [HS0 HK0].
      split; [exact HS0|]. split; [exact HK0|].
      revert HV. apply VI_mono.
      + symmetry. apply HP.
      + intros s k H. exact H.
      + intros s k H. exact H.
      + intros m H. left. exact H.
      + intros d' H. left. destruct (Nat.eq_dec d' d) as [->|Hne].
        * rewrite dstate_set_same in H by exact Hd. congruence.
        * rewrite dstate_set_other in H by exact Hne. exact H.
    - eapply RegRel_pres; eauto.
    - eapply P_Once.refs_ok_frame; [|exact Hrefs]. apply P_Once.frame_upd_dec. reflexivity.
    - unfold P_Once.inv_once. cbn [set_dstate upd_dec set_decs st_nodes st_decs st_log].
      apply P_Once.IO_dec_upd; auto.
      destruct Honce as (_ & _ & C & _). specialize (C d Hd).
      destruct (P_Once.succb (d_fn (P_Once.dd d (st_decs st))) (st_log st)); [|reflexivity].
      exfalso. apply Hnc. apply C. reflexivity.
    - eapply SI_pres; eauto.
    - eapply UI_pres; eauto.
    - eapply CI_set_dstate; eauto.
    - exact Hsfx.
    - intros HN. exfalso. rewrite (Hnd HN) in Hd. cbn in Hd. lia.
    - apply DInv_set_dstate. exact HD.
    - exact HNDr.
  Qed.

  Lemma NOK_event : forall x y z ev, NOK x y -> EvOK bt r log0 NO ND (st_log y) ev -> st_log z = ev :: st_log y -> NOK x z.
  Proof.
    intros x y z ev (n1 & E1 & A1) Hev Ez. exists (ev :: n1). split; [rewrite Ez, E1; reflexivity|].
    cbn [evs_all]. rewrite <- E1. split; assumption.
  Qed.

  Lemma NOK_cb_opt : forall x y z (has : bool) f c t, NOK x y ->
    st_log z = (if has then [ECallback f c t] else []) ++ st_log y -> NOK x z.
  Proof.
    intros x y z has f c t (n1 & E1 & A1) Ez. destruct has; cbn [app] in Ez.
    - exists (ECallback f c t :: n1). split; [rewrite Ez, E1; reflexivity|]. cbn [evs_all]. split; [exact I|exact A1].
    - exists n1. split; [congruence|exact A1].
  Qed.

  Lemma run_fn_eq : forall rl f args st,
    run_fn cfg b du rl f args st =
    (b f (get_count st f), get_count st f,
     add_event (EExec f (get_count st f) rl args (b f (get_count st f)))
               (bump_count f (set_clock st (st_clock st + du f (get_count st f))%N))).
  Proof. intros. unfold run_fn. rewrite Hdry. reflexivity. Qed.

  (* a doomed constructor has no success in a world *)
  Lemma doomed_nosucc : forall st, W st -> ND = true ->
    forall c, In c (r_ctors r) -> RDoomed r L0 c -> succ_of (LG (st_log st)) (sc_fn c) = None.
  Proof.
    intros st HW HN c Hnp Hd.
    rewrite (rr_ctors (w_R _ _ _ _ _ _ HW)) in Hnp. apply in_map_iff in Hnp as (cn & <- & Hin).
    apply (In_nth _ _ dummy_cnode) in Hin as (n & Hn & <-). fold (get_node st n) in *.
    pose proof (w_D _ _ _ _ _ _ HW HN n Hn Hd) as Hc.
    destruct (succ_of (LG (st_log st)) (sc_fn (sctor_of (get_node st n)))) eqn:E; [|reflexivity].
    exfalso. assert (c_called (get_node st n) = true).
    { apply (called_succ st n (w_once _ _ _ _ _ _ HW) Hn). unfold LGs. cbn [sc_fn sctor_of] in E. congruence. }
    congruence.
  Qed.

  Lemma W_ChkEnv : forall st, W st -> ChkEnv r L0 ND (LG (st_log st)) (onstk st).
  Proof.
    intros st HW. constructor.
    - intros d Hd. apply (onstk_nosucc st d (w_once _ _ _ _ _ _ HW) Hd).
    - intros d (x & Hx & _). pose proof (w_nodec _ _ _ _ _ _ HW) as Hnd.
      destruct ND; [|reflexivity]. rewrite (Hnd eq_refl) in Hx. cbn in Hx. lia.
    - apply (w_ND _ _ _ _ _ _ HW).
    - rewrite (rr_ctors (w_R _ _ _ _ _ _ HW)), map_map. cbn [sc_fn sctor_of].
      eapply P_Once.NoDup_app_l. apply (Wld_nodup _ _ _ _ _ _ HW).
    - intros HN. apply (doomed_nosucc st HW HN).
  Qed.

  (* the event of a constructor / decorator / invoked function executing after its
     leaves have been built satisfies the checker *)
  Lemma exec_event_ok : forall st1 (cn : consumer) built args,
    W st1 ->
    (NO = true -> noopt_sig (cn_sig cn) = true) ->
    args = place (sig_order (cn_sig cn)) built ->
    Forall2 (LPs bt r log0 ND st1 (cn_self cn) (cn_view cn)) (sig_build_seq (cn_sig cn)) built ->
    forall c, In c (chk_args bt r (LG log0) (LG (st_log st1)) cn (sig_leaves (cn_sig cn)) args) -> Allowed NO ND c.
  Proof.
    intros st1 cn built args W1 Hno -> HF.
    apply (chk_args_LP bt r (LG log0) NO ND (LG (st_log st1)) (onstk st1)).
    - apply W_ChkEnv. exact W1.
    - intros HN l Hl. eapply noopt_leaves; eauto.
    - apply place_correct; [apply sig_order_perm|exact HF].
  Qed.

  (* not yet called: no success at the start of the operation either *)
  Lemma notcalled_L0 : forall st n, W st -> n < length (st_nodes st) -> c_called (get_node st n) = false ->
    succ_of L0 (c_fn (get_node st n)) = None.
  Proof.
    intros st n HW Hn Hc. destruct (succ_of L0 (c_fn (get_node st n))) as [e|] eqn:E; [|reflexivity].
    exfalso. apply (sfx_succ log0 st _ _ (w_sfx _ _ _ _ _ _ HW)) in E.
    assert (c_called (get_node st n) = true) by (apply (called_succ st n (w_once _ _ _ _ _ _ HW) Hn); congruence).
    congruence.
  Qed.

  (* ---------- constructorNode.Call ---------- *)

  Lemma E_call_ctor : forall n st, W st -> n < length (st_nodes st) ->
    CD (snd (call_ctor cfg b du rec n st)) /\ NOK st (snd (call_ctor cfg b du rec n st)) /\
    (ND = true -> RDoomed r L0 (node_sctor st n) -> forall x, fst (call_ctor cfg b du rec n st) <> Done x) /\
    (ND = true -> forall e, fst (call_ctor cfg b du rec n st) = Fail e -> has_missingdeps e = true ->
       RDoomed r L0 (node_sctor st n)).
  Proof.
    intros n st HW Hn. unfold call_ctor.
    destruct (c_called (get_node st n)) eqn:Ec.
    { cbn [fst snd]. split; [apply (W_CD _ HW)|]. split; [apply NewOK_refl|]. split; [|intros _ e; discriminate].
      intros HN Hd x _. rewrite (w_D _ _ _ _ _ _ HW HN n Hn Hd) in Ec. discriminate. }
    destruct (c_onstack (get_node st n)) eqn:Eo.
    { cbn [fst snd]. split; [apply (W_CD _ HW)|]. split; [apply NewOK_refl|]. split; [intros _ _ x; discriminate|].
      intros _ e [= <-] Hm. discriminate Hm. }
    pose proof (notcalled_L0 st n HW Hn Ec) as HL0.
    set (c := get_node st n) in *.
    set (st0 := set_onstack st n true).
    assert (W0 : W st0) by (apply W_set_onstack; exact HW).
    assert (S0 : sctor_of (get_node st0 n) = sctor_of c) by apply sctor_set_onstack.
    assert (Hwfc : wf_sig2 (c_sig c) = true) by apply (si_nsig NO st (w_SI _ _ _ _ _ _ HW) n).
    (* a bad leaf of the signature dooms the constructor *)
    assert (DOOMI : forall l, In l (sig_build_seq (c_sig c)) -> leaf_bad r L0 (c_orig c) l -> RDoomed r L0 (node_sctor st n)).
    { intros l Hl Hb. apply build_seq_In in Hl. apply (RDoomed_intro r L0 (node_sctor st n) l); assumption. }
    destruct (shallow_missing st0 (c_orig c) (sig_leaves (c_sig c))) as [|k0 ks] eqn:ESM.
    2:{ cbn [fst snd]. split; [apply (W_CD _ (W_set_onstack st0 n false W0))|].
        split; [apply NewOK_eqlog; reflexivity|]. split; [intros _ _ x; discriminate|].
        intros HN e _ _.
        assert (Hk0 : In k0 (shallow_missing st0 (c_orig c) (sig_leaves (c_sig c)))) by (rewrite ESM; left; reflexivity).
        apply shallow_missing_In in Hk0 as [Hleaf Hnone].
        apply (rd_none r L0 (node_sctor st n) k0 HL0 Hleaf).
        pose proof (wf_sig2_leaves _ _ Hwfc Hleaf) as Hg. cbn in Hg. apply Nat.eqb_eq in Hg.
        eapply (nearest_provider_none st0); [apply (w_R _ _ _ _ _ _ W0)| |apply providers_on_path_nil; exact Hnone].
        eapply SI_single_only; [apply (w_R _ _ _ _ _ _ W0)|apply (w_SI _ _ _ _ _ _ W0)|exact Hg]. }
    assert (Hp : tpre2 (TLeaves (c_orig c) (sig_build_seq (c_sig c))) st0).
    { cbn. apply build_seq_ok2. unfold wf_sig2 in Hwfc. apply andb_true_iff in Hwfc. tauto. }
    destruct (W_rec _ st0 W0 Hp) as (W1 & E1 & N1 & _ & Po1 & B1 & B2). unfold Post in Po1. cbn [bad] in B1, B2.
    destruct (rec (TLeaves (c_orig c) (sig_build_seq (c_sig c))) st0) as [[built|e1|a1] st1]; cbn [fst snd] in *.
    2:{ split; [apply (W_CD _ (W_set_onstack st1 n false W1))|].
        split; [eapply NewOK_eqlog_r with (y := st1); [|reflexivity]; eapply NewOK_eqlog_l with (y := st0); [reflexivity|exact N1]|].
        split; [intros _ _ x; discriminate|].
        intros HN e [= <-] Hm. rewrite has_missingdeps_wrap_args in Hm.
        destruct (B2 HN e1 eq_refl Hm) as (l & Hl & Hb). exact (DOOMI l Hl Hb). }
    2:{ split; [apply (W_CD _ (W_set_onstack st1 n false W1))|].
        split; [eapply NewOK_eqlog_r with (y := st1); [|reflexivity]; eapply NewOK_eqlog_l with (y := st0); [reflexivity|exact N1]|].
        split; [intros _ _ x; discriminate|intros _ e; discriminate]. }
    (* the leaves have been built: the constructor is not doomed *)
    assert (NOTDOOM : ND = true -> ~ RDoomed r L0 (node_sctor st n)).
    { intros HN Hd. destruct (RDoomed_inv r L0 _ Hd) as (_ & l & Hl & Hb).
      apply (B1 HN) with (x := built); [|reflexivity]. exists l. split; [apply build_seq_In; exact Hl|exact Hb]. }
    assert (NST : NOK st st1) by (eapply NewOK_eqlog_l with (y := st0); [reflexivity|exact N1]).
    rewrite run_fn_eq.
    set (f := c_fn c). set (e := get_count st1 f). set (args := place (sig_order (c_sig c)) built).
    pose proof (w_R _ _ _ _ _ _ W1) as HR1. pose proof (Wld_nodup _ _ _ _ _ _ W1) as Hnd1.
    assert (Hn1 : n < length (st_nodes st1)).
    { destruct (Ext_lens _ _ E1) as (-> & _). unfold st0, set_onstack. rewrite P_Once.nodes_len_upd_node. exact Hn. }
    assert (S1 : sctor_of (get_node st1 n) = sctor_of c) by (rewrite (Ext_sctor _ _ n E1); exact S0).
    assert (Efn : c_fn (get_node st1 n) = f) by exact (f_equal sc_fn S1).
    assert (Esig : c_sig (get_node st1 n) = c_sig c) by exact (f_equal sc_sig S1).
    assert (Ehome : c_home (get_node st1 n) = c_home c) by exact (f_equal sc_home S1).
    assert (C1 : c_called (get_node st1 n) = false).
    { destruct E1 as (_ & _ & _ & (_ & B & _)). specialize (B n). unfold P_Once.nd in B.
      fold (get_node st0 n) in B. fold (get_node st1 n) in B.
      apply B; [unfold st0; apply onstack_set_same; exact Hn|unfold st0; rewrite called_set_onstack; exact Ec]. }
    assert (Hsucc : succ_of (LGs st1) (c_fn (get_node st1 n)) = None).
    { destruct (succ_of (LGs st1) (c_fn (get_node st1 n))) eqn:E; [|reflexivity].
      exfalso. assert (c_called (get_node st1 n) = true) by (apply (called_succ st1 n (w_once _ _ _ _ _ _ W1) Hn1); congruence).
      congruence. }
    assert (EV : forall o, EvOK bt r log0 NO ND (st_log st1) (EExec f e RoleCtor args o)).
    { intros o. split; [discriminate|]. intros c0 Hc0. cbn [chk_exec_event find_consumer] in Hc0.
      pose proof (find_ctor_reg st1 r n HR1 Hnd1 Hn1) as Hfind. rewrite Efn, S1 in Hfind. rewrite Hfind in Hc0.
      cbn [cn_sig sc_sig sc_orig sctor_of] in Hc0.
      refine (exec_event_ok st1 (mkCons (c_sig c) (c_orig c) None) built args W1 _ eq_refl _ c0 Hc0).
      - intros HN. pose proof (si_nopt NO st (w_SI _ _ _ _ _ _ HW) n HN) as H. exact H.
      - cbn [cn_sig cn_view cn_self]. apply Po1. exact I. }
    set (st2o := fun o => add_event (EExec f e RoleCtor args o)
                    (bump_count f (set_clock st1 (st_clock st1 + du f e)%N))).
    assert (FAILEXIT : forall has cl o, (forall lens, o <> OOk lens) ->
              CD (set_onstack (callback has f cl (st_clock st1) (st2o o)) n false) /\
              NOK st (set_onstack (callback has f cl (st_clock st1) (st2o o)) n false)).
    { intros has cl o Ho.
      assert (D2 : deq st1 (callback has f cl (st_clock st1) (st2o o))).
      { eapply deq_trans; [|apply deq_callback]. repeat split. }
      split; [split|].
      - eapply CI_set_onstack; [eapply RegRel_pres; [apply deq_pres; exact D2|exact HR1]|].
        eapply CI_deq; [exact HR1|exact D2| |apply (w_CI _ _ _ _ _ _ W1)].
        intros g. unfold LGs. rewrite P_Once.log_callback, LG_cb_opt. apply succ_of_exec_fail. exact Ho.
      - apply DInv_set_onstack. eapply DInv_deq; [exact D2|exact (w_D _ _ _ _ _ _ W1)].
      - eapply NewOK_eqlog_r with (y := callback has f cl (st_clock st1) (st2o o)); [|reflexivity].
        eapply NOK_cb_opt; [|apply P_Once.log_callback].
        eapply NOK_event; [exact NST|apply (EV o)|reflexivity]. }
    fold e. fold (st2o (b f e)).
    destruct (b f e) as [lens| |] eqn:Eb; cbn [fst snd].
    - (* success *)
      rewrite Hdry.
      set (Y := set_onstack (callback (c_cb c) f ENone (st_clock st1)
                   (set_called (upd_scope (st2o (OOk lens)) (c_home c)
                      (commit_results false f e lens 0 (sig_rleaves (c_sig c)))) n)) n false).
      assert (Hhome : c_home c < length (st_scopes st1)).
      { rewrite <- Ehome. destruct (Wld_SInv _ _ _ _ _ _ W1) as [_ HB]. apply (bi_node_home HB n Hn1). }
      assert (GS : forall s, get_scope Y s = get_scope (upd_scope (st2o (OOk lens)) (c_home c)
                      (commit_results false f e lens 0 (sig_rleaves (c_sig c)))) s).
      { intros s. unfold Y, set_onstack, set_called. rewrite P_Once.get_scope_upd_node, P_Once.get_scope_callback, P_Once.get_scope_upd_node. reflexivity. }
      assert (LNY : length (st_nodes Y) = length (st_nodes st1)).
      { unfold Y, set_onstack, set_called. rewrite P_Once.nodes_len_upd_node, P_Once.nodes_callback, P_Once.nodes_len_upd_node. reflexivity. }
      assert (SCY : forall m, sctor_of (get_node Y m) = sctor_of (get_node st1 m)).
      { intros m. unfold Y. rewrite sctor_set_onstack, P_Once.get_node_callback, sctor_set_called. reflexivity. }
      assert (COY : forall m, m <> n -> c_called (get_node Y m) = c_called (get_node st1 m)).
      { intros m Hm. unfold Y. rewrite called_set_onstack, P_Once.get_node_callback, called_set_other by exact Hm. reflexivity. }
      split; [split|split; [|split; [intros HN Hd; destruct (NOTDOOM HN Hd)|intros _ e'; discriminate]]].
      + apply (CI_commit_ctor bt st1 Y r n e lens HR1 Hnd1 Hn1).
        * apply (si_nsig NO st1 (w_SI _ _ _ _ _ _ W1) n).
        * apply (si_nnodup NO st1 (w_SI _ _ _ _ _ _ W1) n).
        * exact C1.
        * exact Hsucc.
        * rewrite Efn. unfold LGs, Y, set_onstack, set_called.
          rewrite P_Once.log_upd_node, P_Once.log_callback, LG_cb_opt, P_Once.log_upd_node, P_Once.log_upd_scope.
          unfold st2o. rewrite P_Once.log_add_event. apply LG_exec_ok.
        * rewrite Efn. apply lens_of_beh. exact Eb.
        * exact LNY.
        * unfold Y, set_onstack, set_called. rewrite P_Once.decs_upd_node, P_Once.decs_callback, P_Once.decs_upd_node. reflexivity.
        * exact SCY.
        * unfold Y. rewrite called_set_onstack, P_Once.get_node_callback. apply called_set_same. exact Hn1.
        * exact COY.
        * intros d. unfold Y, set_onstack, set_called. rewrite P_Once.get_dec_upd_node, P_Once.get_dec_callback, P_Once.get_dec_upd_node. reflexivity.
        * intros s Hs. rewrite Ehome in Hs. rewrite GS, P_Once.get_scope_upd_other by (intros E; apply Hs; symmetry; exact E). reflexivity.
        * rewrite Ehome, Efn, Esig, GS, P_Once.get_scope_upd_same by exact Hhome. reflexivity.
        * intros s. rewrite GS.
          destruct (P_Once.get_scope_upd_cases (st2o (OOk lens)) (c_home c) (commit_results false f e lens 0 (sig_rleaves (c_sig c))) s) as [->|[-> ->]]; [reflexivity|].
          exact (proj1 (P_Once.providers_commit_results false f e lens (sig_rleaves (c_sig c)) 0 (get_scope st1 (c_home c)))).
        * apply (w_CI _ _ _ _ _ _ W1).
      + apply (DInv_transfer st1 Y (w_D _ _ _ _ _ _ W1) LNY SCY).
        intros m Hm. destruct (Nat.eq_dec m n) as [->|Hne]; [|left; rewrite <- (COY m Hne); exact Hm].
        right. intros HN Hd. apply (NOTDOOM HN). unfold node_sctor in *. rewrite S1 in Hd. exact Hd.
      + eapply NewOK_eqlog_r with (y := callback (c_cb c) f ENone (st_clock st1) (st2o (OOk lens))).
        * eapply NOK_cb_opt; [|apply P_Once.log_callback].
          eapply NOK_event; [exact NST|apply (EV (OOk lens))|reflexivity].
        * unfold Y, set_onstack, set_called.
          rewrite P_Once.log_upd_node, !P_Once.log_callback, P_Once.log_upd_node, P_Once.log_upd_scope. reflexivity.
    - destruct (FAILEXIT (c_cb c) (EUser f e) OErr) as [A B]; [discriminate|].
      split; [exact A|]. split; [exact B|]. split; [intros _ _ x; discriminate|].
      intros _ e' [= <-] Hm. discriminate Hm.
    - destruct (cfg_recover cfg); cbn [fst snd].
      + destruct (FAILEXIT (c_cb c) (EPanicE f e) OPanic) as [A B]; [discriminate|].
        split; [exact A|]. split; [exact B|]. split; [intros _ _ x; discriminate|].
        intros _ e' [= <-] Hm. discriminate Hm.
      + destruct (FAILEXIT (c_cb c) ENone OPanic) as [A B]; [discriminate|].
        split; [exact A|]. split; [exact B|]. split; [intros _ _ x; discriminate|intros _ e'; discriminate].
  Qed.

  (* ---------- decoratorNode.Call ---------- *)

  Lemma E_call_dec : forall d st, W st -> d < length (st_decs st) -> d_state (get_dec st d) <> DOnStack ->
    CD (snd (call_dec cfg b du rec d st)) /\ NOK st (snd (call_dec cfg b du rec d st)) /\ (ND = true -> False).
  Proof.
    intros d st HW Hd Hns.
    assert (NDF : ND = true -> False).
    { intros HN. rewrite (w_nodec _ _ _ _ _ _ HW HN) in Hd. cbn in Hd. lia. }
    cut (CD (snd (call_dec cfg b du rec d st)) /\ NOK st (snd (call_dec cfg b du rec d st))); [tauto|].
    unfold call_dec.
    destruct (dstate_eqb (d_state (get_dec st d)) DCalled) eqn:Ec.
    { cbn [snd]. split; [apply (W_CD _ HW)|apply NewOK_refl]. }
    apply P_Once.dstate_eqb_false in Ec.
    set (dn := get_dec st d) in *.
    set (st0 := set_dstate st d DOnStack).
    assert (W0 : W st0) by (apply W_set_dstate; [exact HW|exact Hd|discriminate|exact Ec]).
    assert (Ld0 : length (st_decs st0) = length (st_decs st)) by (unfold st0, set_dstate; apply P_Once.decs_len_upd_dec).
    assert (S0 : sdec_of (get_dec st0 d) = sdec_of dn) by apply sdec_set_dstate.
    assert (O0 : d_state (get_dec st0 d) = DOnStack) by (unfold st0; apply dstate_set_same; exact Hd).
    assert (POP : forall Y, W Y -> length (st_decs Y) = length (st_decs st) -> d_state (get_dec Y d) = DOnStack ->
              CD (set_dstate Y d DReady)).
    { intros Y WY LY OY. refine (W_CD _ (W_set_dstate Y d DReady WY _ _ _)); [lia|discriminate|congruence]. }
    destruct (shallow_missing st0 (d_home dn) (sig_leaves (d_sig dn))) as [|k0 ks].
    2:{ cbn [snd]. split; [apply POP; auto|apply NewOK_eqlog; reflexivity]. }
    assert (Hp : tpre2 (TLeaves (d_home dn) (sig_build_seq (d_sig dn))) st0).
    { cbn. apply build_seq_ok2. pose proof (si_dsig NO st (w_SI _ _ _ _ _ _ HW) d) as H. fold dn in H.
      unfold wf_dsig2 in H. apply andb_true_iff in H as [H _]. unfold wf_sig2 in H. apply andb_true_iff in H. tauto. }
    destruct (W_rec _ st0 W0 Hp) as (W1 & E1 & N1 & _ & Po1). unfold Post in Po1.
    destruct (rec (TLeaves (d_home dn) (sig_build_seq (d_sig dn))) st0) as [[built|e1|a1] st1]; cbn [fst snd] in *.
    2:{ split; [apply POP; [exact W1|destruct (Ext_lens _ _ E1) as (_ & -> & _); exact Ld0|apply (Ext_donstack _ _ d E1); exact O0]|].
        eapply NewOK_eqlog_r with (y := st1); [|reflexivity]. eapply NewOK_eqlog_l with (y := st0); [reflexivity|exact N1]. }
    2:{ split; [apply POP; [exact W1|destruct (Ext_lens _ _ E1) as (_ & -> & _); exact Ld0|apply (Ext_donstack _ _ d E1); exact O0]|].
        eapply NewOK_eqlog_r with (y := st1); [|reflexivity]. eapply NewOK_eqlog_l with (y := st0); [reflexivity|exact N1]. }
    assert (NST : NOK st st1) by (eapply NewOK_eqlog_l with (y := st0); [reflexivity|exact N1]).
    rewrite run_fn_eq.
    set (f := d_fn dn). set (e := get_count st1 f). set (args := place (sig_order (d_sig dn)) built).
    pose proof (w_R _ _ _ _ _ _ W1) as HR1. pose proof (Wld_nodup _ _ _ _ _ _ W1) as Hnd1.
    assert (Hd1 : d < length (st_decs st1)) by (destruct (Ext_lens _ _ E1) as (_ & -> & _); lia).
    assert (S1 : sdec_of (get_dec st1 d) = sdec_of dn) by (rewrite (Ext_sdec _ _ d E1); exact S0).
    assert (Efn : d_fn (get_dec st1 d) = f) by exact (f_equal sd_fn S1).
    assert (Esig : d_sig (get_dec st1 d) = d_sig dn) by exact (f_equal sd_sig S1).
    assert (Ehome : d_home (get_dec st1 d) = d_home dn) by exact (f_equal sd_home S1).
    assert (O1 : d_state (get_dec st1 d) = DOnStack) by (apply (Ext_donstack _ _ d E1); exact O0).
    assert (Hsucc : succ_of (LGs st1) (d_fn (get_dec st1 d)) = None).
    { destruct (succ_of (LGs st1) (d_fn (get_dec st1 d))) eqn:E; [|reflexivity].
      exfalso. assert (d_state (get_dec st1 d) = DCalled) by (apply (dcalled_succ st1 d (w_once _ _ _ _ _ _ W1) Hd1); congruence).
      congruence. }
    assert (EV : forall o, EvOK bt r log0 NO ND (st_log st1) (EExec f e RoleDec args o)).
    { intros o. split; [discriminate|]. intros c0 Hc0. cbn [chk_exec_event find_consumer] in Hc0.
      pose proof (find_dec_reg st1 r d HR1 Hnd1 Hd1) as Hfind. rewrite Efn, S1 in Hfind. rewrite Hfind in Hc0.
      cbn [cn_sig sd_sig sd_home sdec_of] in Hc0.
      refine (exec_event_ok st1 (mkCons (d_sig dn) (d_home dn) (Some f)) built args W1 _ eq_refl _ c0 Hc0).
      - intros HN. pose proof (si_dopt NO st (w_SI _ _ _ _ _ _ HW) d HN) as H. exact H.
      - cbn [cn_sig cn_view cn_self]. apply Po1. exists d. split; [lia|]. split; [exact (f_equal sd_fn S0)|exact O0]. }
    set (st2o := fun o => add_event (EExec f e RoleDec args o)
                    (bump_count f (set_clock st1 (st_clock st1 + du f e)%N))).
    assert (D2 : forall o, deq st1 (st2o o)) by (intros o; repeat split).
    assert (FAILEXIT : forall has cl o, (forall lens, o <> OOk lens) ->
              CD (callback has f cl (st_clock st1) (set_dstate (st2o o) d DReady)) /\
              NOK st (callback has f cl (st_clock st1) (set_dstate (st2o o) d DReady))).
    { intros has cl o Ho.
      assert (R2 : RegRel (st2o o) r) by (eapply RegRel_pres; [apply deq_pres; apply D2|exact HR1]).
      assert (C2 : CI bt (st2o o)).
      { eapply CI_deq; [exact HR1|apply D2| |apply (w_CI _ _ _ _ _ _ W1)].
        intros g. unfold LGs, st2o. rewrite P_Once.log_add_event. apply succ_of_exec_fail. exact Ho. }
      assert (C3 : CI bt (set_dstate (st2o o) d DReady)).
      { eapply CI_set_dstate; [exact R2|discriminate| |exact C2]. rewrite (deq_dec d (D2 o)). congruence. }
      split; [split|].
      - eapply CI_deq; [|apply deq_callback| |exact C3].
        + eapply RegRel_pres; [apply pres_set_dstate|exact R2].
        + intros g. unfold LGs. rewrite P_Once.log_callback, LG_cb_opt. reflexivity.
      - eapply DInv_deq; [apply deq_callback|]. apply DInv_set_dstate. eapply DInv_deq; [apply D2|exact (w_D _ _ _ _ _ _ W1)].
      - eapply NOK_cb_opt; [|apply P_Once.log_callback].
        eapply NOK_event; [exact NST|apply (EV o)|reflexivity]. }
    fold e. fold (st2o (b f e)).
    destruct (b f e) as [lens| |] eqn:Eb; cbn [fst snd].
    - (* success *)
      rewrite Hdry.
      set (Y := callback (d_cb dn) f ENone (st_clock st1)
                  (set_dstate (upd_scope (st2o (OOk lens)) (d_home dn)
                     (commit_decorated false f e lens 0 (sig_rleaves (d_sig dn)))) d DCalled)).
      assert (Hhome : d_home dn < length (st_scopes st1)).
      { rewrite <- Ehome. destruct (Wld_SInv _ _ _ _ _ _ W1) as [_ HB]. apply (bi_dec_home HB d Hd1). }
      assert (GS : forall s, get_scope Y s = get_scope (upd_scope (st2o (OOk lens)) (d_home dn)
                      (commit_decorated false f e lens 0 (sig_rleaves (d_sig dn)))) s).
      { intros s. unfold Y, set_dstate. rewrite P_Once.get_scope_callback, P_Once.get_scope_upd_dec. reflexivity. }
      split; [split|].
      2:{ apply (DInv_transfer st1 Y (w_D _ _ _ _ _ _ W1)).
          - unfold Y, set_dstate. rewrite P_Once.nodes_callback, P_Once.nodes_upd_dec. reflexivity.
          - intros m. unfold Y, set_dstate. rewrite P_Once.get_node_callback, P_Once.get_node_upd_dec. reflexivity.
          - intros m H. left. unfold Y, set_dstate in H. rewrite P_Once.get_node_callback, P_Once.get_node_upd_dec in H. exact H. }
      + apply (CI_commit_dec bt st1 Y r d e lens HR1 Hnd1 Hd1).
        * apply (si_dsig NO st1 (w_SI _ _ _ _ _ _ W1) d).
        * congruence.
        * exact Hsucc.
        * rewrite Efn. unfold LGs, Y, set_dstate.
          rewrite P_Once.log_callback, LG_cb_opt, P_Once.log_upd_dec, P_Once.log_upd_scope.
          unfold st2o. rewrite P_Once.log_add_event. apply LG_exec_ok.
        * rewrite Efn. apply lens_of_beh. exact Eb.
        * unfold Y, set_dstate. rewrite P_Once.nodes_callback, P_Once.nodes_upd_dec. reflexivity.
        * unfold Y, set_dstate. rewrite P_Once.decs_callback, P_Once.decs_len_upd_dec. reflexivity.
        * intros m. unfold Y, set_dstate. rewrite P_Once.get_node_callback, P_Once.get_node_upd_dec. reflexivity.
        * intros x. unfold Y. rewrite P_Once.get_dec_callback, sdec_set_dstate. reflexivity.
        * unfold Y. rewrite P_Once.get_dec_callback. apply dstate_set_same. exact Hd1.
        * intros x Hx. unfold Y. rewrite P_Once.get_dec_callback, dstate_set_other by exact Hx. reflexivity.
        * intros s Hs. rewrite Ehome in Hs. rewrite GS, P_Once.get_scope_upd_other by (intros E; apply Hs; symmetry; exact E). reflexivity.
        * rewrite Ehome, Efn, Esig, GS, P_Once.get_scope_upd_same by exact Hhome. reflexivity.
        * intros s. rewrite GS.
          destruct (P_Once.get_scope_upd_cases (st2o (OOk lens)) (d_home dn) (commit_decorated false f e lens 0 (sig_rleaves (d_sig dn))) s) as [->|[-> ->]]; [reflexivity|].
          exact (proj1 (P_Once.providers_commit_decorated false f e lens (sig_rleaves (d_sig dn)) 0 (get_scope st1 (d_home dn)))).
        * apply (w_CI _ _ _ _ _ _ W1).
      + eapply NOK_cb_opt with (y := st2o (OOk lens)).
        * eapply NOK_event; [exact NST|apply (EV (OOk lens))|reflexivity].
        * unfold Y, set_dstate. rewrite P_Once.log_callback, P_Once.log_upd_dec, P_Once.log_upd_scope. reflexivity.
    - apply FAILEXIT. discriminate.
    - destruct (cfg_recover cfg); cbn [fst snd]; apply FAILEXIT; discriminate.
  Qed.

  (* ---------- one level of the evaluator ---------- *)

  Lemma E_evalF : forall t st, MyP t st (evalF cfg b du rec t st).
  Proof.
    intros t st HW Hp. destruct t as [v [k opt|k soft]|v ls|n|d]; cbn [evalF tpre2 pleaf_ok2 bad] in *.
    - apply Nat.eqb_eq in Hp. destruct (E_build_single v k opt st HW Hp) as (A & B & C & D1 & D2).
      split; [exact A|]. split; [exact B|]. split; [|split; [exact D1|exact D2]]. unfold Post.
      destruct (fst (build_single rec v k opt st)) as [args|e|a] eqn:E; [|exact I|exact I].
      apply C. reflexivity.
    - apply negb_true_iff, Nat.eqb_neq in Hp. destruct (E_build_group v k soft st HW Hp) as (A & B & C & D1 & D2).
      split; [exact A|]. split; [exact B|]. split; [|split; [exact D1|exact D2]]. unfold Post.
      destruct (fst (build_group rec v k soft st)) as [args|e|a] eqn:E; [|exact I|exact I].
      apply C. reflexivity.
    - destruct (E_build_list v ls st HW Hp) as (A & _ & B & C & D1 & D2).
      split; [apply (W_CD _ A)|]. split; [exact B|]. split; [|split; [exact D1|exact D2]]. unfold Post.
      destruct (fst (build_list rec v ls st)) as [args|e|a] eqn:E; [|exact I|exact I].
      apply C. reflexivity.
    - destruct (E_call_ctor n st HW Hp) as (A & B & D1 & D2). split; [exact A|]. split; [exact B|].
      split; [|split; [exact D1|exact D2]]. unfold Post. destruct (fst _); exact I.
    - destruct Hp as [Hd Hs]. destruct (E_call_dec d st HW Hd Hs) as (A & B & NDF). split; [exact A|]. split; [exact B|].
      split; [|split; [intros _ []|intros HN; destruct (NDF HN)]]. unfold Post. destruct (fst _); exact I.
  Qed.
End EvalLevel.

(* the evaluator, any fuel *)
Theorem eval_MyP : forall cfg bt du, cfg_dry cfg = false -> forall r log0 NO ND fuel t st,
  MyP bt r log0 NO ND t st (eval cfg (beh_of bt) du fuel t st).
Proof.
  intros cfg bt du Hdry r log0 NO ND fuel. induction fuel as [|f IHf]; intros t st.
  - cbn [eval]. intros HW Hp. cbn [fst snd]. split; [split; [apply (w_CI _ _ _ _ _ _ HW)|exact (w_D _ _ _ _ _ _ HW)]|].
    split; [apply NewOK_refl|]. split; [exact I|]. split; [intros _ _ x; discriminate|intros _ e; discriminate].
  - cbn [eval]. apply (E_evalF cfg bt du Hdry r log0 NO ND f IHf).
Qed.

(* ---- operations, runs, the checker *)

(* ================================================================== *)
(* Part 10 : what the duplicate check of Provide guarantees             *)
(* ================================================================== *)

Lemma dup_in_keys_false : forall provs ks seen seen',
  dup_in_keys provs seen ks = (false, seen') ->
  NoDup ks /\ (forall k, In k ks -> ~ In k seen /\ alookup_list key_eqb k provs = []) /\
  (forall x, In x seen -> In x seen').
Proof.
  intros provs ks; induction ks as [|k t IH]; intros seen seen' H; cbn [dup_in_keys] in H.
  - injection H as <-. split; [constructor|]. split; [intros k []|auto].
  - destruct (memb key_eqb k seen) eqn:Em; cbn [orb] in H; [discriminate|].
    destruct (is_nil (alookup_list key_eqb k provs)) eqn:En; cbn [negb] in H; [|discriminate].
    destruct (IH _ _ H) as (A & B & C).
    assert (Hks : ~ In k seen) by (intros Hin; apply memb_key_In in Hin; congruence).
    split; [|split].
    + constructor; [|exact A]. intros Hin. destruct (B k Hin) as [Hn _]. apply Hn. left; reflexivity.
    + intros k' [<-|Hk'].
      * split; [exact Hks|]. destruct (alookup_list key_eqb k provs); [reflexivity|discriminate].
      * destruct (B k' Hk') as [Hn Hp]. split; [|exact Hp]. intros Hin. apply Hn. right; exact Hin.
    + intros x Hx. apply C. right; exact Hx.
Qed.

Lemma dup_in_keys_seen : forall provs ks seen seen',
  dup_in_keys provs seen ks = (false, seen') -> forall x, In x ks -> In x seen'.
Proof.
  intros provs ks; induction ks as [|k t IH]; intros seen seen' H x Hx; [destruct Hx|]. cbn [dup_in_keys] in H.
  destruct (memb key_eqb k seen || negb (is_nil (alookup_list key_eqb k provs))); [discriminate|].
  destruct Hx as [<-|Hx]; [|eapply IH; eauto].
  destruct (dup_in_keys_false _ _ _ _ H) as (_ & _ & C). apply C. left; reflexivity.
Qed.

Lemma dup_check_false : forall provs rs seen, dup_check provs seen rs = false ->
  NoDup (skeys rs) /\ (forall k, In k (skeys rs) -> ~ In k seen /\ alookup_list key_eqb k provs = []).
Proof.
  intros provs rs; induction rs as [|[ks|ks fl] t IH]; intros seen H; cbn [dup_check] in H.
  - split; [constructor|intros k []].
  - destruct (dup_in_keys provs seen ks) as [[|] seen'] eqn:E; cbn [fst snd] in H; [discriminate|].
    destruct (IH _ H) as [A B]. destruct (dup_in_keys_false _ _ _ _ E) as (C & D & F).
    cbn [skeys flat_map]. split.
    + apply P_Frame.NoDup_app_disjoint; [exact C|exact A|].
      intros k Hk Hk'. destruct (B k Hk') as [Hn _]. apply Hn. eapply dup_in_keys_seen; eauto.
    + intros k Hk. apply in_app_or in Hk as [Hk|Hk]; [apply D; exact Hk|].
      destruct (B k Hk) as [Hn Hp]. split; [|exact Hp]. intros Hin. apply Hn. apply F. exact Hin.
  - destruct (IH _ H) as [A B]. cbn [skeys flat_map app]. split; [exact A|].
    intros k Hk. destruct (B k Hk) as [Hn Hp]. split; [|exact Hp]. intros Hin. apply Hn. apply in_or_app. right; exact Hin.
Qed.

(* a registered key with group 0 of a well-kinded signature is a single key *)
Lemma sig_keys_group0 : forall sg k, wf_sig2 sg = true -> In k (sig_keys sg) -> k_group k = 0 -> In k (single_keys sg).
Proof.
  intros sg k H Hin Hk. unfold sig_keys in Hin. apply in_flat_map in Hin as (q & Hq & Hkq).
  pose proof (wf_sig2_rleaves sg q H Hq) as Hr. destruct q as [ks|ks fl]; cbn [rleaf_keys] in Hkq.
  - unfold single_keys. apply in_flat_map. exists (QSingle ks). split; assumption.
  - exfalso. cbn in Hr. apply andb_true_iff in Hr as [Hr _]. rewrite forallb_forall in Hr.
    specialize (Hr k Hkq). rewrite Hk in Hr. discriminate.
Qed.

(* ================================================================== *)
(* Part 11 : the invariants across operations                           *)
(* ================================================================== *)

Section Transfer.
  Variable bt : list (fnid * list outcome).
  Variable NO : bool.

  (* nothing that the invariants read has changed *)
  Lemma inv_transfer : forall st st',
    SInv st ->
    st_nodes st' = st_nodes st -> st_decs st' = st_decs st -> st_log st' = st_log st ->
    (forall b, P_Once.scaches (get_scope st' b) = P_Once.scaches (get_scope st b)) ->
    (forall b, s_providers (get_scope st' b) = s_providers (get_scope st b)) ->
    SI NO st /\ UI st /\ CI bt st -> SI NO st' /\ UI st' /\ CI bt st'.
  Proof.
    intros st st' HS EN ED EL EC EP (A & B & C).
    assert (GN : forall n, get_node st' n = get_node st n) by (intros n; unfold get_node; rewrite EN; reflexivity).
    assert (GD : forall d, get_dec st' d = get_dec st d) by (intros d; unfold get_dec; rewrite ED; reflexivity).
    split; [|split].
    - destruct A as [A1 A2 A3 A4 A5]. constructor; intros x; rewrite ?GN, ?GD; auto.
    - intros b0 k n1 n2 Hk. unfold providers_at. rewrite EP. apply B. exact Hk.
    - revert C. apply CI_same'.
      + intros b0 k n Hn. eapply prov_range; eauto.
      + exact EC.
      + rewrite EN. reflexivity.
      + rewrite ED. reflexivity.
      + intros n. rewrite GN. split; reflexivity.
      + intros d. rewrite GD. split; [reflexivity|tauto].
      + exact EP.
      + intros g _. unfold LGs. rewrite EL. reflexivity.
  Qed.
End Transfer.

Section Assembly.
  Variable cfg : config.
  Variable bt : list (fnid * list outcome).
  Variable du : dur.
  Hypothesis Hdry : cfg_dry cfg = false.
  Variable NO : bool.
  Variable NDh : bool.       (* the whole history has no Decorate *)

  Notation b := (beh_of bt).

  (* events of constructors and decorators do not depend on the operation *)
  Lemma EvOK_op : forall r log0 nd o lb ev, EvOK bt r log0 NO nd lb ev ->
    forall c, In c (chk_exec_event bt r (LG log0) o (LG lb) ev) -> Allowed NO nd c.
  Proof.
    intros r log0 nd o lb [f e rl args oc|f c t] H c0 Hc; [|destruct Hc].
    destruct H as [Hrl H]. apply H. destruct rl; [exact Hc|exact Hc|congruence].
  Qed.

  Lemma evs_all_impl : forall (Q Q' : list event -> event -> Prop) new old,
    (forall lb ev, Q lb ev -> Q' lb ev) -> evs_all Q new old -> evs_all Q' new old.
  Proof.
    intros Q Q' new old H; induction new as [|ev t IH]; cbn [evs_all]; [auto|]. intros [A B]. split; auto.
  Qed.

  Lemma walk_events_app : forall Q L a b0,
    walk_events Q L (a ++ b0) = walk_events Q L a ++ walk_events Q (L ++ log_of_events a) b0.
  Proof.
    intros Q L a; revert L; induction a as [|ev t IH]; intros L b0; cbn [app walk_events].
    - unfold log_of_events. cbn. rewrite app_nil_r. reflexivity.
    - rewrite IH. unfold log_of_events. cbn [flat_map]. rewrite <- !app_assoc. reflexivity.
  Qed.

  Lemma walk_events_ok : forall (A : nat -> Prop) (Q : list lentry -> event -> list nat) new old,
    evs_all (fun lb ev => forall c, In c (Q (LG lb) ev) -> A c) new old ->
    forall c, In c (walk_events Q (LG old) (rev new)) -> A c.
  Proof.
    intros A Q new old; induction new as [|ev t IH]; intros H c Hc; [destruct Hc|].
    cbn [evs_all] in H. destruct H as [HA HB]. cbn [rev] in Hc. rewrite walk_events_app in Hc.
    apply in_app_or in Hc as [Hc|Hc]; [apply IH; assumption|].
    cbn [walk_events] in Hc. rewrite app_nil_r in Hc. apply (HA c).
    rewrite LG_app. unfold LG at 2. exact Hc.
  Qed.

  Definition Qop (r : registry) (st : state) (o : op) (lb : list event) (ev : event) : Prop :=
    forall c, In c (chk_exec_event bt r (LG (st_log st)) o (LG lb) ev) -> Allowed NO (is_nil (r_decs r)) c.

  Lemma invoke_analysis : forall st s p r,
    P_Term.RI st -> P_Once.good st -> P_Once.fresh st (ii_fn p) ->
    RegRel st r -> SI NO st -> UI st -> CI bt st ->
    forallb pleaf_ok2 (sig_leaves (ii_sig p)) = true -> (NO = true -> noopt_sig (ii_sig p) = true) ->
    CI bt (snd (invoke cfg b du st s p)) /\
    exists new, st_log (snd (invoke cfg b du st s p)) = new ++ st_log st /\
                evs_all (Qop r st (OInvoke s p)) new (st_log st).
  Proof.
    intros st s p r HRI Hgood Hfresh HR HSI HUI HCI Hleaves Hnoopt. set (nd := is_nil (r_decs r)).
    destruct (P_Once.invoke_cases cfg b du st s p) as [[_ H]|(st1 & Hst1 & H)].
    { rewrite H. split; [exact HCI|]. exists []. split; [reflexivity|exact I]. }
    rewrite H. clear H.
    destruct Hgood as (_ & _ & Hrefs & Honce).
    assert (E1 : st_nodes st1 = st_nodes st /\ st_decs st1 = st_decs st /\ st_log st1 = st_log st)
      by (destruct Hst1 as [->| ->]; repeat split).
    destruct E1 as (N1 & D1 & L1).
    assert (RI1 : P_Term.RI st1) by (destruct Hst1 as [->| ->]; [exact HRI|apply RI_set_verified; exact HRI]).
    assert (T1 : SI NO st1 /\ UI st1 /\ CI bt st1).
    { apply (inv_transfer bt NO st st1); auto.
      - apply HRI.
      - intros b0. destruct Hst1 as [->| ->]; [reflexivity|].
        destruct (P_Once.get_scope_upd_cases st s (sc_set_verified true) b0) as [->|[-> ->]]; reflexivity.
      - intros b0. destruct Hst1 as [->| ->]; [reflexivity|].
        destruct (P_Once.get_scope_upd_cases st s (sc_set_verified true) b0) as [->|[-> ->]]; reflexivity. }
    destruct T1 as (SI1 & UI1 & CI1).
    assert (W1 : Wld bt r (st_log st) NO nd st1).
    { constructor; auto.
      - destruct RI1 as (A & B & C & _). split; [exact A|split; [exact B|exact C]].
      - destruct Hst1 as [->| ->]; [exact HR|]. eapply RegRel_skel; [|exact HR]. symmetry. apply skel_upd_verified.
      - destruct Hst1 as [->| ->]; [exact Hrefs|]. eapply P_Once.refs_ok_frame; [|exact Hrefs].
        apply P_Once.frame_upd_scope. intros c; split; reflexivity.
      - unfold P_Once.inv_once. rewrite N1, D1, L1. exact Honce.
      - exists []. rewrite L1. reflexivity.
      - intros HN. rewrite D1. unfold nd in HN. rewrite (rr_decs HR) in HN.
        destruct (st_decs st); [reflexivity|discriminate HN].
      - intros _ n Hn Hd. destruct (RDoomed_inv _ _ _ Hd) as [Hs _].
        unfold node_sctor in Hs. cbn [sc_fn sctor_of] in Hs.
        destruct (c_called (get_node st1 n)) eqn:Ec; [|reflexivity]. exfalso.
        assert (Honce1 : P_Once.inv_once st1) by (unfold P_Once.inv_once; rewrite N1, D1, L1; exact Honce).
        apply (called_succ st1 n Honce1 Hn) in Ec. apply Ec. unfold LGs. rewrite L1. exact Hs. }
    assert (Hp : tpre2 (TLeaves s (sig_build_seq (ii_sig p))) st1) by (cbn; apply build_seq_ok2; exact Hleaves).
    destruct (W_rec cfg bt du Hdry r (st_log st) NO nd (eval_fuel st1)
                (eval_MyP cfg bt du Hdry r (st_log st) NO nd (eval_fuel st1)) _ st1 W1 Hp) as (W2 & E2 & N2 & _ & Po2 & _).
    unfold Post in Po2.
    assert (TOQ : forall new, evs_all (EvOK bt r (st_log st) NO nd) new (st_log st) ->
                              evs_all (Qop r st (OInvoke s p)) new (st_log st)).
    { intros new. apply evs_all_impl. intros lb ev Hev. unfold Qop. apply EvOK_op. exact Hev. }
    destruct (eval cfg b du (eval_fuel st1) (TLeaves s (sig_build_seq (ii_sig p))) st1) as [[built|e|a] st2];
      cbn [fst snd] in *.
    2:{ split; [apply (w_CI _ _ _ _ _ _ W2)|]. destruct N2 as (new & En & An). rewrite L1 in *.
        exists new. split; [exact En|apply TOQ; exact An]. }
    2:{ split; [apply (w_CI _ _ _ _ _ _ W2)|]. destruct N2 as (new & En & An). rewrite L1 in *.
        exists new. split; [exact En|apply TOQ; exact An]. }
    cbv zeta. rewrite (run_fn_eq cfg bt du Hdry).
    set (f := ii_fn p). set (e := get_count st2 f). set (args := place (sig_order (ii_sig p)) built).
    set (st3 := add_event (EExec f e RoleInv args (b f e)) (bump_count f (set_clock st2 (st_clock st2 + du f e)%N))).
    assert (SND : snd (let (o, e0) := (b f e, e) in
                       match o with
                       | OOk _ => (VOk, st3)
                       | OErr => (VErr {| e_links := []; e_root := RUser f e0 |}, st3)
                       | OPanic => if cfg_recover cfg then (VErr {| e_links := []; e_root := RPanic f e0 |}, st3)
                                   else (VAbort (APanicked f e0), st3)
                       end) = st3).
    { destruct (b f e); [reflexivity|reflexivity|destruct (cfg_recover cfg); reflexivity]. }
    rewrite SND.
    destruct N2 as (new & En & An). rewrite L1 in En, An.
    split.
    - (* CI after the invoked function ran *)
      eapply (CI_deq' bt st2 st3).
      + intros b0 k n Hn. eapply prov_range; [apply (Wld_SInv _ _ _ _ _ _ W2)|exact Hn].
      + repeat split.
      + intros g Hg. unfold LGs. change (st_log st3) with (EExec f e RoleInv args (b f e) :: st_log st2). apply succ_of_exec_other.
        intros ->. destruct Hfresh as [Hf _]. apply Hf.
        destruct E2 as (_ & _ & F2 & _). rewrite (P_Once.frame_fnsl _ _ F2) in Hg.
        unfold P_Once.fnsl in *. rewrite N1, D1 in Hg. exact Hg.
      + apply (w_CI _ _ _ _ _ _ W2).
    - exists (EExec f e RoleInv args (b f e) :: new). split.
      + change (st_log st3) with (EExec f e RoleInv args (b f e) :: st_log st2). rewrite En. reflexivity.
      + cbn [evs_all]. split; [|apply TOQ; exact An].
        unfold Qop. intros c Hc. cbn [chk_exec_event find_consumer] in Hc. fold f in Hc. rewrite Nat.eqb_refl in Hc.
        cbn [cn_sig] in Hc. rewrite <- En in Hc.
        refine (exec_event_ok bt r (st_log st) NO nd st2 (mkCons (ii_sig p) s None) built args W2 _ eq_refl _ c Hc).
        * exact Hnoopt.
        * cbn [cn_sig cn_view cn_self]. apply Po2. exact I.
  Qed.

  (* ---------- an accepted Provide ---------- *)

  Lemma nth_snoc_other : forall (A : Type) (l : list A) (x d : A) i, i <> length l -> nth i (l ++ [x]) d = nth i l d.
  Proof.
    intros A l x d i H. rewrite nth_snoc.
    destruct (i <? length l) eqn:E1; [reflexivity|].
    apply Nat.eqb_neq in H. rewrite H. apply Nat.ltb_ge in E1. symmetry. apply nth_overflow. exact E1.
  Qed.

  Lemma provide_ok_inv : forall st s0 p st',
    SInv st -> s0 < length (st_scopes st) ->
    provide cfg st s0 p = (VOk, st') ->
    wf_sig2 (pi_sig p) = true -> (NO = true -> noopt_sig (pi_sig p) = true) ->
    P_Once.fresh st (pi_fn p) ->
    SI NO st /\ UI st /\ CI bt st -> SI NO st' /\ UI st' /\ CI bt st'.
  Proof.
    intros st s0 p st' HS Hs0 E Hwf Hno Hfresh (HSI & HUI & HCI).
    pose proof (provide_target_lt st s0 p HS Hs0) as Hs.
    destruct (provide_ok_shape cfg st s0 p st' Hs E) as (Hn & Hd & _ & _ & _ & _ & Hprov & _ & Hdup & _).
    pose proof (P_Once.provide_spec cfg st s0 p) as Hspec. rewrite E in Hspec. cbn [snd fst] in Hspec.
    destruct Hspec as ((_ & _ & HL & _ & Hscore) & _ & _).
    set (s := if pi_export p then 0 else s0) in *.
    set (N := length (st_nodes st)) in *.
    destruct (dup_check_false _ _ _ Hdup) as [Hnd Hfree].
    assert (Hold : forall n, n <> N -> get_node st' n = get_node st n).
    { intros n Hne. unfold get_node. rewrite Hn. apply nth_snoc_other. exact Hne. }
    assert (Hnew : get_node st' N = P_Once.new_node s0 p) by (unfold get_node; rewrite Hn; apply nth_middle).
    assert (GD : forall d, get_dec st' d = get_dec st d) by (intros d; unfold get_dec; rewrite Hd; reflexivity).
    assert (HPA : forall b0 k, providers_at st' b0 k =
               if Nat.eqb b0 s && memb key_eqb k (sig_keys (pi_sig p)) then providers_at st b0 k ++ [N]
               else providers_at st b0 k).
    { intros b0 k. unfold providers_at. rewrite Hprov. destruct (Nat.eqb_spec b0 s) as [->|Hne]; cbn [andb]; [|reflexivity].
      rewrite alookup_list_fold_add_provider_eq by apply dedup_first_NoDup. rewrite memb_dedup_first. reflexivity. }
    assert (Hsuccnew : succ_of (LGs st') (pi_fn p) = None).
    { unfold LGs. rewrite HL. apply succ_of_none_succb. apply P_Once.succb_nexec. apply Hfresh. }
    split; [|split].
    - destruct HSI as [A1 A2 A3 A4 A5]. constructor.
      + intros n. destruct (Nat.eq_dec n N) as [->|Hne]; [rewrite Hnew; exact Hwf|rewrite Hold by exact Hne; apply A1].
      + intros n. destruct (Nat.eq_dec n N) as [->|Hne]; [rewrite Hnew; exact Hnd|rewrite Hold by exact Hne; apply A2].
      + intros n HN. destruct (Nat.eq_dec n N) as [->|Hne]; [rewrite Hnew; apply Hno; exact HN|rewrite Hold by exact Hne; apply A3; exact HN].
      + intros d. rewrite GD. apply A4.
      + intros d. rewrite GD. apply A5.
    - intros b0 k n1 n2 Hk. rewrite HPA.
      destruct (Nat.eqb b0 s && memb key_eqb k (sig_keys (pi_sig p))) eqn:Ec; [|apply HUI; exact Hk].
      apply andb_true_iff in Ec as [Eb Em]. apply Nat.eqb_eq in Eb. subst b0. apply memb_key_In in Em.
      pose proof (sig_keys_group0 _ _ Hwf Em Hk) as Hsk. destruct (Hfree k Hsk) as [_ Hemp].
      unfold providers_at at 1 2. rewrite Hemp. cbn [app]. intros [<-|[]] [<-|[]]. reflexivity.
    - revert HCI. apply CI_gen.
      + intros b0. apply P_Once.score_scaches. apply Hscore.
      + rewrite Hn, app_length. lia.
      + rewrite Hd. lia.
      + intros n Hlt. fold N in Hlt. rewrite Hold by lia. split; [reflexivity|]. split; [reflexivity|].
        unfold LGs. rewrite HL. reflexivity.
      + intros b0 k n Hin Hge. fold N in Hge. rewrite HPA in Hin.
        assert (n = N).
        { destruct (Nat.eqb b0 s && memb key_eqb k (sig_keys (pi_sig p))).
          - apply in_app_or in Hin as [Hin|[<-|[]]]; [|reflexivity]. apply (prov_range st b0 k n HS) in Hin. fold N in Hin. lia.
          - apply (prov_range st b0 k n HS) in Hin. fold N in Hin. lia. }
        subst n. rewrite Hnew. exact Hsuccnew.
      + intros d _. rewrite GD. split; [reflexivity|]. split; [tauto|]. unfold LGs. rewrite HL. reflexivity.
      + intros d Hge Hlt. rewrite Hd in Hlt. lia.
      + intros b0 k. rewrite HPA. destruct (Nat.eqb b0 s && memb key_eqb k (sig_keys (pi_sig p))).
        * exists [N]. split; [reflexivity|]. intros n [<-|[]]. fold N. lia.
        * exists []. rewrite app_nil_r. split; [reflexivity|intros n []].
      + intros b0 k n Hin. eapply prov_range; eauto.
  Qed.

  (* ---------- an accepted Decorate ---------- *)

  Lemma decorate_ok_inv : forall st s p st',
    SInv st -> s < length (st_scopes st) ->
    decorate st s p = (VOk, st') ->
    wf_sig2 (di_sig p) = true -> (NO = true -> noopt_sig (di_sig p) = true) ->
    SI NO st /\ UI st /\ CI bt st -> SI NO st' /\ UI st' /\ CI bt st'.
  Proof.
    intros st s p st' HS Hs E Hwf0 Hno (HSI & HUI & HCI).
    assert (Hwf : wf_dsig2 (di_sig p) = true).
    { unfold wf_dsig2. rewrite Hwf0. cbn [andb]. unfold decorate in E.
      destruct (nodupb key_eqb (dec_keys (di_sig p))); [reflexivity|]. cbn [negb orb] in E. discriminate E. }
    destruct (decorate_ok_shape st s p st' Hs E) as (Hn & Hd & _ & Hprov & _ & _ & _).
    pose proof (P_Once.decorate_spec st s p) as Hspec. rewrite E in Hspec. cbn [snd fst] in Hspec.
    destruct Hspec as (_ & _ & HL & Hsc & _).
    set (D := length (st_decs st)) in *.
    assert (GN : forall n, get_node st' n = get_node st n) by (intros n; unfold get_node; rewrite Hn; reflexivity).
    assert (Hold : forall d, d <> D -> get_dec st' d = get_dec st d).
    { intros d Hne. unfold get_dec. rewrite Hd. apply nth_snoc_other. exact Hne. }
    assert (Hnew : get_dec st' D = mkDNode (di_fn p) (di_sig p) s DReady (di_cb p)) by (unfold get_dec; rewrite Hd; apply nth_middle).
    split; [|split].
    - destruct HSI as [A1 A2 A3 A4 A5]. constructor.
      + intros n. rewrite GN. apply A1.
      + intros n. rewrite GN. apply A2.
      + intros n. rewrite GN. apply A3.
      + intros d. destruct (Nat.eq_dec d D) as [->|Hne]; [rewrite Hnew; exact Hwf|rewrite Hold by exact Hne; apply A4].
      + intros d HN. destruct (Nat.eq_dec d D) as [->|Hne]; [rewrite Hnew; apply Hno; exact HN|rewrite Hold by exact Hne; apply A5; exact HN].
    - intros b0 k n1 n2 Hk. unfold providers_at. rewrite Hprov. apply HUI. exact Hk.
    - revert HCI. apply CI_gen.
      + intros b0. apply Hsc.
      + rewrite Hn. lia.
      + rewrite Hd, app_length. lia.
      + intros n _. rewrite GN. split; [reflexivity|]. split; [reflexivity|]. unfold LGs. rewrite HL. reflexivity.
      + intros b0 k n Hin Hge. exfalso. unfold providers_at in Hin. rewrite Hprov in Hin.
        apply (prov_range st b0 k n HS) in Hin. lia.
      + intros d Hlt. fold D in Hlt. rewrite Hold by lia. split; [reflexivity|]. split; [tauto|].
        unfold LGs. rewrite HL. reflexivity.
      + intros d Hge Hlt. fold D in Hge. rewrite Hd, app_length in Hlt. cbn in Hlt. fold D in Hlt.
        assert (d = D) by lia. subst d. rewrite Hnew. discriminate.
      + intros b0 k. exists []. rewrite app_nil_r. split; [|intros n []]. unfold providers_at. rewrite Hprov. reflexivity.
      + intros b0 k n Hin. eapply prov_range; eauto.
  Qed.

  (* ---------- the invariant of reachable states ---------- *)

  Definition hopt (h : history) : Prop := NO = true -> has_opt h = false.
  Definition hdec (h : history) : Prop := NDh = true -> has_dec h = false.

  Definition GAllowed (c : nat) : Prop := c = 112 \/ c = 132 \/ (c = 120 /\ NO = false /\ NDh = false).

  Definition MH (st : state) (h : history) : Prop :=
    P_Once.GH st h /\ P_Term.TH st h /\ SI NO st /\ UI st /\ CI bt st /\
    wf_strict h = true /\ hopt h /\ (exists r, RegRel st r) /\ hdec h /\ (NDh = true -> st_decs st = []).

  Lemma MH_wf : forall st o h, MH st (o :: h) -> SInv st /\ op_ok (length (st_scopes st)) o = true.
  Proof.
    intros st o h (_ & (HRI & Hws & _) & _). split; [apply HRI|].
    cbn [wf_scopes_from] in Hws. apply andb_true_iff in Hws. tauto.
  Qed.

  Lemma hopt_op : forall o h, hopt (o :: h) -> (NO = true -> noopt_sig (op_sig o) = true) /\ hopt h.
  Proof.
    intros o h H. unfold hopt in *. cbn [has_opt existsb] in H. split; intros HN; specialize (H HN);
      apply orb_false_iff in H as [H1 H2]; [apply negb_false_iff in H1; exact H1|exact H2].
  Qed.

  Lemma MH_step : forall st o h, MH st (o :: h) -> MH (snd (step cfg b du st o)) h.
  Proof.
    intros st o h HM. pose proof (MH_wf st o h HM) as [HS Hok].
    destruct HM as (HG & HT & HSI & HUI & HCI & Hws & Hho & (r & HR) & Hhd & Hnodec).
    cbn [wf_strict forallb] in Hws. apply andb_true_iff in Hws as [Hso Hws].
    destruct (hopt_op o h Hho) as [Hno Hho'].
    assert (HG' := P_Once.GH_step cfg b du Hdry st o h HG).
    assert (HT' := proj1 (TH_step cfg b du st o h HT)).
    assert (HR' := RegRel_step cfg b du st o r [] HS Hok HR).
    assert (KEY : SI NO (snd (step cfg b du st o)) /\ UI (snd (step cfg b du st o)) /\ CI bt (snd (step cfg b du st o))).
    { destruct o as [p|s p|s p|s p|k s f]; cbn [step snd op_strict op_sig op_ok] in *.
      - destruct (P_Once.new_scope_spec st p) as (N & D & _ & L & S).
        apply (inv_transfer bt NO st); auto.
        + intros b0. apply P_Once.score_scaches. apply S.
        + intros b0. apply S.
      - apply Nat.ltb_lt in Hok.
        destruct (provide cfg st s p) as [[|e|a] st'] eqn:E; cbn [snd].
        + eapply provide_ok_inv; eauto. destruct HG as (_ & _ & Hfr). apply Hfr. left; reflexivity.
        + apply provide_rejected_frame_gen in E. destruct E as (EN & ED & _ & _ & EL & _ & ESC).
          apply (inv_transfer bt NO st); auto.
          * intros b0. destruct (ESC b0) as (_ & _ & _ & _ & _ & E1 & E2 & E3 & E4 & _).
            unfold P_Once.scaches. rewrite E1, E2, E3, E4. reflexivity.
          * intros b0. destruct (ESC b0) as (_ & _ & E1 & _). symmetry. exact E1.
        + exfalso. eapply provide_never_aborts; eauto.
      - apply Nat.ltb_lt in Hok.
        destruct (decorate st s p) as [[|e|a] st'] eqn:E; cbn [snd].
        + eapply decorate_ok_inv; eauto.
        + apply decorate_rejected_frame in E. subst st'. auto.
        + exfalso. eapply decorate_never_aborts; eauto.
      - destruct HG as (Hgood & _ & Hfr). destruct HT as (HRI & _).
        destruct (invoke_analysis st s p r HRI Hgood (Hfr _ (or_introl eq_refl)) HR HSI HUI HCI Hso Hno) as [C _].
        pose proof (invoke_skel cfg b du st s p) as Esk. symmetry in Esk.
        split; [eapply SI_skel; eauto|]. split; [eapply UI_skel; eauto|exact C].
      - auto. }
    destruct KEY as (A & B & C).
    split; [exact HG'|]. split; [exact HT'|]. split; [exact A|]. split; [exact B|]. split; [exact C|].
    split; [exact Hws|]. split; [exact Hho'|]. split; [eexists; exact HR'|].
    assert (Hhd' : hdec h /\ (NDh = true -> is_decorate o = false)).
    { unfold hdec in *. cbn [has_dec existsb] in Hhd. split; intros HN; specialize (Hhd HN); apply orb_false_iff in Hhd; tauto. }
    destruct Hhd' as [Hhd' Hnd]. split; [exact Hhd'|].
    intros HN. specialize (Hnd HN). specialize (Hnodec HN).
    destruct o as [p|s p|s p|s p|k s f]; cbn [step snd is_decorate] in *; try discriminate.
    - destruct (P_Once.new_scope_spec st p) as (_ & D & _). rewrite D. exact Hnodec.
    - destruct (P_Once.provide_spec cfg st s p) as ((D & _) & _). rewrite D. exact Hnodec.
    - pose proof (invoke_skel cfg b du st s p) as Esk. apply skel_eq_fields in Esk. destruct Esk.
      apply length_zero_iff_nil. rewrite sf_dlen, Hnodec. reflexivity.
    - exact Hnodec.
  Qed.

  Lemma MH_init : forall h, wf_scopes h = true -> wf_keys h = true -> wf_strict h = true ->
    P_Once.wf_fns h = true -> hopt h -> hdec h -> MH init_state h.
  Proof.
    intros h Hs Hk Hst Hf Ho Hhd.
    assert (GN : forall n, get_node init_state n = dummy_cnode) by (intros [|n]; reflexivity).
    assert (GD : forall d, get_dec init_state d = dummy_dnode) by (intros [|d]; reflexivity).
    assert (GS : forall i, get_scope init_state i = empty_scope None) by (intros [|[|i]]; reflexivity).
    split; [apply P_Once.GH_init; exact Hf|]. split; [split; [apply RI_init|split; assumption]|].
    split; [|split; [|split; [|split; [exact Hst|split; [exact Ho|split; [exists reg0; apply RegRel_init|split; [exact Hhd|reflexivity]]]]]]].
    - constructor; intros x; rewrite ?GN, ?GD; try reflexivity; constructor.
    - intros b0 k n1 n2 _. unfold providers_at. rewrite GS. intros [].
    - constructor.
      + intros b0 k a. rewrite GS. discriminate.
      + intros b0 k a. rewrite GS. discriminate.
      + intros b0 k. unfold providers_at. rewrite GS. constructor.
      + intros b0 k l. rewrite GS. discriminate.
      + intros d k ks fl Hd. cbn in Hd. lia.
  Qed.

  (* ---------- the obligation of one operation ---------- *)

  Lemma MH_obligation : forall st o h r new, MH st (o :: h) -> RegRel st r ->
    st_log (snd (step cfg b du st o)) = new ++ st_log st ->
    forall c, In c (walk_events (chk_exec_event bt r (LG (st_log st)) o) (LG (st_log st)) (rev new)) -> GAllowed c.
  Proof.
    intros st o h r new HM HR L.
    destruct HM as (HG & HT & HSI & HUI & HCI & Hws & Hho & _ & _ & Hnodec).
    cbn [wf_strict forallb] in Hws. apply andb_true_iff in Hws as [Hso _].
    destruct (hopt_op o h Hho) as [Hno _].
    assert (NIL : st_log (snd (step cfg b du st o)) = st_log st ->
                  forall c, In c (walk_events (chk_exec_event bt r (LG (st_log st)) o) (LG (st_log st)) (rev new)) -> GAllowed c).
    { intros E. rewrite E in L. assert (new = []) by (apply (app_inv_tail (st_log st)); exact (eq_sym L)).
      subst new. intros c []. }
    destruct o as [p|s p|s p|s p|k s f]; cbn [step snd op_strict op_sig] in *.
    - apply NIL. apply P_Events.new_scope_log.
    - apply NIL. apply P_Events.provide_log.
    - apply NIL. apply P_Events.decorate_log.
    - destruct HG as (Hgood & _ & Hfr). destruct HT as (HRI & _).
      destruct (invoke_analysis st s p r HRI Hgood (Hfr _ (or_introl eq_refl)) HR HSI HUI HCI Hso Hno) as [_ (new' & En & An)].
      assert (new' = new) by (rewrite L in En; apply app_inv_tail in En; congruence). subst new'.
      intros c Hc. pose proof (walk_events_ok (Allowed NO (is_nil (r_decs r))) _ new (st_log st) An c Hc) as HA.
      assert (HNd : is_nil (r_decs r) = false -> NDh = false).
      { intros Hnil. destruct NDh eqn:E; [|reflexivity]. rewrite (rr_decs HR), (Hnodec eq_refl) in Hnil. discriminate Hnil. }
      destruct HA as [[-> _]|[[-> _]|(-> & H1 & H2)]]; [left; reflexivity|right; left; reflexivity|].
      right; right. auto.
    - apply NIL. reflexivity.
  Qed.

  (* when the whole history is decorator-free nothing at all is reported *)
  Lemma MH_obligation_nodec : forall st o h r new, MH st (o :: h) -> RegRel st r ->
    st_log (snd (step cfg b du st o)) = new ++ st_log st ->
    forall c, In c (walk_events (chk_exec_event bt r (LG (st_log st)) o) (LG (st_log st)) (rev new)) ->
    NDh = true -> False.
  Proof.
    intros st o h r new HM HR L c Hc HN.
    destruct (MH_obligation st o h r new HM HR L c Hc) as [->|[->|(_ & _ & H)]]; [| |congruence].
    all: destruct HM as (HG & HT & HSI & HUI & HCI & Hws & Hho & _ & _ & Hnodec).
    all: cbn [wf_strict forallb] in Hws; apply andb_true_iff in Hws as [Hso _].
    all: destruct (hopt_op o h Hho) as [Hno _].
    all: destruct o as [p|s p|s p|s p|k s f]; cbn [step snd op_strict op_sig] in *.
    all: try (assert (new = []) by
               (apply (app_inv_tail (st_log st));
                first [rewrite P_Events.new_scope_log in L|rewrite P_Events.provide_log in L|rewrite P_Events.decorate_log in L|idtac];
                exact (eq_sym L)); subst new; destruct Hc).
    all: destruct HG as (Hgood & _ & Hfr); destruct HT as (HRI & _).
    all: destruct (invoke_analysis st s p r HRI Hgood (Hfr _ (or_introl eq_refl)) HR HSI HUI HCI Hso Hno) as [_ (new' & En & An)].
    all: assert (new' = new) by (rewrite L in En; apply app_inv_tail in En; congruence); subst new'.
    all: pose proof (walk_events_ok (Allowed NO (is_nil (r_decs r))) _ new (st_log st) An _ Hc) as HA.
    all: assert (Hnil : is_nil (r_decs r) = true) by (rewrite (rr_decs HR), (Hnodec HN); reflexivity).
    all: rewrite Hnil in HA; destruct HA as [[_ H]|[[_ H]|(_ & _ & H)]]; discriminate.
  Qed.
End Assembly.

(* ================================================================== *)
(* Part 12 : the theorems                                               *)
(* ================================================================== *)

Theorem prov_refines_gen : forall cfg bt du h,
  wf_scopes h = true -> wf_keys h = true -> wf_strict h = true -> P_Once.wf_fns h = true ->
  cfg_dry cfg = false ->
  forall i c, In (i, c) (chk_prov bt h (map obs_of (run cfg (beh_of bt) du h))) ->
    c = 112 \/ c = 132 \/ (c = 120 /\ has_opt h = true /\ has_dec h = true).
Proof.
  intros cfg bt du h Hs Hk Hst Hf Hdry i c Hin.
  set (NO := negb (has_opt h)). set (ND := negb (has_dec h)).
  assert (HA : GAllowed NO ND c).
  { unfold chk_prov, run in Hin. revert Hin.
    change (@nil lentry) with (log_of_events (rev (st_log init_state))).
    apply (walk_run_from_reg cfg (beh_of bt) du (MH bt NO ND)
             (fun r log o ob => walk_events (chk_exec_event bt r log o) log (oo_events ob)) (GAllowed NO ND)).
    - intros st o h' HM. apply (MH_step cfg bt du Hdry NO ND); assumption.
    - intros st o h' HM. eapply MH_wf; eauto.
    - intros st o h' r new HM HR L c' Hc'. cbn [oo_events] in Hc'.
      exact (MH_obligation cfg bt du Hdry NO ND st o h' r new HM HR L c' Hc').
    - apply MH_init; auto.
      + unfold hopt, NO. intros H. apply negb_true_iff in H. exact H.
      + unfold hdec, ND. intros H. apply negb_true_iff in H. exact H.
    - apply RegRel_init. }
  destruct HA as [->|[->|(-> & HN & HD)]]; auto.
  right; right. split; [reflexivity|]. unfold NO in HN. unfold ND in HD.
  apply negb_false_iff in HN. apply negb_false_iff in HD. auto.
Qed.
Print Assumptions prov_refines_gen.

(* without decorators nothing is reported at all *)
Corollary prov_refines_nodec : forall cfg bt du h,
  wf_scopes h = true -> wf_keys h = true -> wf_strict h = true -> P_Once.wf_fns h = true ->
  cfg_dry cfg = false -> has_dec h = false ->
  chk_prov bt h (map obs_of (run cfg (beh_of bt) du h)) = [].
Proof.
  intros cfg bt du h Hs Hk Hst Hf Hdry Hnd. apply viols_nil. intros i c Hin.
  set (NO := negb (has_opt h)). set (ND := negb (has_dec h)).
  assert (HA : (fun _ : nat => False) c); [|exact HA].
  unfold chk_prov, run in Hin. revert Hin.
  change (@nil lentry) with (log_of_events (rev (st_log init_state))).
  apply (walk_run_from_reg cfg (beh_of bt) du (MH bt NO ND)
           (fun r log o ob => walk_events (chk_exec_event bt r log o) log (oo_events ob)) (fun _ => False)).
  - intros st o h' HM. apply (MH_step cfg bt du Hdry NO ND); assumption.
  - intros st o h' HM. eapply MH_wf; eauto.
  - intros st o h' r new HM HR L c' Hc'. cbn [oo_events] in Hc'.
    pose proof (MH_obligation_nodec cfg bt du Hdry NO ND st o h' r new HM HR L c' Hc') as H.
    apply H. unfold ND. rewrite Hnd. reflexivity.
  - apply MH_init; auto.
    + unfold hopt, NO. intros H. apply negb_true_iff in H. exact H.
    + unfold hdec, ND. intros H. apply negb_true_iff in H. exact H.
  - apply RegRel_init.
Qed.
Print Assumptions prov_refines_nodec.

(* no optional single parameter: exactly the D12 codes *)
Corollary prov_refines_strict : forall cfg bt du h,
  wf_scopes h = true -> wf_keys h = true -> wf_strict h = true -> P_Once.wf_fns h = true ->
  cfg_dry cfg = false -> has_opt h = false ->
  forall i c, In (i, c) (chk_prov bt h (map obs_of (run cfg (beh_of bt) du h))) ->
    c = 112 \/ c = 132.
Proof.
  intros cfg bt du h Hs Hk Hst Hf Hdry Hno i c Hin.
  destruct (prov_refines_gen cfg bt du h Hs Hk Hst Hf Hdry i c Hin) as [H|[H|(_ & H1 & _)]]; auto. congruence.
Qed.
Print Assumptions prov_refines_strict.

(* ---- the invoked function runs exactly once; chk_C01 *)

Definition inv_ev (f : fnid) (ev : event) : bool :=
  match ev with EExec f' _ RoleInv _ _ => Nat.eqb f f' | _ => false end.

Lemma inv_execs_rev : forall f l, inv_execs f (rev l) = count_occ_b (inv_ev f) l.
Proof. intros f l. unfold inv_execs. apply (P_Once.count_occ_b_rev (inv_ev f) l). Qed.

Lemma inv_count_le : forall f l, count_occ_b (inv_ev f) l <= P_Once.nexec f l.
Proof.
  intros f l. unfold P_Once.nexec. induction l as [|ev l IH]; cbn [count_occ_b]; [lia|].
  destruct ev as [f' e rl a o|g c t]; cbn [inv_ev P_Once.exec_of]; [|lia].
  rewrite (Nat.eqb_sym f' f). destruct rl; destruct (Nat.eqb f f'); lia.
Qed.

Lemma nexec_app : forall f l1 l2, P_Once.nexec f (l1 ++ l2) = P_Once.nexec f l1 + P_Once.nexec f l2.
Proof. intros. apply P_Once.count_occ_b_app. Qed.

Lemma nexec_In : forall f e rl a o l, In (EExec f e rl a o) l -> 1 <= P_Once.nexec f l.
Proof.
  intros f e rl a o l H. apply in_split in H as (l1 & l2 & ->). rewrite nexec_app, P_Once.nexec_cons.
  cbn [P_Once.exec_of]. rewrite Nat.eqb_refl. lia.
Qed.

Section Once.
  Variable cfg : config.
  Variable bv : beh.
  Variable du : dur.
  Hypothesis Hdry : cfg_dry cfg = false.

  Lemma invoke_tail_once : forall st st1 s p new,
    st_log st1 = st_log st -> st_nodes st1 = st_nodes st -> st_decs st1 = st_decs st ->
    P_Once.refs_ok st1 -> P_Once.inv_once st1 -> P_Once.fresh st (ii_fn p) ->
    let r := match eval cfg bv du (eval_fuel st1) (TLeaves s (sig_build_seq (ii_sig p))) st1 with
             | (Fail e, st2) => (VErr (wrap LArgsFailed e), st2)
             | (Abort a, st2) => (VAbort a, st2)
             | (Done built, st2) =>
                 let args := place (sig_order (ii_sig p)) built in
                 match run_fn cfg bv du RoleInv (ii_fn p) args st2 with
                 | (OOk _, _, st3) => (VOk, st3)
                 | (OErr, e, st3) => (VErr (mkErr [] (RUser (ii_fn p) e)), st3)
                 | (OPanic, e, st3) =>
                     if cfg_recover cfg then (VErr (mkErr [] (RPanic (ii_fn p) e)), st3)
                     else (VAbort (APanicked (ii_fn p) e), st3)
                 end
             end in
    st_log (snd r) = new ++ st_log st ->
    chk_invoked_once false (OInvoke s p) (mkOObs (overdict_of (fst r)) (rev new)) = [].
  Proof.
    intros st st1 s p new L1 N1 D1 Hrefs Honce [Hf1 Hf2].
    pose proof (P_Once.eval_once cfg bv du Hdry (eval_fuel st1) (TLeaves s (sig_build_seq (ii_sig p))) st1 Hrefs I Honce) as [_ R2].
    pose proof (P_Once.eval_frame cfg bv du (eval_fuel st1) (TLeaves s (sig_build_seq (ii_sig p))) st1) as F2.
    pose proof (P_Once.eval_fail_root cfg bv du (eval_fuel st1) (TLeaves s (sig_build_seq (ii_sig p))) st1) as FR.
    destruct (eval cfg bv du (eval_fuel st1) (TLeaves s (sig_build_seq (ii_sig p))) st1) as [[built|e|a] st2];
      cbn [fst snd] in *; cbv zeta.
    all: destruct (P_Once.frame_log _ _ F2) as [new2 E2].
    all: assert (Hz : P_Once.nexec (ii_fn p) new2 = 0).
    all: try (destruct R2 as (_ & _ & _ & _ & R2); specialize (R2 (ii_fn p));
              rewrite N1, D1 in R2; specialize (R2 Hf1); rewrite E2, nexec_app in R2; lia).
    all: assert (Hc : count_occ_b (inv_ev (ii_fn p)) new2 = 0) by (pose proof (inv_count_le (ii_fn p) new2); lia).
    - (* the function runs *)
      unfold run_fn. rewrite Hdry. cbn [fst snd].
      remember (ii_fn p) as f eqn:Ef. set (e := get_count st2 f).
      set (ev := EExec f e RoleInv (place (sig_order (ii_sig p)) built) (bv f e)).
      assert (SND : forall X Y Z : verdict,
                snd (match bv f e with
                     | OOk _ => (X, add_event ev (bump_count f (set_clock st2 (st_clock st2 + du f e)%N)))
                     | OErr => (Y, add_event ev (bump_count f (set_clock st2 (st_clock st2 + du f e)%N)))
                     | OPanic => (Z, add_event ev (bump_count f (set_clock st2 (st_clock st2 + du f e)%N)))
                     end) = add_event ev (bump_count f (set_clock st2 (st_clock st2 + du f e)%N)))
        by (intros; destruct (bv f e); reflexivity).
      intros L.
      assert (Hnew : new = ev :: new2).
      { assert (E : st_log (add_event ev (bump_count f (set_clock st2 (st_clock st2 + du f e)%N))) = new ++ st_log st).
        { destruct (bv f e); [exact L|exact L|destruct (cfg_recover cfg); exact L]. }
        change (st_log (add_event ev (bump_count f (set_clock st2 (st_clock st2 + du f e)%N)))) with (ev :: st_log st2) in E.
        rewrite E2, L1 in E. change (ev :: new2 ++ st_log st) with ((ev :: new2) ++ st_log st) in E.
        apply app_inv_tail in E. symmetry. exact E. }
      subst new. unfold chk_invoked_once. cbn [oo_events oo_verdict]. rewrite <- Ef. rewrite inv_execs_rev.
      cbn [count_occ_b]. rewrite Hc. replace (inv_ev f ev) with true by (unfold ev; cbn [inv_ev]; rewrite Nat.eqb_refl; reflexivity). cbn [Nat.add].
      destruct (bv f e); [reflexivity| |destruct (cfg_recover cfg)]; cbn [fst overdict_of e_links e_root map rkind_of];
        rewrite ?Nat.eqb_refl; reflexivity.
    - intros L. rewrite E2, L1 in L. apply app_inv_tail in L. subst new2.
      unfold chk_invoked_once. cbn [oo_events oo_verdict fst overdict_of wrap e_links map lkind_of]. rewrite inv_execs_rev, Hc. reflexivity.
    - intros L. rewrite E2, L1 in L. apply app_inv_tail in L. subst new2.
      unfold chk_invoked_once. cbn [oo_events oo_verdict fst]. rewrite inv_execs_rev, Hc.
      destruct a as [g x|c|]; cbn [overdict_of]; try reflexivity.
      destruct (Nat.eqb_spec g (ii_fn p)) as [->|Hne]; [|reflexivity].
      exfalso. destruct FR as (new' & En & Hok). rewrite E2 in En. apply app_inv_tail in En. subst new'.
      cbn [P_Once.res_ok P_Once.abort_ok] in Hok. destruct Hok as [(l1 & r0 & a0 & l2 & -> & _) _].
      pose proof (nexec_In (ii_fn p) x r0 a0 OPanic (l1 ++ EExec (ii_fn p) x r0 a0 OPanic :: l2)) as Hge.
      rewrite Hz in Hge. assert (1 <= 0) by (apply Hge; apply in_elt). lia.
  Qed.

  Lemma invoke_once : forall st s p new,
    P_Once.good st -> P_Once.fresh st (ii_fn p) ->
    st_log (snd (invoke cfg bv du st s p)) = new ++ st_log st ->
    chk_invoked_once false (OInvoke s p) (mkOObs (overdict_of (fst (invoke cfg bv du st s p))) (rev new)) = [].
  Proof.
    intros st s p new (_ & _ & Hrefs & Honce) Hfresh. unfold invoke.
    assert (NIL : forall v, st_log st = new ++ st_log st ->
              match overdict_of v with OVOk | OVErr [] (QUser _ _) | OVErr [] (QPanic _ _) | OVPanicked _ _ => False | _ => True end ->
              chk_invoked_once false (OInvoke s p) (mkOObs (overdict_of v) (rev new)) = []).
    { intros v L Hv. assert (new = []) by (apply (app_inv_tail (st_log st)); exact (eq_sym L)). subst new.
      unfold chk_invoked_once. cbn [oo_events oo_verdict rev inv_execs count_occ_b].
      destruct (overdict_of v) as [|[|l ls] [| | | |? ?|? ?|]|? ?| |]; try reflexivity; destruct Hv. }
    destruct (shallow_missing st s (sig_leaves (ii_sig p))) as [|k0 ks].
    2:{ cbn [fst snd]. intros L. apply NIL; [exact L|exact I]. }
    destruct (s_verified (get_scope st s)).
    - apply (invoke_tail_once st st s p new); auto.
    - destruct (is_acyclic (scope_graph st s)) as [[[|] x]|].
      + apply (invoke_tail_once st (upd_scope st s (sc_set_verified true)) s p new); auto.
        eapply P_Once.refs_ok_frame; [|exact Hrefs]. apply P_Once.frame_upd_scope. intros c; split; reflexivity.
      + cbn [fst snd]. intros L. apply NIL; [exact L|exact I].
      + cbn [fst snd]. intros L. apply NIL; [exact L|exact I].
  Qed.
End Once.

Theorem chk_invoked_once_nil : forall cfg bv du h,
  P_Once.wf_fns h = true -> cfg_dry cfg = false ->
  walk (fun _ _ o ob => chk_invoked_once (cfg_dry cfg) o ob) 0 reg0 [] h (map obs_of (run cfg bv du h)) = [].
Proof.
  intros cfg bv du h Hf Hdry. rewrite Hdry. apply viols_nil. intros i c. unfold run.
  change (@nil lentry) with (log_of_events (rev (st_log init_state))).
  apply (P_Once.walk_run_from cfg bv du P_Once.GH _ (fun _ => False)).
  - intros st o h' H. apply P_Once.GH_step; assumption.
  - intros st o h' r new H L c' Hc.
    assert (NIL : st_log (snd (step cfg bv du st o)) = st_log st -> new = []).
    { intros E. rewrite E in L. apply (app_inv_tail (st_log st)). exact (eq_sym L). }
    destruct o as [p|s p|s p|s p|k s f]; cbn [step snd fst] in *.
    + assert (new = []) by (apply NIL; apply P_Events.new_scope_log). subst new. cbn in Hc. destruct Hc.
    + assert (new = []) by (apply NIL; apply P_Events.provide_log). subst new. cbn in Hc. destruct Hc.
    + assert (new = []) by (apply NIL; apply P_Events.decorate_log). subst new. cbn in Hc. destruct Hc.
    + destruct H as (Hgood & _ & Hfr).
      pose proof (invoke_once cfg bv du Hdry st s p new Hgood (Hfr _ (or_introl eq_refl)) L) as E.
      rewrite E in Hc. destruct Hc.
    + assert (new = []) by (apply NIL; reflexivity). subst new. cbn in Hc. destruct Hc.
  - apply P_Once.GH_init. exact Hf.
Qed.
Print Assumptions chk_invoked_once_nil.

(* C01 on model traces: only the recorded findings *)
Theorem chk_C01_refines : forall cfg bt du h,
  wf_scopes h = true -> wf_keys h = true -> wf_strict h = true -> P_Once.wf_fns h = true ->
  cfg_dry cfg = false ->
  forall i c, In (i, c) (chk_C01 cfg bt h (map obs_of (run cfg (beh_of bt) du h))) ->
    c = 112 \/ c = 132 \/ (c = 120 /\ has_opt h = true /\ has_dec h = true).
Proof.
  intros cfg bt du h Hs Hk Hst Hf Hdry i c Hin. unfold chk_C01 in Hin.
  apply in_app_or in Hin as [Hin|Hin].
  - eapply prov_refines_gen; eauto.
  - rewrite chk_invoked_once_nil in Hin by assumption. destruct Hin.
Qed.
Print Assumptions chk_C01_refines.

(* ================================================================== *)
(* Part 13 : final forms                                                *)
(* ================================================================== *)

Lemma wf_sig2_wf_sig : forall sg, wf_sig2 sg = true -> wf_sig sg = true.
Proof.
  intros sg H. unfold wf_sig2 in H. apply andb_true_iff in H as [H1 H2]. unfold wf_sig. apply andb_true_iff. split.
  - rewrite forallb_forall in *. intros l Hl. apply pleaf_ok2_leaf_ok. apply H1. exact Hl.
  - rewrite forallb_forall in *. intros q Hq. specialize (H2 q Hq). destruct q as [ks|ks fl]; [reflexivity|].
    cbn in *. apply andb_true_iff in H2. tauto.
Qed.

Lemma wf_strict_keys : forall h, wf_strict h = true -> wf_keys h = true.
Proof.
  intros h H. unfold wf_strict, wf_keys in *. rewrite forallb_forall in *. intros o Ho. specialize (H o Ho).
  destruct o as [p|s p|s p|s p|k s f]; cbn [op_strict op_keys_ok] in *; try reflexivity.
  - apply wf_sig2_wf_sig. exact H.
  - apply wf_sig2_wf_sig. exact H.
  - rewrite forallb_forall in *. intros l Hl. apply pleaf_ok2_leaf_ok. apply H. exact Hl.
Qed.

(* THE MAIN THEOREM.  On traces of the model the provenance checker reports
   only the codes of the recorded finding D12 (112, 132) and -- only for
   histories with BOTH an optional single parameter and a decorator -- code
   120 in the one situation exhibited by [Counterexamples.cex_opt_late] below.
   Code 123 is never reported. *)
Theorem prov_refines : forall cfg bt du h,
  wf_scopes h = true -> wf_strict h = true -> P_Once.wf_fns h = true -> cfg_dry cfg = false ->
  forall i c, In (i, c) (chk_prov bt h (map obs_of (run cfg (beh_of bt) du h))) ->
    c = 112 \/ c = 132 \/ (c = 120 /\ has_opt h = true /\ has_dec h = true).
Proof.
  intros cfg bt du h Hs Hst Hf Hdry. apply prov_refines_gen; auto. apply wf_strict_keys. exact Hst.
Qed.
Print Assumptions prov_refines.

(* without Decorate the provenance checker accepts every trace of the model *)
Theorem prov_refines_no_decorators : forall cfg bt du h,
  wf_scopes h = true -> wf_strict h = true -> P_Once.wf_fns h = true -> cfg_dry cfg = false ->
  has_dec h = false -> chk_prov bt h (map obs_of (run cfg (beh_of bt) du h)) = [].
Proof.
  intros cfg bt du h Hs Hst Hf Hdry. apply prov_refines_nodec; auto. apply wf_strict_keys. exact Hst.
Qed.
Print Assumptions prov_refines_no_decorators.

(* without optional single parameters: exactly D12 *)
Theorem prov_refines_no_optionals : forall cfg bt du h,
  wf_scopes h = true -> wf_strict h = true -> P_Once.wf_fns h = true -> cfg_dry cfg = false ->
  has_opt h = false ->
  forall i c, In (i, c) (chk_prov bt h (map obs_of (run cfg (beh_of bt) du h))) -> c = 112 \/ c = 132.
Proof.
  intros cfg bt du h Hs Hst Hf Hdry. apply prov_refines_strict; auto. apply wf_strict_keys. exact Hst.
Qed.
Print Assumptions prov_refines_no_optionals.

Theorem C01_refines : forall cfg bt du h,
  wf_scopes h = true -> wf_strict h = true -> P_Once.wf_fns h = true -> cfg_dry cfg = false ->
  forall i c, In (i, c) (chk_C01 cfg bt h (map obs_of (run cfg (beh_of bt) du h))) ->
    c = 112 \/ c = 132 \/ (c = 120 /\ has_opt h = true /\ has_dec h = true).
Proof.
  intros cfg bt du h Hs Hst Hf Hdry. apply chk_C01_refines; auto. apply wf_strict_keys. exact Hst.
Qed.
Print Assumptions C01_refines.

(* C08 is the provenance checker itself *)
Corollary C08_refines : forall cfg bt du h,
  wf_scopes h = true -> wf_strict h = true -> P_Once.wf_fns h = true -> cfg_dry cfg = false ->
  forall i c, In (i, c) (chk_C08 bt h (map obs_of (run cfg (beh_of bt) du h))) ->
    c = 112 \/ c = 132 \/ (c = 120 /\ has_opt h = true /\ has_dec h = true).
Proof. exact prov_refines. Qed.

(* C10 = provenance + C02 (which P_Term closed) *)
Corollary C10_refines : forall cfg bt du h,
  wf_scopes h = true -> wf_strict h = true -> P_Once.wf_fns h = true -> cfg_dry cfg = false ->
  forall i c, In (i, c) (chk_C10 bt h (map obs_of (run cfg (beh_of bt) du h))) ->
    c = 112 \/ c = 132 \/ (c = 120 /\ has_opt h = true /\ has_dec h = true).
Proof.
  intros cfg bt du h Hs Hst Hf Hdry i c Hin. unfold chk_C10 in Hin. apply in_app_or in Hin as [Hin|Hin].
  - eapply prov_refines; eauto.
  - rewrite (chk_C02_nil cfg (beh_of bt) du h Hs (wf_strict_keys h Hst) Hf Hdry) in Hin. destruct Hin.
Qed.
Print Assumptions C10_refines.

(* ================================================================== *)
(* Part 14 : examples                                                   *)
(* ================================================================== *)

Module RefineExample.
  Definition cfg0 : config := mkConfig false false false.
  Definition d0 : dur := fun _ _ => 0%N.
  Definition K (i : nat) : key := KV i 0.
  Definition G1 : key := KG 7 1.
  Definition G2 : key := KG 8 2.

  (* (a) three scopes (0 > 1 > 2), a decorator consuming the key it decorates
     and a value group, a group with a flattened member, an optional
     parameter nobody provides, an As key *)
  Definition hA : history :=
    [ OScope 0; OScope 1;
      OProvide 0 (mkProvideIn 1 (mkSig [] [RSingle (K 1) [K 2]] false) false false);
      OProvide 1 (mkProvideIn 2 (mkSig [PSingle (K 2) false] [RGroup G1 false []] false) false false);
      OProvide 0 (mkProvideIn 3 (mkSig [] [RGroup G1 true []; RSingle (K 3) []] false) false false);
      ODecorate 1 (mkDecorateIn 4 (mkSig [PSingle (K 1) false; PGroup G1 false] [RSingle (K 1) []] false) false);
      OProvide 2 (mkProvideIn 5 (mkSig [PObj [PSingle (K 1) false; PSingle (K 9) true]; PSingle (K 3) false]
                                       [RSingle (K 5) []] false) false false);
      OInvoke 2 (mkInvokeIn 6 (mkSig [PSingle (K 5) false; PGroup G1 true; PGroup G1 false; PSingle (K 2) false] [] false));
      OInvoke 0 (mkInvokeIn 7 (mkSig [PSingle (K 1) false; PGroup G1 false] [] false)) ].
  Definition btA : list (fnid * list outcome) := [(3, [OOk [3; 0]])].
  Definition obsA := map obs_of (run cfg0 (beh_of btA) d0 hA).

  Example hA_wf : (wf_scopes hA, wf_strict hA, P_Once.wf_fns hA, has_opt hA) = (true, true, true, true).
  Proof. vm_compute. reflexivity. Qed.
  (* the decorator (fn 4) received the undecorated K1 and all four members;
     fn 5 the decorated K1, zero for K9 and fn 3's second result *)
  Example hA_events : nth 7 (map oo_events obsA) [] =
    [EExec 1 0 RoleCtor [] (OOk []);
     EExec 2 0 RoleCtor [ASingle (AProd 1 0 0 0)] (OOk []);
     EExec 3 0 RoleCtor [] (OOk [3; 0]);
     EExec 4 0 RoleDec [ASingle (AProd 1 0 0 0);
                        ASlice [AProd 2 0 0 0; AProd 3 0 0 0; AProd 3 0 0 1; AProd 3 0 0 2]] (OOk []);
     EExec 5 0 RoleCtor [ASingle (AProd 4 0 0 0); ASingle AZero; ASingle (AProd 3 0 1 0)] (OOk []);
     EExec 6 0 RoleInv [ASingle (AProd 5 0 0 0);
                        ASlice [AProd 2 0 0 0; AProd 3 0 0 0; AProd 3 0 0 1; AProd 3 0 0 2];
                        ASlice [AProd 2 0 0 0; AProd 3 0 0 0; AProd 3 0 0 1; AProd 3 0 0 2];
                        ASingle (AProd 1 0 0 0)] (OOk [])].
  Proof. vm_compute. reflexivity. Qed.
  Example hA_prov : chk_prov btA hA obsA = [].
  Proof. vm_compute. reflexivity. Qed.
  Example hA_C01 : chk_C01 cfg0 btA hA obsA = [].
  Proof. vm_compute. reflexivity. Qed.

  (* (b) the D12 witness: two decorators consuming each other's keys.  The
     exception in the theorem is real: exactly code 112 (132 for groups). *)
  Definition hB : history :=
    [ OProvide 0 (mkProvideIn 1 (mkSig [] [RSingle (K 1) []] false) false false);
      OProvide 0 (mkProvideIn 2 (mkSig [] [RSingle (K 2) []] false) false false);
      ODecorate 0 (mkDecorateIn 3 (mkSig [PSingle (K 2) false] [RSingle (K 1) []] false) false);
      ODecorate 0 (mkDecorateIn 4 (mkSig [PSingle (K 1) false] [RSingle (K 2) []] false) false);
      OInvoke 0 (mkInvokeIn 5 (mkSig [PSingle (K 1) false] [] false)) ].
  Example hB_wf : (wf_scopes hB, wf_strict hB, P_Once.wf_fns hB, has_opt hB, has_dec hB) = (true, true, true, false, true).
  Proof. vm_compute. reflexivity. Qed.
  Example hB_prov : chk_prov [] hB (map obs_of (run cfg0 (beh_of []) d0 hB)) = [(4, 112)].
  Proof. vm_compute. reflexivity. Qed.

  Definition hB2 : history :=
    [ OProvide 0 (mkProvideIn 1 (mkSig [] [RGroup G1 false []] false) false false);
      OProvide 0 (mkProvideIn 2 (mkSig [] [RGroup G2 false []] false) false false);
      ODecorate 0 (mkDecorateIn 3 (mkSig [PGroup G2 false] [RGroup G1 false []] false) false);
      ODecorate 0 (mkDecorateIn 4 (mkSig [PGroup G1 false] [RGroup G2 false []] false) false);
      OInvoke 0 (mkInvokeIn 5 (mkSig [PGroup G1 false] [] false)) ].
  Example hB2_wf : (wf_scopes hB2, wf_strict hB2, P_Once.wf_fns hB2) = (true, true, true).
  Proof. vm_compute. reflexivity. Qed.
  Example hB2_prov : chk_prov [] hB2 (map obs_of (run cfg0 (beh_of []) d0 hB2)) = [(4, 132)].
  Proof. vm_compute. reflexivity. Qed.

  (* (c) no decorators, an optional parameter whose provider cannot succeed
     (fn 1 needs K9, which nobody provides; fn 2 needs fn 1's K1): zero is
     delivered, and neither 122 nor 123 is reported: fn 1 is not available *)
  Definition hC : history :=
    [ OProvide 0 (mkProvideIn 1 (mkSig [PSingle (K 9) false] [RSingle (K 1) []] false) false false);
      OProvide 0 (mkProvideIn 2 (mkSig [PSingle (K 1) false] [RSingle (K 2) []] false) false false);
      OInvoke 0 (mkInvokeIn 3 (mkSig [PSingle (K 2) true; PSingle (K 1) true] [] false));
      OProvide 0 (mkProvideIn 4 (mkSig [] [RSingle (K 9) []] false) false false);
      OInvoke 0 (mkInvokeIn 5 (mkSig [PSingle (K 2) true] [] false)) ].
  Example hC_wf : (wf_scopes hC, wf_strict hC, P_Once.wf_fns hC, has_opt hC, has_dec hC) = (true, true, true, true, false).
  Proof. vm_compute. reflexivity. Qed.
  Example hC_events : map oo_events (map obs_of (run cfg0 (beh_of []) d0 hC)) =
    [[]; []; [EExec 3 0 RoleInv [ASingle AZero; ASingle AZero] (OOk [])]; [];
     [EExec 4 0 RoleCtor [] (OOk []);
      EExec 1 0 RoleCtor [ASingle (AProd 4 0 0 0)] (OOk []);
      EExec 2 0 RoleCtor [ASingle (AProd 1 0 0 0)] (OOk []);
      EExec 5 0 RoleInv [ASingle (AProd 2 0 0 0)] (OOk [])]].
  Proof. vm_compute. reflexivity. Qed.
  Example hC_prov : chk_prov [] hC (map obs_of (run cfg0 (beh_of []) d0 hC)) = [].
  Proof. vm_compute. reflexivity. Qed.
End RefineExample.

(* Why the theorem is not the one asked for: each hypothesis / exception is necessary. *)
Module Counterexamples.
  Import RefineExample.

  (* code 120 on a model trace (all of wf_scopes, wf_keys, wf_strict, wf_fns hold):
     fn 1 provides K1 and requires K9, which nobody provides; fn 2 DECORATES K9.
     Invoke (K1 optional, K9 optional, K1 optional): the first K1 is zero
     (fn 1 fails findMissingDependencies), building K9 runs the decorator and
     caches a decorated K9, so the third leaf makes fn 1 succeed: when the
     invoked function runs, the nearest provider of its first (zero) argument
     HAS succeeded. *)
  Definition cex_opt_late : history :=
    [ OProvide 0 (mkProvideIn 1 (mkSig [PSingle (K 9) false] [RSingle (K 1) []] false) false false);
      ODecorate 0 (mkDecorateIn 2 (mkSig [] [RSingle (K 9) []] false) false);
      OInvoke 0 (mkInvokeIn 3 (mkSig [PSingle (K 1) true; PSingle (K 9) true; PSingle (K 1) true] [] false)) ].
  Example cex_opt_late_wf :
    (wf_scopes cex_opt_late, wf_keys cex_opt_late, wf_strict cex_opt_late, P_Once.wf_fns cex_opt_late,
     has_opt cex_opt_late, has_dec cex_opt_late) = (true, true, true, true, true, true).
  Proof. vm_compute. reflexivity. Qed.
  Example cex_opt_late_events : nth 2 (map oo_events (map obs_of (run cfg0 (beh_of []) d0 cex_opt_late))) [] =
    [EExec 2 0 RoleDec [] (OOk []);
     EExec 1 0 RoleCtor [ASingle (AProd 2 0 0 0)] (OOk []);
     EExec 3 0 RoleInv [ASingle AZero; ASingle (AProd 2 0 0 0); ASingle (AProd 1 0 0 0)] (OOk [])].
  Proof. vm_compute. reflexivity. Qed.
  Example cex_opt_late_120 : chk_prov [] cex_opt_late (map obs_of (run cfg0 (beh_of []) d0 cex_opt_late)) = [(2, 120)].
  Proof. vm_compute. reflexivity. Qed.

  (* wf_keys is not enough (it says nothing about single RESULT keys and group
     PARAMETER keys); each of the following satisfies wf_scopes, wf_keys, wf_fns *)
  (* a single-result decorator on a key with a group name, consumed as a group: 130 *)
  Definition cex_kind1 : history :=
    [ OProvide 0 (mkProvideIn 1 (mkSig [] [RGroup G1 false []] false) false false);
      ODecorate 0 (mkDecorateIn 2 (mkSig [] [RSingle G1 []] false) false);
      OInvoke 0 (mkInvokeIn 3 (mkSig [PGroup G1 false] [] false)) ].
  Example cex_kind1_130 : (wf_scopes cex_kind1, wf_keys cex_kind1, P_Once.wf_fns cex_kind1, wf_strict cex_kind1,
                           chk_prov [] cex_kind1 (map obs_of (run cfg0 (beh_of []) d0 cex_kind1))) =
                          (true, true, true, false, [(2, 130)]).
  Proof. vm_compute. reflexivity. Qed.
  (* a group parameter whose key has no group name, and a single decorator of that key: 130 *)
  Definition cex_kind2 : history :=
    [ ODecorate 0 (mkDecorateIn 2 (mkSig [] [RSingle (K 4) []] false) false);
      OInvoke 0 (mkInvokeIn 3 (mkSig [PGroup (K 4) false] [] false)) ].
  Example cex_kind2_130 : (wf_scopes cex_kind2, wf_keys cex_kind2, P_Once.wf_fns cex_kind2, wf_strict cex_kind2,
                           chk_prov [(2, [OOk [5]])] cex_kind2 (map obs_of (run cfg0 (beh_of [(2, [OOk [5]])]) d0 cex_kind2))) =
                          (true, true, true, false, [(1, 130)]).
  Proof. vm_compute. reflexivity. Qed.
  (* the same key twice among the keys of one group result (dig.As): the member is committed twice: 141 *)
  Definition cex_dupas : history :=
    [ OProvide 0 (mkProvideIn 1 (mkSig [] [RGroup G1 false [G1]] false) false false);
      OInvoke 0 (mkInvokeIn 3 (mkSig [PGroup G1 false] [] false)) ].
  Example cex_dupas_141 : (wf_scopes cex_dupas, wf_keys cex_dupas, P_Once.wf_fns cex_dupas, wf_strict cex_dupas,
                           chk_prov [] cex_dupas (map obs_of (run cfg0 (beh_of []) d0 cex_dupas))) =
                          (true, true, true, false, [(1, 141)]).
  Proof. vm_compute. reflexivity. Qed.
  (* a decorator returning the same key twice (formerly 110: the model kept the LAST result, the spec
     named the FIRST slot) is now rejected by [decorate]; wf_strict no longer has to exclude it *)
  Definition cex_dupdec : history :=
    [ OProvide 0 (mkProvideIn 1 (mkSig [] [RSingle (K 1) []] false) false false);
      ODecorate 0 (mkDecorateIn 2 (mkSig [] [RSingle (K 1) []; RSingle (K 1) []] false) false);
      OInvoke 0 (mkInvokeIn 3 (mkSig [PSingle (K 1) false] [] false)) ].
  Example cex_dupdec_rejected :
    (wf_scopes cex_dupdec, wf_keys cex_dupdec, P_Once.wf_fns cex_dupdec, wf_strict cex_dupdec,
     map oo_verdict (map obs_of (run cfg0 (beh_of []) d0 cex_dupdec)),
     chk_prov [] cex_dupdec (map obs_of (run cfg0 (beh_of []) d0 cex_dupdec))) =
    (true, true, true, true, [OVOk; overdict_of (VErr err_dec_dup); OVOk], []).
  Proof. vm_compute. reflexivity. Qed.
End Counterexamples.
