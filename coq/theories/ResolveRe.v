(* ResolveRe.v — the evaluator of Resolve.v with RE-ENTRANT user code: the body
   of a constructor, a decorator or an invoked function may call Invoke on
   (any scope of) the container that is running it.  What a body asks for is
   an oracle  nest f e : list (sid * invoke_in)  (the requests execution [e]
   of function [f] makes from inside its body, in order; the body ignores the
   error each nested Invoke returns).

   Everything of Resolve.v that does not run user code is REUSED, not copied:
   the parameter builders (build_single, build_group, build_list, call_ctors,
   call_group_decs) take the recursive evaluator as an argument and are
   instantiated with  fun t => rec (TOld t).  Only the three places that run a
   function body are restated: constructorNode.Call, decoratorNode.Call and
   Invoke, each textually the old definition with [run_fn] replaced by
   [run_fn_re] and one extra branch for an abort raised by the nested work.

   Open recursion as in Resolve.v: [evalF_re rec] has no recursion of its own.
   The knot is tied on TWO budgets: [fuel] for the frames of one Invoke (same
   budget as Resolve.eval, so that runs without nested requests coincide with
   the old evaluator step for step) and [depth] for the nesting of Invokes
   inside bodies (a nested Invoke starts with a fresh [eval_fuel], one level
   down).  Definitions only. *)
From Dig Require Import Base Sig State Graph Register Resolve.

Inductive rtask :=
| TOld (t : task)                          (* the tasks of Resolve.v *)
| TInvoke (s : sid) (p : invoke_in).       (* <scope s>.Invoke(p), called from inside a body *)

Definition nestor := fnid -> nat -> list (sid * invoke_in).

(* what running a body yields: its planned outcome, or the abort (an
   unrecovered panic, a dig panic, divergence) of something it called *)
Inductive fres :=
| FOut (o : outcome)
| FAbort (a : abort).

Section EvalFRe.
  Variable cfg : config.
  Variable b : beh.
  Variable nest : nestor.
  Variable du : dur.
  Variable rec : rtask -> state -> out.

  Definition recO (t : task) (st : state) : out := rec (TOld t) st.

  (* the Invoke calls a body makes, in order.  The error a nested Invoke
     returns is dropped by the body: only the state matters.  An abort is a Go
     panic unwinding through the nested Invoke and on through the body.  A
     scope that does not exist (yet) is skipped, as the harness does. *)
  Fixpoint run_nested (reqs : list (sid * invoke_in)) (st : state) : option abort * state :=
    match reqs with
    | [] => (None, st)
    | (s, p) :: t =>
        if Nat.ltb s (length (st_scopes st)) then
          match rec (TInvoke s p) st with
          | (Abort a, st1) => (Some a, st1)
          | (_, st1) => run_nested t st1
          end
        else run_nested t st
    end.

  (* invoker()(fn, args) with a re-entrant body: the effects of [run_fn]
     (event logged, counter bumped, clock advanced) come FIRST, then the
     nested requests of this execution, then the body's own outcome *)
  Definition run_fn_re (r : role) (f : fnid) (args : list arg) (st : state) : fres * nat * state :=
    match run_fn cfg b du r f args st with
    | (o, e, st1) =>
        if cfg_dry cfg then (FOut o, e, st1)
        else match run_nested (nest f e) st1 with
             | (None, st2) => (FOut o, e, st2)
             | (Some a, st2) => (FAbort a, e, st2)
             end
    end.

  (* constructorNode.Call: Resolve.call_ctor with run_fn_re.  [c_onstack] is
     set during the nested requests; the callback's Runtime is measured after
     them (clock after - clock before the body) *)
  Definition call_ctor_re (n : nid) (st : state) : out :=
    let c := get_node st n in
    if c_called c then (Done [], st)
    else if c_onstack c then (Fail (mkErr [LInvalid] RCycle), st)
    else
      let st0 := set_onstack st n true in
      match shallow_missing st0 (c_orig c) (sig_leaves (c_sig c)) with
      | (_ :: _) as ks => (Fail (mkErr [LMissingDeps] (RMissing ks)), set_onstack st0 n false)
      | [] =>
          match rec (TOld (TLeaves (c_orig c) (sig_build_seq (c_sig c)))) st0 with
          | (Fail e, st1) => (Fail (wrap LArgsFailed e), set_onstack st1 n false)
          | (Abort a, st1) => (Abort a, set_onstack st1 n false)
          | (Done built, st1) =>
              let args := place (sig_order (c_sig c)) built in
              let start := st_clock st1 in
              match run_fn_re RoleCtor (c_fn c) args st1 with
              | (FOut (OOk lens), e, st2) =>
                  let st3 := upd_scope st2 (c_home c)
                               (commit_results (cfg_dry cfg) (c_fn c) e lens 0 (sig_rleaves (c_sig c))) in
                  let st4 := set_called st3 n in
                  (Done [], set_onstack (callback (c_cb c) (c_fn c) ENone start st4) n false)
              | (FOut OErr, e, st2) =>
                  (Fail (mkErr [LCtorFailed] (RUser (c_fn c) e)),
                   set_onstack (callback (c_cb c) (c_fn c) (EUser (c_fn c) e) start st2) n false)
              | (FOut OPanic, e, st2) =>
                  if cfg_recover cfg then
                    (Fail (mkErr [] (RPanic (c_fn c) e)),
                     set_onstack (callback (c_cb c) (c_fn c) (EPanicE (c_fn c) e) start st2) n false)
                  else
                    (Abort (APanicked (c_fn c) e),
                     set_onstack (callback (c_cb c) (c_fn c) ENone start st2) n false)
              | (FAbort a, e, st2) =>
                  (* a panic of nested work unwinding through this frame: the
                     deferred callback sees err = nil, onStack is reset *)
                  (Abort a, set_onstack (callback (c_cb c) (c_fn c) ENone start st2) n false)
              end
          end
      end.

  (* decoratorNode.Call: Resolve.call_dec with run_fn_re *)
  Definition call_dec_re (d : did) (st : state) : out :=
    let dn := get_dec st d in
    if dstate_eqb (d_state dn) DCalled then (Done [], st)
    else
      let st0 := set_dstate st d DOnStack in
      match shallow_missing st0 (d_home dn) (sig_leaves (d_sig dn)) with
      | (_ :: _) as ks => (Fail (mkErr [LMissingDeps] (RMissing ks)), set_dstate st0 d DReady)
      | [] =>
          match rec (TOld (TLeaves (d_home dn) (sig_build_seq (d_sig dn)))) st0 with
          | (Fail e, st1) => (Fail (wrap LArgsFailed e), set_dstate st1 d DReady)
          | (Abort a, st1) => (Abort a, set_dstate st1 d DReady)
          | (Done built, st1) =>
              let args := place (sig_order (d_sig dn)) built in
              let start := st_clock st1 in
              match run_fn_re RoleDec (d_fn dn) args st1 with
              | (FOut (OOk lens), e, st2) =>
                  let st3 := upd_scope st2 (d_home dn)
                               (commit_decorated (cfg_dry cfg) (d_fn dn) e lens 0 (sig_rleaves (d_sig dn))) in
                  (Done [], callback (d_cb dn) (d_fn dn) ENone start (set_dstate st3 d DCalled))
              | (FOut OErr, e, st2) =>
                  (Fail (mkErr [] (RUser (d_fn dn) e)),
                   callback (d_cb dn) (d_fn dn) (EUser (d_fn dn) e) start (set_dstate st2 d DReady))
              | (FOut OPanic, e, st2) =>
                  if cfg_recover cfg then
                    (Fail (mkErr [] (RPanic (d_fn dn) e)),
                     callback (d_cb dn) (d_fn dn) (EPanicE (d_fn dn) e) start (set_dstate st2 d DReady))
                  else
                    (Abort (APanicked (d_fn dn) e),
                     callback (d_cb dn) (d_fn dn) ENone start (set_dstate st2 d DReady))
              | (FAbort a, e, st2) =>
                  (Abort a, callback (d_cb dn) (d_fn dn) ENone start (set_dstate st2 d DReady))
              end
          end
      end.

  (* Scope.Invoke (invoke.go:94-172) as a task: the body of Resolve.invoke,
     the argument list built through [rec], the function run by run_fn_re.
     Done [] = nil error.  [invoke_tail_re]: Invoke after the cycle check. *)
  Definition invoke_tail_re (s : sid) (p : invoke_in) (st1 : state) : out :=
    let sg := ii_sig p in
    match rec (TOld (TLeaves s (sig_build_seq sg))) st1 with
    | (Fail e, st2) => (Fail (wrap LArgsFailed e), st2)
    | (Abort a, st2) => (Abort a, st2)
    | (Done built, st2) =>
        let args := place (sig_order sg) built in
        match run_fn_re RoleInv (ii_fn p) args st2 with
        | (FOut (OOk _), _, st3) => (Done [], st3)
        | (FOut OErr, e, st3) => (Fail (mkErr [] (RUser (ii_fn p) e)), st3)
        | (FOut OPanic, e, st3) =>
            if cfg_recover cfg then (Fail (mkErr [] (RPanic (ii_fn p) e)), st3)
            else (Abort (APanicked (ii_fn p) e), st3)
        | (FAbort a, _, st3) => (Abort a, st3)
        end
    end.

  Definition invoke_body (s : sid) (p : invoke_in) (st : state) : out :=
    let sg := ii_sig p in
    match shallow_missing st s (sig_leaves sg) with
    | (_ :: _) as ks => (Fail (mkErr [LMissingDeps] (RMissing ks)), st)
    | [] =>
        let chk :=
          if s_verified (get_scope st s) then Some (true, st)
          else match is_acyclic (scope_graph st s) with
               | None => None
               | Some (true, _) => Some (true, upd_scope st s (sc_set_verified true))
               | Some (false, _) => Some (false, st)
               end in
        match chk with
        | None => (Abort AFuel, st)
        | Some (false, st1) => (Fail (mkErr [LInvalid] RCycle), st1)
        | Some (true, st1) => invoke_tail_re s p st1
        end
    end.

  Definition evalF_re (t : rtask) (st : state) : out :=
    match t with
    | TOld (TLeaf v (LSingle k opt)) => build_single recO v k opt st
    | TOld (TLeaf v (LGroup k soft)) => build_group recO v k soft st
    | TOld (TLeaves v ls) => build_list recO v ls st
    | TOld (TCallCtor n) => call_ctor_re n st
    | TOld (TCallDec d) => call_dec_re d st
    | TInvoke s p => invoke_body s p st
    end.
End EvalFRe.

(* ---------- the knot ---------- *)

(* tasks of the current Invoke go one unit of fuel down; an Invoke called from
   a body goes to [inv] (one nesting level down, fresh fuel) *)
Definition dispatch (inv : sid -> invoke_in -> state -> out) (rec : rtask -> state -> out)
           (t : rtask) (st : state) : out :=
  match t with
  | TInvoke s p => inv s p st
  | TOld _ => rec t st
  end.

Fixpoint eval_lvl (cfg : config) (b : beh) (nest : nestor) (du : dur)
         (inv : sid -> invoke_in -> state -> out) (fuel : nat) (t : rtask) (st : state) : out :=
  match fuel with
  | 0 => (Abort AFuel, st)
  | S f => evalF_re cfg b nest du (dispatch inv (eval_lvl cfg b nest du inv f)) t st
  end.

(* an Invoke at nesting budget [depth]: its frames get [eval_fuel st] (as in
   Resolve.invoke), the bodies it runs may call Invoke at budget depth-1 *)
Fixpoint invoke_lvl (cfg : config) (b : beh) (nest : nestor) (du : dur) (depth : nat)
         (s : sid) (p : invoke_in) (st : state) : out :=
  match depth with
  | 0 => (Abort AFuel, st)
  | S d => eval_lvl cfg b nest du (invoke_lvl cfg b nest du d) (S (eval_fuel st)) (TInvoke s p) st
  end.

Definition eval_re (cfg : config) (b : beh) (nest : nestor) (du : dur) (depth fuel : nat)
           (t : rtask) (st : state) : out :=
  eval_lvl cfg b nest du (invoke_lvl cfg b nest du depth) fuel t st.

Definition verdict_of_out (r : res (list arg)) : verdict :=
  match r with
  | Done _ => VOk
  | Fail e => VErr e
  | Abort a => VAbort a
  end.

(* Invoke called by the user of the container (an operation of the history);
   bodies it runs may nest Invokes [depth] deep *)
Definition invoke_re (cfg : config) (b : beh) (nest : nestor) (du : dur) (depth : nat)
           (st : state) (s : sid) (p : invoke_in) : verdict * state :=
  let r := invoke_lvl cfg b nest du (S depth) s p st in
  (verdict_of_out (fst r), snd r).
