(* DotText.v — the TEXT that dig.Visualize writes: an executable model of the
   printer in visualize.go (visualizeGraph, visualizeGroup, visualizeCtor) and
   internal/dot/graph.go (Param.String, Result.String, Group.String,
   Result.Attributes, Group.Attributes, ErrorType.Color, htmlType), of
   strconv.Quote and html.EscapeString as far as the printer uses them, a DOT
   abstract syntax for the subset dig emits with its printer, and the
   recognizers of well-formed tokens.  Definitions only; the theorems are in
   P_DotText.v.

   Strings are Coq [string]s = lists of BYTES ([ascii]).
   [go_quote] is strconv.Quote on strings of 7-bit bytes ([ascii7]).  For bytes
   >= 0x80 strconv.Quote depends on UTF-8 validity and on unicode.IsPrint;
   here such bytes are copied unchanged (what strconv.Quote does for valid,
   printable UTF-8).  The theorems about [go_quote] in P_DotText.v hold for
   ALL strings of the model; they speak about Go only under [ascii7 s]. *)
From Coq Require Import String Ascii.
From Dig Require Import Base Sig State Graph Register Resolve Run Spec Check Dot RunViz.
Local Open Scope string_scope.
Local Open Scope nat_scope.

(* ---------- bytes ---------- *)

Definition ch (n : nat) : ascii := ascii_of_nat n.
Definition tab : string := String (ch 9) "".
Definition nl : string := String (ch 10) "".
Definition t1 : string := tab.
Definition t2 : string := String (ch 9) (String (ch 9) "").
Definition t3 : string := String (ch 9) (String (ch 9) (String (ch 9) "")).

Definition is_empty (s : string) : bool := match s with "" => true | _ => false end.

Fixpoint all_chars (p : ascii -> bool) (s : string) : bool :=
  match s with "" => true | String c r => p c && all_chars p r end.

Definition ascii7 (s : string) : bool := all_chars (fun c => nat_of_ascii c <? 128) s.

Fixpoint sconcat (l : list string) : string :=
  match l with [] => "" | x :: t => x ++ sconcat t end.

Fixpoint starts_with (p s : string) : bool :=
  match p with
  | "" => true
  | String a p' => match s with "" => false | String b s' => Ascii.eqb a b && starts_with p' s' end
  end.

(* ---------- decimal numerals (fmt %d of a non-negative int) ---------- *)

Definition digit_char (k : nat) : ascii :=
  match k with
  | 0 => "0" | 1 => "1" | 2 => "2" | 3 => "3" | 4 => "4"
  | 5 => "5" | 6 => "6" | 7 => "7" | 8 => "8" | _ => "9"
  end%char.

Fixpoint dec_aux (fuel n : nat) (acc : string) : string :=
  match fuel with
  | 0 => acc
  | S f =>
      let acc' := String (digit_char (n mod 10)) acc in
      match n / 10 with
      | 0 => acc'
      | q => dec_aux f q acc'
      end
  end.

Definition dec (n : nat) : string := dec_aux (S n) n "".

(* ---------- strconv.Quote ---------- *)

Definition hexdigit (k : nat) : ascii :=
  match k with
  | 0 => "0" | 1 => "1" | 2 => "2" | 3 => "3" | 4 => "4" | 5 => "5" | 6 => "6" | 7 => "7"
  | 8 => "8" | 9 => "9" | 10 => "a" | 11 => "b" | 12 => "c" | 13 => "d" | 14 => "e" | _ => "f"
  end%char.

Definition bs : ascii := "\"%char.
Definition dq : ascii := """"%char.

Definition quote_char (c : ascii) : string :=
  let n := nat_of_ascii c in
  if Ascii.eqb c dq then String bs (String dq "")
  else if Ascii.eqb c bs then String bs (String bs "")
  else if n =? 7 then String bs "a"
  else if n =? 8 then String bs "b"
  else if n =? 12 then String bs "f"
  else if n =? 10 then String bs "n"
  else if n =? 13 then String bs "r"
  else if n =? 9 then String bs "t"
  else if n =? 11 then String bs "v"
  else if (n <? 32) || (n =? 127) then
    String bs (String "x" (String (hexdigit (n / 16)) (String (hexdigit (n mod 16)) "")))
  else String c "".

Fixpoint quote_body (s : string) : string :=
  match s with "" => "" | String c r => quote_char c ++ quote_body r end.

Definition go_quote (s : string) : string := String dq (quote_body s ++ String dq "").

(* the inverse (strconv.Unquote on what Quote produces) *)
Definition hexval (c : ascii) : option nat :=
  let n := nat_of_ascii c in
  if (48 <=? n) && (n <=? 57) then Some (n - 48)
  else if (97 <=? n) && (n <=? 102) then Some (n - 87)
  else None.

Definition unesc_short (e : ascii) : option ascii :=
  if Ascii.eqb e "a" then Some (ch 7) else if Ascii.eqb e "b" then Some (ch 8)
  else if Ascii.eqb e "f" then Some (ch 12) else if Ascii.eqb e "n" then Some (ch 10)
  else if Ascii.eqb e "r" then Some (ch 13) else if Ascii.eqb e "t" then Some (ch 9)
  else if Ascii.eqb e "v" then Some (ch 11) else if Ascii.eqb e bs then Some bs
  else if Ascii.eqb e dq then Some dq else None.

Fixpoint unq_body (s : string) : option string :=
  match s with
  | "" => None
  | String c r =>
      if Ascii.eqb c dq then (if is_empty r then Some "" else None)
      else if Ascii.eqb c bs then
        match r with
        | "" => None
        | String e r' =>
            if Ascii.eqb e "x" then
              match r' with
              | String h1 (String h2 r'') =>
                  match hexval h1, hexval h2 with
                  | Some a, Some b => option_map (String (ascii_of_nat (16 * a + b))) (unq_body r'')
                  | _, _ => None
                  end
              | _ => None
              end
            else match unesc_short e with
                 | Some x => option_map (String x) (unq_body r')
                 | None => None
                 end
        end
      else option_map (String c) (unq_body r)
  end.

Definition go_unquote (t : string) : option string :=
  match t with
  | String c r => if Ascii.eqb c dq then unq_body r else None
  | "" => None
  end.

(* a double-quoted token of Go and of DOT: opening quote, a body in which a
   backslash protects the next byte, closing quote at the very end.  (This is
   the lexical rule of Go's interpreted strings and of Graphviz's scanner,
   which also reads backslash-backslash as a pair.) *)
Fixpoint dq_body (s : string) : bool :=
  match s with
  | "" => false
  | String c r =>
      if Ascii.eqb c dq then is_empty r
      else if Ascii.eqb c bs then match r with "" => false | String _ r' => dq_body r' end
      else dq_body r
  end.

Definition dq_ok (t : string) : bool :=
  match t with String c r => Ascii.eqb c dq && dq_body r | "" => false end.

(* ---------- html.EscapeString ---------- *)

Definition esc_char (c : ascii) : string :=
  if Ascii.eqb c "&" then "&amp;"
  else if Ascii.eqb c "<" then "&lt;"
  else if Ascii.eqb c ">" then "&gt;"
  else if Ascii.eqb c dq then "&#34;"
  else if Ascii.eqb c "'" then "&#39;"
  else String c "".

Fixpoint html_escape (s : string) : string :=
  match s with "" => "" | String c r => esc_char c ++ html_escape r end.

(* what follows an ampersand: the five entities EscapeString produces *)
Definition entity_at (r : string) : option (ascii * nat) :=
  if starts_with "amp;" r then Some ("&"%char, 4)
  else if starts_with "lt;" r then Some ("<"%char, 3)
  else if starts_with "gt;" r then Some (">"%char, 3)
  else if starts_with "#34;" r then Some (dq, 4)
  else if starts_with "#39;" r then Some ("'"%char, 4)
  else None.

Definition entity_ok (r : string) : bool :=
  match entity_at r with Some _ => true | None => false end.

Fixpoint unesc (skip : nat) (s : string) : string :=
  match s with
  | "" => ""
  | String c r =>
      match skip with
      | S k => unesc k r
      | 0 =>
          if Ascii.eqb c "&" then
            match entity_at r with
            | Some (x, n) => String x (unesc n r)
            | None => String c (unesc 0 r)
            end
          else String c (unesc 0 r)
      end
  end.

Definition html_unescape (s : string) : string := unesc 0 s.

(* escaped text: no raw less-than, greater-than, double or single quote; every & starts one of the five entities *)
Fixpoint text_safe (s : string) : bool :=
  match s with
  | "" => true
  | String c r =>
      if Ascii.eqb c "<" || Ascii.eqb c ">" || Ascii.eqb c dq || Ascii.eqb c "'" then false
      else if Ascii.eqb c "&" then entity_ok r && text_safe r
      else text_safe r
  end.

(* content of an HTML-like label  label=<...>  : text without raw < and >,
   every & starts one of the five entities, the only tags are <BR />,
   <FONT POINT-SIZE="10"> and </FONT>, FONT properly nested and closed.
   [skip]: bytes of a recognised tag still to be passed over; [depth]: open FONTs *)
Fixpoint lab_ok (skip depth : nat) (s : string) : bool :=
  match s with
  | "" => (skip =? 0) && (depth =? 0)
  | String c r =>
      match skip with
      | S k => lab_ok k depth r
      | 0 =>
          if Ascii.eqb c "<" then
            if starts_with "BR />" r then lab_ok 5 depth r
            else if starts_with "FONT POINT-SIZE=""10"">" r then lab_ok 21 (S depth) r
            else if starts_with "/FONT>" r then
              match depth with S d => lab_ok 6 d r | 0 => false end
            else false
          else if Ascii.eqb c ">" then false
          else if Ascii.eqb c "&" then entity_ok r && lab_ok 0 depth r
          else lab_ok 0 depth r
      end
  end.

Definition html_label_ok (s : string) : bool := lab_ok 0 0 s.

(* ---------- the naming table ---------- *)

(* What the Go program prints for the model's codes: fmt.Sprint of the
   reflect.Type of a type code, the name / group strings, and the location
   (digreflect.Func Name / Package) of a constructor.  Name code 0 and group
   code 0 are "no name" / "no group": the empty string, whatever the table says. *)
Record names := mkNames {
  ty_str : ty -> string;
  name_str : name -> string;
  group_str : gname -> string;
  fn_name : ctorid -> string;
  fn_pkg : ctorid -> string
}.

Definition name_of (nm : names) (n : name) : string := if n =? 0 then "" else name_str nm n.
Definition group_of (nm : names) (g : gname) : string := if g =? 0 then "" else group_str nm g.

(* ---------- internal/dot/graph.go: String / Attributes / Color ---------- *)

(* Param.String *)
Definition param_str (nm : names) (d : dnode) : string :=
  let t := ty_str nm (dn_ty d) in
  let n := name_of nm (dn_name d) in
  if is_empty n then t else t ++ "[name=" ++ n ++ "]".

(* Result.String *)
Definition result_str (nm : names) (r : dresult) : string :=
  let d := dr_node r in
  let t := ty_str nm (dn_ty d) in
  let n := name_of nm (dn_name d) in
  let g := group_of nm (dn_group d) in
  if negb (is_empty n) then t ++ "[name=" ++ n ++ "]"
  else if negb (is_empty g) then t ++ "[group=" ++ g ++ "]" ++ dec (dr_gidx r)
  else t.

(* Group.String *)
Definition group_str_of (nm : names) (k : dnode) : string :=
  "[type=" ++ ty_str nm (dn_ty k) ++ " group=" ++ group_of nm (dn_group k) ++ "]".

(* ErrorType.Color *)
Definition color_of (e : errtype) : string :=
  match e with ERootCause => "red" | ETransitive => "orange" | ENoError => "black" end.

Definition font_open : string := "<FONT POINT-SIZE=""10"">".

(* the content of label=<...> of a result node; [esc] is html.EscapeString in
   the library, the identity in the library before the fix of D11 *)
Definition result_label_with (esc : string -> string) (nm : names) (r : dresult) : string :=
  let d := dr_node r in
  let t := esc (ty_str nm (dn_ty d)) in
  let n := name_of nm (dn_name d) in
  let g := group_of nm (dn_group d) in
  if negb (is_empty n) then t ++ "<BR />" ++ font_open ++ "Name: " ++ esc n ++ "</FONT>"
  else if negb (is_empty g) then t ++ "<BR />" ++ font_open ++ "Group: " ++ esc g ++ "</FONT>"
  else t.

Definition group_label_with (esc : string -> string) (nm : names) (g : dgroup) : string :=
  esc (ty_str nm (dn_ty (dg_key g))) ++ "<BR />" ++ font_open ++ "Group: " ++
  esc (group_of nm (dn_group (dg_key g))) ++ "</FONT>".

Definition result_label := result_label_with html_escape.
Definition group_label := group_label_with html_escape.

(* Result.Attributes *)
Definition result_attrs (nm : names) (r : dresult) : string :=
  "label=<" ++ result_label nm r ++ ">".

(* Group.Attributes *)
Definition group_attrs (nm : names) (g : dgroup) : string :=
  "shape=diamond label=<" ++ group_label nm g ++ ">" ++
  match dg_err g with ENoError => "" | e => " color=" ++ color_of e end.

(* ---------- visualize.go ---------- *)

(* visualizeGroup *)
Definition render_group_edge (nm : names) (q : string) (r : dresult) : string :=
  t2 ++ q ++ " -> " ++ go_quote (result_str nm r) ++ ";" ++ nl.

Definition render_group (nm : names) (g : dgroup) : string :=
  let q := go_quote (group_str_of nm (dg_key g)) in
  t1 ++ q ++ " [" ++ group_attrs nm g ++ "];" ++ nl ++
  sconcat (map (render_group_edge nm q) (dg_results g)) ++
  t2 ++ nl.

(* visualizeCtor *)
Definition render_result_line (nm : names) (r : dresult) : string :=
  t3 ++ go_quote (result_str nm r) ++ " [" ++ result_attrs nm r ++ "];" ++ nl.

Definition render_param_line (nm : names) (i : nat) (p : dparam) : string :=
  t3 ++ "constructor_" ++ dec i ++ " -> " ++ go_quote (param_str nm (dp_node p)) ++
  " [ltail=cluster_" ++ dec i ++ (if dp_opt p then " style=dashed" else "") ++ "];" ++ nl ++ t2 ++ nl.

Definition render_gparam_line (nm : names) (i : nat) (k : dnode) : string :=
  t3 ++ "constructor_" ++ dec i ++ " -> " ++ go_quote (group_str_of nm k) ++
  " [ltail=cluster_" ++ dec i ++ "];" ++ nl ++ t2 ++ nl.

Definition render_ctor (nm : names) (i : nat) (c : octor) : string :=
  let pkg := fn_pkg nm (oc_fn c) in
  t2 ++ "subgraph cluster_" ++ dec i ++ " {" ++ nl ++
  t3 ++ (if is_empty pkg then "" else "label = " ++ go_quote pkg ++ ";") ++ nl ++
  t3 ++ "constructor_" ++ dec i ++ " [shape=plaintext label=" ++ go_quote (fn_name nm (oc_fn c)) ++ "];" ++ nl ++
  t3 ++ match oc_err c with ENoError => "" | e => "color=" ++ color_of e ++ ";" end ++ nl ++
  sconcat (map (render_result_line nm) (oc_results c)) ++
  t3 ++ nl ++ t2 ++ "}" ++ nl ++ t2 ++ nl ++
  sconcat (map (render_param_line nm i) (oc_params c)) ++
  t2 ++ nl ++
  sconcat (map (render_gparam_line nm i) (oc_gparams c)).

Fixpoint render_ctors (nm : names) (i : nat) (cs : list octor) : string :=
  match cs with
  | [] => ""
  | c :: t => render_ctor nm i c ++ render_ctors nm (S i) t
  end.

Definition render_failed (nm : names) (color : string) (f : dresult) : string :=
  t1 ++ go_quote (result_str nm f) ++ " [color=" ++ color ++ "];" ++ nl.

(* visualizeGraph *)
Definition render (nm : names) (g : odot) : string :=
  "digraph {" ++ nl ++ t1 ++ "rankdir=RL;" ++ nl ++ t1 ++ "graph [compound=true];" ++ nl ++
  sconcat (map (render_group nm) (od_groups g)) ++
  t1 ++ nl ++
  render_ctors nm 0 (od_ctors g) ++
  sconcat (map (render_failed nm "orange") (od_trans g)) ++
  sconcat (map (render_failed nm "red") (od_roots g)) ++
  t1 ++ nl ++ "}".

(* the printer of the library before D11 was fixed: no html.EscapeString *)
Definition result_attrs_unescaped (nm : names) (r : dresult) : string :=
  "label=<" ++ result_label_with (fun s => s) nm r ++ ">".

(* ---------- DOT abstract syntax (the subset dig emits) ---------- *)

Inductive dot_id :=
| IdBare (s : string)       (* identifier or numeral, printed as it is *)
| IdQuoted (tok : string)   (* a double-quoted token, quotes included, printed as it is *)
| IdHtml (body : string).   (* an HTML string, printed  < body >  *)

Inductive attr := Attr (k : string) (v : dot_id).           (* k=v *)

Inductive stmt :=
| SAssign (k : string) (spaced : bool) (v : dot_id)          (* k=v;   or   k = v; *)
| SAttr (kw : string) (al : list attr)                       (* graph [a=b ...]; *)
| SNode (id : dot_id) (al : list attr)                       (* id [a=b ...]; *)
| SEdge (a b : dot_id) (al : list attr).                     (* a -> b;  or  a -> b [a=b ...]; *)

(* white space between statements is kept, so that printing is exact *)
Inductive sitem := XWs (s : string) | XStmt (st : stmt).
Inductive item :=
| TWs (s : string)
| TStmt (st : stmt)
| TSub (id : string) (body : list sitem).                    (* subgraph id { ... } *)

Definition dot_ast := list item.                             (* digraph { ... } *)

Definition print_id (i : dot_id) : string :=
  match i with IdBare s => s | IdQuoted t => t | IdHtml b => "<" ++ b ++ ">" end.

Definition print_attr (a : attr) : string := match a with Attr k v => k ++ "=" ++ print_id v end.

Fixpoint print_attrs (al : list attr) : string :=
  match al with
  | [] => ""
  | a :: t => match t with [] => print_attr a | _ => print_attr a ++ " " ++ print_attrs t end
  end.

Definition print_alist (al : list attr) : string :=
  match al with [] => "" | _ => " [" ++ print_attrs al ++ "]" end.

Definition print_stmt (s : stmt) : string :=
  match s with
  | SAssign k sp v => k ++ (if sp then " = " else "=") ++ print_id v ++ ";"
  | SAttr kw al => kw ++ print_alist al ++ ";"
  | SNode id al => print_id id ++ print_alist al ++ ";"
  | SEdge a b al => print_id a ++ " -> " ++ print_id b ++ print_alist al ++ ";"
  end.

Definition print_sitem (x : sitem) : string :=
  match x with XWs s => s | XStmt st => print_stmt st end.

Definition print_item (x : item) : string :=
  match x with
  | TWs s => s
  | TStmt st => print_stmt st
  | TSub id body => "subgraph " ++ id ++ " {" ++ sconcat (map print_sitem body) ++ "}"
  end.

Definition print_dot (a : dot_ast) : string := "digraph {" ++ sconcat (map print_item a) ++ "}".

(* ---------- the AST of a graph ---------- *)

Definition qid (s : string) : dot_id := IdQuoted (go_quote s).

Definition group_edge_items (nm : names) (q : dot_id) (r : dresult) : list item :=
  [TWs t2; TStmt (SEdge q (qid (result_str nm r)) []); TWs nl].

Definition group_items (nm : names) (g : dgroup) : list item :=
  let q := qid (group_str_of nm (dg_key g)) in
  ([TWs t1;
    TStmt (SNode q ([Attr "shape" (IdBare "diamond"); Attr "label" (IdHtml (group_label nm g))] ++
                    match dg_err g with ENoError => [] | e => [Attr "color" (IdBare (color_of e))] end)%list);
    TWs nl] ++
   flat_map (group_edge_items nm q) (dg_results g) ++
   [TWs (t2 ++ nl)])%list.

Definition cluster_id (i : nat) : string := "cluster_" ++ dec i.
Definition ctor_id (i : nat) : string := "constructor_" ++ dec i.

Definition result_items (nm : names) (r : dresult) : list sitem :=
  [XWs t3; XStmt (SNode (qid (result_str nm r)) [Attr "label" (IdHtml (result_label nm r))]); XWs nl].

Definition param_items (nm : names) (i : nat) (p : dparam) : list item :=
  [TWs t3;
   TStmt (SEdge (IdBare (ctor_id i)) (qid (param_str nm (dp_node p)))
                ([Attr "ltail" (IdBare (cluster_id i))] ++
                 (if dp_opt p then [Attr "style" (IdBare "dashed")] else []))%list);
   TWs (nl ++ t2 ++ nl)].

Definition gparam_items (nm : names) (i : nat) (k : dnode) : list item :=
  [TWs t3;
   TStmt (SEdge (IdBare (ctor_id i)) (qid (group_str_of nm k)) [Attr "ltail" (IdBare (cluster_id i))]);
   TWs (nl ++ t2 ++ nl)].

Definition cluster_body (nm : names) (i : nat) (c : octor) : list sitem :=
  let pkg := fn_pkg nm (oc_fn c) in
  ([XWs (nl ++ t3)] ++
   (if is_empty pkg then [] else [XStmt (SAssign "label" true (qid pkg))]) ++
   [XWs (nl ++ t3);
    XStmt (SNode (IdBare (ctor_id i)) [Attr "shape" (IdBare "plaintext"); Attr "label" (qid (fn_name nm (oc_fn c)))]);
    XWs (nl ++ t3)] ++
   match oc_err c with ENoError => [] | e => [XStmt (SAssign "color" false (IdBare (color_of e)))] end ++
   [XWs nl] ++
   flat_map (result_items nm) (oc_results c) ++
   [XWs (t3 ++ nl ++ t2)])%list.

Definition ctor_items (nm : names) (i : nat) (c : octor) : list item :=
  ([TWs t2; TSub (cluster_id i) (cluster_body nm i c); TWs (nl ++ t2 ++ nl)] ++
   flat_map (param_items nm i) (oc_params c) ++
   [TWs (t2 ++ nl)] ++
   flat_map (gparam_items nm i) (oc_gparams c))%list.

Fixpoint ctors_items (nm : names) (i : nat) (cs : list octor) : list item :=
  match cs with
  | [] => []
  | c :: t => (ctor_items nm i c ++ ctors_items nm (S i) t)%list
  end.

Definition failed_items (nm : names) (color : string) (f : dresult) : list item :=
  [TWs t1; TStmt (SNode (qid (result_str nm f)) [Attr "color" (IdBare color)]); TWs nl].

Definition ast_of (nm : names) (g : odot) : dot_ast :=
  ([TWs (nl ++ t1); TStmt (SAssign "rankdir" false (IdBare "RL"));
    TWs (nl ++ t1); TStmt (SAttr "graph" [Attr "compound" (IdBare "true")]); TWs nl] ++
   flat_map (group_items nm) (od_groups g) ++
   [TWs (t1 ++ nl)] ++
   ctors_items nm 0 (od_ctors g) ++
   flat_map (failed_items nm "orange") (od_trans g) ++
   flat_map (failed_items nm "red") (od_roots g) ++
   [TWs (t1 ++ nl)])%list.

(* ---------- well-formed leaves ---------- *)

Definition is_digit (c : ascii) : bool := let n := nat_of_ascii c in (48 <=? n) && (n <=? 57).
Definition is_alpha_ (c : ascii) : bool :=
  let n := nat_of_ascii c in ((65 <=? n) && (n <=? 90)) || ((97 <=? n) && (n <=? 122)) || (n =? 95).
Definition is_idchar (c : ascii) : bool := is_alpha_ c || is_digit c.
Definition is_ws (c : ascii) : bool := let n := nat_of_ascii c in (n =? 32) || (n =? 9) || (n =? 10).

(* DOT identifier: [a-zA-Z_][a-zA-Z_0-9]* ; numeral: [0-9]+ *)
Definition ident_ok (s : string) : bool :=
  match s with "" => false | String c r => is_alpha_ c && all_chars is_idchar r end.
Definition numeral_ok (s : string) : bool := negb (is_empty s) && all_chars is_digit s.
Definition ws_ok (s : string) : bool := all_chars is_ws s.

Definition id_wf (i : dot_id) : bool :=
  match i with
  | IdBare s => ident_ok s || numeral_ok s
  | IdQuoted t => dq_ok t
  | IdHtml b => html_label_ok b
  end.

Definition attr_wf (a : attr) : bool := match a with Attr k v => ident_ok k && id_wf v end.

Definition stmt_wf (s : stmt) : bool :=
  match s with
  | SAssign k _ v => ident_ok k && id_wf v
  | SAttr kw al => ident_ok kw && forallb attr_wf al
  | SNode id al => id_wf id && forallb attr_wf al
  | SEdge a b al => id_wf a && id_wf b && forallb attr_wf al
  end.

Definition sitem_wf (x : sitem) : bool := match x with XWs s => ws_ok s | XStmt st => stmt_wf st end.

Definition item_wf (x : item) : bool :=
  match x with
  | TWs s => ws_ok s
  | TStmt st => stmt_wf st
  | TSub id body => ident_ok id && forallb sitem_wf body
  end.

Definition ast_wf (a : dot_ast) : bool := forallb item_wf a.

(* ---------- exact comparison with the implementation's text ---------- *)

(* finite tables code -> string, as tools/vizcheck.py writes them from the
   output of `harness names` *)
Fixpoint str_lookup (x : nat) (l : list (nat * string)) : string :=
  match l with
  | [] => ""
  | (k, v) :: t => if x =? k then v else str_lookup x t
  end.

Definition names_of_tables (tys nms grs fnn fnp : list (nat * string)) : names :=
  mkNames (fun t => str_lookup t tys) (fun n => str_lookup n nms) (fun g => str_lookup g grs)
          (fun i => match i with IdFn f => str_lookup f fnn | IdOne => "" end)
          (fun i => match i with IdFn f => str_lookup f fnp | IdOne => "" end).

(* per operation: the text of the plain graph and of the error graph, when recorded *)
Definition tobs := (option string * option string)%type.

Definition text_neq (nm : names) (g : odot) (t : string) : bool := negb (String.eqb (render nm g) t).

(* (operation, 1) the plain text differs, (operation, 2) the text of the error graph differs *)
Fixpoint text_diff (nm : names) (i : nat) (m : list (odot * option odot)) (ts : list tobs) : list (nat * nat) :=
  match m, ts with
  | (g, ge) :: m', (t, te) :: ts' =>
      (match t with Some x => if text_neq nm g x then [(i, 1)] else [] | None => [] end ++
       match ge, te with Some g2, Some x => if text_neq nm g2 x then [(i, 2)] else [] | _, _ => [] end ++
       text_diff nm (S i) m' ts')%list
  | _, _ => []
  end.

Fixpoint text_count (m : list (odot * option odot)) (ts : list tobs) : nat :=
  match m, ts with
  | (g, ge) :: m', (t, te) :: ts' =>
      (match t with Some _ => 1 | None => 0 end) +
      (match ge, te with Some _, Some _ => 1 | _, _ => 0 end) + text_count m' ts'
  | _, _ => 0
  end.

Fixpoint tmism_from (i : nat) (cs : list (names * case * list tobs)) : list (nat * nat * nat) :=
  match cs with
  | [] => []
  | (nm, c, ts) :: t =>
      (map (fun d => (i, fst d, snd d)) (text_diff nm 0 (model_viz c) ts) ++ tmism_from (S i) t)%list
  end.

Fixpoint tcount_from (cs : list (names * case * list tobs)) : nat :=
  match cs with
  | [] => 0
  | (nm, c, ts) :: t => text_count (model_viz c) ts + tcount_from t
  end.
