(* Prop_C11.v — property theorems for C11, and nothing else: each statement is closed
   by `exact <lemma>` and followed by Print Assumptions. *)
From Dig Require Import Base Sig State Graph GraphProofs Register Resolve Run Spec Check
  ErrTable Err ErrTableCheck GoTypes Parse RunRaw P_Frame P_Once P_Term P_Refine P_C03 P_Glue.

(* ---- C11: soft value groups.  chk_C11 = provenance (a soft group holds exactly the
        members of feeders that have run, 150/151) + C03 (a soft group never makes a
        constructor run) + the sibling clause (152: members of constructors that a
        non-soft field of the same object requires are present).  On every model
        trace the checker can only report the recorded known findings: D12
        (112/132) and D13 (120 / 152, only on histories with an optional parameter
        and a decorator; P_Glue.SoftExample.cex152 shows that case is real) ---- *)
Theorem C11_holds_up_to_known_findings : forall cfg bt du h,
  wf_scopes h = true -> wf_strict h = true -> P_Once.wf_fns h = true -> cfg_dry cfg = false ->
  forall i c, In (i, c) (chk_C11 bt h (map obs_of (run cfg (beh_of bt) du h))) ->
    c = 112 \/ c = 132 \/ ((c = 120 \/ c = 152) /\ has_opt h = true /\ has_dec h = true).
Proof. exact P_Glue.chk_C11_bound. Qed.
Print Assumptions C11_holds_up_to_known_findings.

(* ---- without decorators the checker accepts every trace outright ---- *)
Theorem C11_no_decorators : forall cfg bt du h,
  wf_scopes h = true -> wf_strict h = true -> P_Once.wf_fns h = true -> cfg_dry cfg = false ->
  has_dec h = false -> chk_C11 bt h (map obs_of (run cfg (beh_of bt) du h)) = [].
Proof. exact P_Glue.chk_C11_nil_no_decorators. Qed.
Print Assumptions C11_no_decorators.

(* ---- the sibling clause alone ---- *)
Theorem C11_siblings : forall cfg bt du h,
  wf_scopes h = true -> wf_strict h = true -> P_Once.wf_fns h = true -> cfg_dry cfg = false ->
  forall i c, In (i, c) (chk_soft_sib bt h (map obs_of (run cfg (beh_of bt) du h))) ->
    c = 152 /\ has_opt h = true /\ has_dec h = true.
Proof. exact P_Glue.soft_sib_refines. Qed.
Print Assumptions C11_siblings.

(* ---- the same for every history dig's own parser produces: `raw_only rh` says that
        each operation of rh is a Scope call or a Provide / Decorate / Invoke of an
        arbitrary Go value of the grammar (GoTypes) with arbitrary options;
        `lower_op` parses it (Parse / RunRaw).  No well-formedness premise on keys
        is left: the parser establishes it (P_Glue.lowered_wf) ---- *)
Theorem C11_holds_raw : forall cfg bt du rh, raw_only rh ->
  wf_scopes (map lower_op rh) = true -> P_Once.wf_fns (map lower_op rh) = true -> cfg_dry cfg = false ->
  forall i c, In (i, c) (chk_C11 bt (map lower_op rh) (map obs_of (run cfg (beh_of bt) du (map lower_op rh)))) ->
    c = 112 \/ c = 132 \/
    ((c = 120 \/ c = 152) /\ has_opt (map lower_op rh) = true /\ has_dec (map lower_op rh) = true).
Proof. exact P_Glue.C11_raw. Qed.
Print Assumptions C11_holds_raw.
