(* Parse.v — transliteration of dig's signature parsing: newParamList, newParam,
   newParamObject, newParamObjectField, newParamGroupedSlice (param.go),
   newResultList, newResult, newResultObject, newResultObjectField,
   newResultGrouped, newResultSingle (result.go), parseGroupString (group.go),
   isFieldOptional / isIgnoreUnexportedSet, provideOptions.Validate, and the
   value checks at the top of Provide / Decorate / Invoke.
   PPanic marks every place where the Go code applies a partial reflect
   operation outside its domain.  Definitions only. *)
From Dig Require Import Base Sig State Register Resolve Run GoTypes.

Inductive presult (A : Type) :=
| POk (a : A)
| PErr (code : nat)        (* returns an error (errInvalidInput …) *)
| PPanic (code : nat).     (* the Go code would panic here *)
Arguments POk {A} a.
Arguments PErr {A} code.
Arguments PPanic {A} code.

Definition pbind {A B} (x : presult A) (f : A -> presult B) : presult B :=
  match x with POk a => f a | PErr c => PErr c | PPanic c => PPanic c end.

(* strconv.ParseBool on a tag value; absent tag = false, nil *)
Definition parse_tagbool (b : tagbool) : presult bool :=
  match b with
  | TBAbsent => POk false
  | TBTrue => POk true
  | TBFalse => POk false
  | TBInvalid => PErr 1
  end.

(* `optional, _ := isFieldOptional(f)` : the error is dropped *)
Definition tagbool_true (b : tagbool) : bool := match b with TBTrue => true | _ => false end.

Record pgroup := mkPG { pg_name : gname; pg_flatten : bool; pg_soft : bool }.

(* parseGroupString (group.go:53); an empty name is rejected *)
Definition parse_group (g : grouptag) : presult pgroup :=
  if Nat.eqb (gt_name g) 0 then PErr 2
  else
    (fix go (os : list gopt) (fl so : bool) : presult pgroup :=
       match os with
       | [] => POk (mkPG (gt_name g) fl so)
       | GOFlatten :: t => go t true so
       | GOSoft :: t => go t fl true
       | GOUnknown :: t => PErr 3
       end) (gt_opts g) false false.

Definition ptr_to (p : gty -> bool) (t : gty) : bool :=
  match t with GPtr x => p x | _ => false end.

(* ---------- parameters ---------- *)

Definition new_param_grouped (t : gty) (tg : tags) (g : grouptag) : presult param :=
  pbind (parse_group g) (fun pg =>
    if negb (kind_eqb (kind_of t) KSlice) then PErr 10
    else if pg_flatten pg then PErr 11
    else if negb (Nat.eqb (tg_name tg) 0) then PErr 12
    else if tagbool_true (tg_optional tg) then PErr 13
    else match elem t with
         | Some e => POk (PGroup (KG (tcode e) (pg_name pg)) (pg_soft pg))
         | None => PPanic 14
         end).

(* isIgnoreUnexportedSet on the first field whose type is dig.In *)
Fixpoint ignore_unexported (fs : list gfield) : presult bool :=
  match fs with
  | [] => POk false
  | f :: t => if gty_eqb (f_type f) GIn then parse_tagbool (tg_ignore (f_tags f))
              else ignore_unexported t
  end.

Fixpoint new_param (t : gty) : presult param :=
  if is_out t || ptr_to is_out t || embeds t (GPtr GOut) then PErr 20
  else if is_in t then
    match t with
    | GStruct fs =>
        pbind (ignore_unexported fs) (fun ign =>
          pbind ((fix fields_loop (l : list gfield) : presult (list param) :=
                    match l with
                    | [] => POk []
                    | mkField ex em tg ft :: rest =>
                        if gty_eqb ft GIn then fields_loop rest
                        else if negb ex && ign then fields_loop rest
                        else if negb ex then PErr 21
                        else
                          pbind (match tg_group tg with
                                 | Some g => new_param_grouped ft tg g
                                 | None =>
                                     pbind (new_param ft) (fun p =>
                                       match p with
                                       | PSingle k _ =>
                                           pbind (parse_tagbool (tg_optional tg)) (fun opt =>
                                             POk (PSingle (mkKey (k_ty k) (tg_name tg) 0) opt))
                                       | other => POk other
                                       end)
                                 end) (fun p =>
                            pbind (fields_loop rest) (fun ps => POk (p :: ps)))
                    end) fs) (fun ps => POk (PObj ps)))
    | GIn => PErr 21          (* dig.In itself: its sentinel field is unexported *)
    | _ => PPanic 22          (* NumField on a non-struct: IsIn holds only for structs *)
    end
  else if embeds t (GPtr GIn) then PErr 23
  else if ptr_to is_in t then PErr 24
  else POk (PSingle (KV (tcode t) 0) false).

Fixpoint drop_last {A} (l : list A) : list A :=
  match l with
  | [] => []
  | [_] => []
  | x :: t => x :: drop_last t
  end.

Fixpoint new_params (ts : list gty) : presult (list param) :=
  match ts with
  | [] => POk []
  | t :: rest => pbind (new_param t) (fun p => pbind (new_params rest) (fun ps => POk (p :: ps)))
  end.

(* newParamList: a variadic last parameter is not a dependency *)
Definition new_param_list (f : gfunc) : presult (list param) :=
  new_params (if gf_variadic f then drop_last (gf_ins f) else gf_ins f).

(* ---------- results ---------- *)

Record ropts := mkROpts { ro_name : name; ro_group : option grouptag; ro_as : list gty }.

(* the As types that apply to a result of type t (result.go:100-113, 292-303) *)
Fixpoint as_types (t : gty) (as_ : list gty) : presult (list gty) :=
  match as_ with
  | [] => POk []
  | i :: rest =>
      if gty_eqb i t then as_types t rest
      else match implements t i with
           | None => PPanic 30
           | Some false => PErr 31
           | Some true => pbind (as_types t rest) (fun l => POk (i :: l))
           end
  end.

Definition new_result_single (t : gty) (o : ropts) : presult result :=
  pbind (as_types t (ro_as o)) (fun ats =>
    match ats with
    | [] => POk (RSingle (KV (tcode t) (ro_name o)) [])
    | a :: rest => POk (RSingle (KV (tcode a) (ro_name o)) (map (fun x => KV (tcode x) (ro_name o)) rest))
    end).

(* [dec]: a decorator's result; findResultKeys (decorate.go:285) then requires
   the grouped type to be a slice and uses its element type as key *)
Definition finish_group (dec : bool) (t : gty) (g : gname) (flat : bool) (as_ : list gty) : presult result :=
  if dec then
    if flat then PErr 43     (* flatten in a decorator's result: a group decorator returns the entire group *)
    else
    match t with
    | GSlice e => POk (RGroup (KG (tcode e) g) flat [])
    | _ => PErr 32
    end
  else POk (RGroup (KG (tcode t) g) flat (map (fun x => KG (tcode x) g) as_)).

Definition new_result_grouped (dec : bool) (t : gty) (tg : tags) (g : grouptag) : presult result :=
  pbind (parse_group g) (fun pg =>
    if pg_flatten pg && negb (kind_eqb (kind_of t) KSlice) then PErr 33
    else if pg_soft pg then PErr 34
    else if negb (Nat.eqb (tg_name tg) 0) then PErr 35
    else if tagbool_true (tg_optional tg) then PErr 36
    else if pg_flatten pg then
      match elem t with
      | Some e => finish_group dec e (pg_name pg) true []
      | None => PPanic 37
      end
    else finish_group dec t (pg_name pg) false []).

Definition new_result_optgroup (dec : bool) (t : gty) (o : ropts) (g : grouptag) : presult result :=
  pbind (parse_group g) (fun pg =>
    pbind (as_types t (ro_as o)) (fun ats =>
      let ty0 := match ats with a :: _ => a | [] => t end in
      let rest := match ats with _ :: r => r | [] => [] end in
      if negb (nodupb gty_eqb ats) then PErr 42        (* an interface listed twice in dig.As of a grouped result *)
      else if pg_soft pg then PErr 38
      else if pg_flatten pg then
        if negb (kind_eqb (kind_of t) KSlice) then PErr 39
        else if negb (is_nil ats) then PErr 40          (* As cannot be combined with flatten *)
        else match elem ty0 with
             | Some e => finish_group dec e (pg_name pg) true rest
             | None => PPanic 41
             end
      else finish_group dec ty0 (pg_name pg) false rest)).

Fixpoint new_result (dec : bool) (t : gty) (o : ropts) : presult result :=
  if is_in t || ptr_to is_in t || embeds t (GPtr GIn) then PErr 50
  else if is_error t then PErr 51
  else if is_out t then
    if negb (Nat.eqb (ro_name o) 0) then PErr 52
    else if is_some (ro_group o) then PErr 53
    else
      match t with
      | GStruct fs =>
          pbind ((fix fields_loop (l : list gfield) : presult (list result) :=
                    match l with
                    | [] => POk []
                    | mkField ex em tg ft :: rest =>
                        if gty_eqb ft GOut then fields_loop rest
                        else if negb ex then PErr 54
                        else
                          pbind (match tg_group tg with
                                 | Some g => new_result_grouped dec ft tg g
                                 | None =>
                                     new_result dec ft
                                       (mkROpts (if Nat.eqb (tg_name tg) 0 then ro_name o else tg_name tg)
                                                (ro_group o) (ro_as o))
                                 end) (fun r =>
                            pbind (fields_loop rest) (fun rs => POk (r :: rs)))
                    end) fs) (fun rs => POk (RObj rs))
      | GOut => PErr 54
      | _ => PPanic 55
      end
  else if embeds t (GPtr GOut) then PErr 56
  else if ptr_to is_out t then PErr 57
  else match ro_group o with
       | Some g => new_result_optgroup dec t o g
       | None => new_result_single t o
       end.

Fixpoint new_results (dec : bool) (ts : list gty) (o : ropts) : presult (list result) :=
  match ts with
  | [] => POk []
  | t :: rest =>
      if is_error t then new_results dec rest o
      else pbind (new_result dec t o) (fun r => pbind (new_results dec rest o) (fun rs => POk (r :: rs)))
  end.

(* ---------- options ---------- *)

Fixpoint validate_as (l : list asarg) : presult (list gty) :=
  match l with
  | [] => POk []
  | AsNil :: _ => PErr 60
  | AsNonPtr :: _ => PErr 61
  | AsPtrNonIface :: _ => PErr 62
  | AsIface t :: rest =>
      match kind_of t with
      | KInterface => pbind (validate_as rest) (fun r => POk (t :: r))
      | _ => PErr 62
      end
  end.

(* provideOptions.Validate *)
Definition validate_opts (o : popts) : presult (list gty) :=
  if is_some (po_group o) && negb (Nat.eqb (po_name o) 0) then PErr 63
  else if po_name_backquote o then PErr 64
  else if po_group_backquote o then PErr 65
  else validate_as (po_as o).

Definition last_is_error (outs : list gty) : bool :=
  match rev outs with t :: _ => is_error t | [] => false end.

(* ---------- the three entry points ---------- *)

Definition provide_parse (fn : fnid) (v : gvalue) (o : popts) : presult provide_in :=
  match v with
  | VNil => PErr 70
  | VNonFunc => PErr 71
  | VNilFunc _ => PErr 72
  | VFunc f =>
      pbind (validate_opts o) (fun ats =>
        pbind (new_param_list f) (fun ps =>
          pbind (new_results false (gf_outs f) (mkROpts (po_name o) (po_group o) ats)) (fun rs =>
            POk (mkProvideIn fn (mkSig ps rs (existsb is_error (gf_outs f))) (po_export o) (po_cb o)))))
  end.

Definition decorate_parse (fn : fnid) (v : gvalue) (cb : bool) : presult decorate_in :=
  match v with
  | VNil => PErr 73
  | VNonFunc => PErr 74
  | VNilFunc _ => PErr 75
  | VFunc f =>
      pbind (new_param_list f) (fun ps =>
        pbind (new_results true (gf_outs f) (mkROpts 0 None [])) (fun rs =>
          POk (mkDecorateIn fn (mkSig ps rs (existsb is_error (gf_outs f))) cb)))
  end.

Definition invoke_parse (fn : fnid) (v : gvalue) : presult invoke_in :=
  match v with
  | VNil => PErr 76
  | VNonFunc => PErr 77
  | VNilFunc _ => PErr 78
  | VFunc f =>
      pbind (new_param_list f) (fun ps =>
        POk (mkInvokeIn fn (mkSig ps [] (last_is_error (gf_outs f)))))
  end.

(* ---------- raw histories: operations carrying Go values ---------- *)

Inductive rop :=
| RCore (o : op)
| RProvide (s : sid) (fn : fnid) (v : gvalue) (o : popts)
| RDecorate (s : sid) (fn : fnid) (v : gvalue) (cb : bool)
| RInvoke (s : sid) (fn : fnid) (v : gvalue).

(* what the parse stage decides; a panic is kept visible *)
Inductive lowered := LOp (o : op) | LPanic (code : nat).

Definition lower (r : rop) : lowered :=
  match r with
  | RCore o => LOp o
  | RProvide s fn v o =>
      match provide_parse fn v o with
      | POk p => LOp (OProvide s p) | PErr _ => LOp (OBad BadProvide s fn) | PPanic c => LPanic c
      end
  | RDecorate s fn v cb =>
      match decorate_parse fn v cb with
      | POk p => LOp (ODecorate s p) | PErr _ => LOp (OBad BadDecorate s fn) | PPanic c => LPanic c
      end
  | RInvoke s fn v =>
      match invoke_parse fn v with
      | POk p => LOp (OInvoke s p) | PErr _ => LOp (OBad BadInvoke s fn) | PPanic c => LPanic c
      end
  end.

(* the declared inputs / outputs as the Info structs report them *)
Record ientry := mkIE { ie_ty : ty; ie_name : name; ie_group : gname; ie_opt : bool }.

Definition input_entries (sg : fsig) : list ientry :=
  map (fun l => match l with
                | LSingle k o => mkIE (k_ty k) (k_name k) 0 o
                | LGroup k _ => mkIE (33 + 4 * k_ty k) 0 (k_group k) false   (* DotParam reports the slice type: tcode (GSlice e) *)
                end) (sig_leaves sg).

Definition output_entries (sg : fsig) : list ientry :=
  flat_map (fun q => map (fun k => mkIE (k_ty k) (k_name k) (k_group k) false) (rleaf_keys q)) (sig_rleaves sg).

(* a decorator's grouped result is the whole slice: DotResult reports the slice type *)
Definition dec_output_entries (sg : fsig) : list ientry :=
  flat_map (fun q => match q with
                     | QSingle ks => map (fun k => mkIE (k_ty k) (k_name k) 0 false) ks
                     | QGroup ks _ => map (fun k => mkIE (33 + 4 * k_ty k) 0 (k_group k) false) ks
                     end) (sig_rleaves sg).
