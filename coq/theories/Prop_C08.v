(* Prop_C08.v — property theorems for C08, and nothing else: each statement is closed
   by `exact <lemma>` and followed by Print Assumptions. *)
From Dig Require Import Base Sig State Graph GraphProofs Register Resolve Run Spec Check
  ErrTable Err ErrTableCheck P_Frame P_Once P_Term P_Refine.

(* ---- C08: the checker accepts every model trace up to the recorded known
        findings D12 (112/132) and D13 (120, only with an optional parameter and a
        decorator); see Prop_C01.v ---- *)
Theorem C08_holds_up_to_known_findings : forall cfg bt du h,
  wf_scopes h = true -> wf_strict h = true -> P_Once.wf_fns h = true -> cfg_dry cfg = false ->
  forall i c, In (i, c) (chk_C08 bt h (map obs_of (run cfg (beh_of bt) du h))) ->
  c = 112 \/ c = 132 \/ (c = 120 /\ has_opt h = true /\ has_dec h = true).
Proof. exact P_Refine.C08_refines. Qed.
Print Assumptions C08_holds_up_to_known_findings.
