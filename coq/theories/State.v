(* State.v — the container state (scope tree, provider/decorator tables,
   caches, per-scope dependency-graph node lists), values as provenance
   terms, events, errors.  Definitions only. *)
From Dig Require Import Base Sig.

(* ---------- values: provenance terms ---------- *)

(* AProd f e slot idx : the idx-th element of result slot [slot] returned by
   the e-th execution of function f.  AZero : reflect.Zero. *)
Inductive atom :=
| AProd (f : fnid) (e : nat) (slot : nat) (idx : nat)
| AZero.

Inductive arg :=
| ASingle (a : atom)
| ASlice (l : list atom).        (* a value-group slice; compared as a multiset *)

Definition atom_eqb (a b : atom) : bool :=
  match a, b with
  | AProd f e s i, AProd f' e' s' i' => Nat.eqb f f' && Nat.eqb e e' && Nat.eqb s s' && Nat.eqb i i'
  | AZero, AZero => true
  | _, _ => false
  end.

Definition arg_eqb (a b : arg) : bool :=
  match a, b with
  | ASingle x, ASingle y => atom_eqb x y
  | ASlice x, ASlice y => perm_eqb atom_eqb x y
  | _, _ => false
  end.

(* ---------- behaviour oracle ---------- *)

Inductive outcome :=
| OOk (lens : list nat)    (* lens[slot] = number of elements returned for a slice-valued slot *)
| OErr
| OPanic.

Definition beh := fnid -> nat -> outcome.     (* function, n-th execution *)
Definition dur := fnid -> nat -> N.           (* model time spent inside the body *)

(* ---------- errors ---------- *)

Inductive cref := CNode (n : nid) | CDec (d : did) | COne.   (* the CtorID field *)

Inductive elink :=
| LProvide | LInvalid | LArgsFailed | LMissingDeps | LCtorFailed
| LParamSingle (c : cref) (k : key)
| LParamGroup (c : cref) (k : key).

Inductive eroot :=
| RMissing (ks : list key)     (* errMissingTypes *)
| RCycle                       (* errCycleDetected *)
| RInvalidLeaf                 (* errInvalidInput with nil cause *)
| RGroupOpt                    (* errInvalidGroupOption *)
| RUser (f : fnid) (e : nat)   (* the error value returned by user function f on execution e *)
| RPanic (f : fnid) (e : nat)  (* PanicError carrying the value f panicked with on execution e *)
| RForeign.                    (* a non-dig, non-user error used as cause *)

Record err := mkErr { e_links : list elink; e_root : eroot }.

Definition wrap (l : elink) (e : err) : err := mkErr (l :: e_links e) (e_root e).

Definition is_missingdeps (l : elink) : bool :=
  match l with LMissingDeps => true | _ => false end.

(* errors.As(err, new(errMissingDependencies)) *)
Definition has_missingdeps (e : err) : bool := existsb is_missingdeps (e_links e).

Inductive abort :=
| APanicked (f : fnid) (e : nat)   (* an unrecovered panic of user function f unwinding the stack *)
| ABug (code : nat)                (* a branch in which the Go code would panic on its own / read an absent value *)
| AFuel.                           (* recursion budget exhausted *)

Inductive res (A : Type) :=
| Done (a : A)
| Fail (e : err)
| Abort (a : abort).
Arguments Done {A} a.
Arguments Fail {A} e.
Arguments Abort {A} a.

Inductive verdict :=
| VOk
| VErr (e : err)
| VAbort (a : abort).

(* ---------- events ---------- *)

Inductive role := RoleCtor | RoleDec | RoleInv.

(* what a callback sees in CallbackInfo.Error, up to RootCause *)
Inductive ecls :=
| ENone
| EUser (f : fnid) (e : nat)
| EPanicE (f : fnid) (e : nat).

Inductive event :=
| EExec (f : fnid) (e : nat) (r : role) (args : list arg) (o : outcome)   (* a user function body ran *)
| ECallback (f : fnid) (c : ecls) (runtime : N).

(* ---------- nodes ---------- *)

Record cnode := mkCNode {
  c_fn : fnid;
  c_sig : fsig;
  c_home : sid;          (* n.s : where results are committed (root when exported) *)
  c_orig : sid;          (* n.origS : the scope Provide was called on *)
  c_called : bool;
  c_onstack : bool;
  c_cb : bool            (* has a callback *)
}.

Inductive dstate := DReady | DOnStack | DCalled.

Record dnode := mkDNode {
  d_fn : fnid;
  d_sig : fsig;
  d_home : sid;
  d_state : dstate;
  d_cb : bool
}.

(* graph nodes of a scope's graphHolder *)
Inductive gref :=
| GCtor (n : nid)
| GGroup (n : nid) (i : nat).     (* the i-th (declaration index) leaf of n, a value-group parameter *)

Definition gref_eqb (a b : gref) : bool :=
  match a, b with
  | GCtor n, GCtor m => Nat.eqb n m
  | GGroup n i, GGroup m j => Nat.eqb n m && Nat.eqb i j
  | _, _ => false
  end.

Record scope := mkScope {
  s_parent : option sid;
  s_children : list sid;
  s_providers : list (key * list nid);
  s_decorators : list (key * did);
  s_nodes : list nid;
  s_values : list (key * atom);
  s_dvalues : list (key * atom);
  s_groups : list (key * list atom);
  s_dgroups : list (key * list atom);
  s_verified : bool;
  s_gnodes : list gref
}.

Definition empty_scope (p : option sid) : scope :=
  mkScope p [] [] [] [] [] [] [] [] false [].

Record state := mkState {
  st_scopes : list scope;
  st_nodes : list cnode;
  st_decs : list dnode;
  st_count : list (fnid * nat);     (* executions so far per function *)
  st_clock : N;
  st_log : list event               (* newest first *)
}.

Record config := mkConfig { cfg_defer : bool; cfg_recover : bool; cfg_dry : bool }.

Definition init_state : state :=
  mkState [empty_scope None] [] [] [] 0%N [].

(* ---------- accessors and setters ---------- *)

Definition get_scope (st : state) (s : sid) : scope := nth s (st_scopes st) (empty_scope None).
Definition dummy_sig : fsig := mkSig [] [] false.
Definition dummy_cnode : cnode := mkCNode 0 dummy_sig 0 0 false false false.
Definition dummy_dnode : dnode := mkDNode 0 dummy_sig 0 DReady false.
Definition get_node (st : state) (n : nid) : cnode := nth n (st_nodes st) dummy_cnode.
Definition get_dec (st : state) (d : did) : dnode := nth d (st_decs st) dummy_dnode.

Definition set_scopes (st : state) (x : list scope) : state :=
  mkState x (st_nodes st) (st_decs st) (st_count st) (st_clock st) (st_log st).
Definition set_nodes (st : state) (x : list cnode) : state :=
  mkState (st_scopes st) x (st_decs st) (st_count st) (st_clock st) (st_log st).
Definition set_decs (st : state) (x : list dnode) : state :=
  mkState (st_scopes st) (st_nodes st) x (st_count st) (st_clock st) (st_log st).
Definition set_count (st : state) (x : list (fnid * nat)) : state :=
  mkState (st_scopes st) (st_nodes st) (st_decs st) x (st_clock st) (st_log st).
Definition set_clock (st : state) (x : N) : state :=
  mkState (st_scopes st) (st_nodes st) (st_decs st) (st_count st) x (st_log st).
Definition set_log (st : state) (x : list event) : state :=
  mkState (st_scopes st) (st_nodes st) (st_decs st) (st_count st) (st_clock st) x.

Definition upd_scope (st : state) (s : sid) (f : scope -> scope) : state :=
  set_scopes st (upd_nth s f (st_scopes st)).
Definition upd_node (st : state) (n : nid) (f : cnode -> cnode) : state :=
  set_nodes st (upd_nth n f (st_nodes st)).
Definition upd_dec (st : state) (d : did) (f : dnode -> dnode) : state :=
  set_decs st (upd_nth d f (st_decs st)).

Definition sc_set_children (x : list sid) (c : scope) : scope :=
  mkScope (s_parent c) x (s_providers c) (s_decorators c) (s_nodes c) (s_values c) (s_dvalues c) (s_groups c) (s_dgroups c) (s_verified c) (s_gnodes c).
Definition sc_set_providers (x : list (key * list nid)) (c : scope) : scope :=
  mkScope (s_parent c) (s_children c) x (s_decorators c) (s_nodes c) (s_values c) (s_dvalues c) (s_groups c) (s_dgroups c) (s_verified c) (s_gnodes c).
Definition sc_set_decorators (x : list (key * did)) (c : scope) : scope :=
  mkScope (s_parent c) (s_children c) (s_providers c) x (s_nodes c) (s_values c) (s_dvalues c) (s_groups c) (s_dgroups c) (s_verified c) (s_gnodes c).
Definition sc_set_nodes (x : list nid) (c : scope) : scope :=
  mkScope (s_parent c) (s_children c) (s_providers c) (s_decorators c) x (s_values c) (s_dvalues c) (s_groups c) (s_dgroups c) (s_verified c) (s_gnodes c).
Definition sc_set_values (x : list (key * atom)) (c : scope) : scope :=
  mkScope (s_parent c) (s_children c) (s_providers c) (s_decorators c) (s_nodes c) x (s_dvalues c) (s_groups c) (s_dgroups c) (s_verified c) (s_gnodes c).
Definition sc_set_dvalues (x : list (key * atom)) (c : scope) : scope :=
  mkScope (s_parent c) (s_children c) (s_providers c) (s_decorators c) (s_nodes c) (s_values c) x (s_groups c) (s_dgroups c) (s_verified c) (s_gnodes c).
Definition sc_set_groups (x : list (key * list atom)) (c : scope) : scope :=
  mkScope (s_parent c) (s_children c) (s_providers c) (s_decorators c) (s_nodes c) (s_values c) (s_dvalues c) x (s_dgroups c) (s_verified c) (s_gnodes c).
Definition sc_set_dgroups (x : list (key * list atom)) (c : scope) : scope :=
  mkScope (s_parent c) (s_children c) (s_providers c) (s_decorators c) (s_nodes c) (s_values c) (s_dvalues c) (s_groups c) x (s_verified c) (s_gnodes c).
Definition sc_set_verified (x : bool) (c : scope) : scope :=
  mkScope (s_parent c) (s_children c) (s_providers c) (s_decorators c) (s_nodes c) (s_values c) (s_dvalues c) (s_groups c) (s_dgroups c) x (s_gnodes c).
Definition sc_set_gnodes (x : list gref) (c : scope) : scope :=
  mkScope (s_parent c) (s_children c) (s_providers c) (s_decorators c) (s_nodes c) (s_values c) (s_dvalues c) (s_groups c) (s_dgroups c) (s_verified c) x.

Definition cn_set_called (x : bool) (c : cnode) : cnode :=
  mkCNode (c_fn c) (c_sig c) (c_home c) (c_orig c) x (c_onstack c) (c_cb c).
Definition cn_set_onstack (x : bool) (c : cnode) : cnode :=
  mkCNode (c_fn c) (c_sig c) (c_home c) (c_orig c) (c_called c) x (c_cb c).
Definition dn_set_state (x : dstate) (d : dnode) : dnode :=
  mkDNode (d_fn d) (d_sig d) (d_home d) x (d_cb d).

Definition dstate_eqb (a b : dstate) : bool :=
  match a, b with
  | DReady, DReady | DOnStack, DOnStack | DCalled, DCalled => true
  | _, _ => false
  end.

(* ---------- scope tree walks ---------- *)

(* s.ancestors(): s, parent, …, root (fuel = number of scopes) *)
Fixpoint path_fuel (fuel : nat) (st : state) (s : sid) : list sid :=
  match fuel with
  | 0 => []
  | S f => s :: match s_parent (get_scope st s) with
                | None => []
                | Some p => path_fuel f st p
                end
  end.
Definition path (st : state) (s : sid) : list sid := path_fuel (length (st_scopes st)) st s.

(* s.appendSubscopes(nil): pre-order *)
Fixpoint subtree_fuel (fuel : nat) (st : state) (s : sid) : list sid :=
  match fuel with
  | 0 => [s]
  | S f => s :: flat_map (subtree_fuel f st) (s_children (get_scope st s))
  end.
Definition subtree (st : state) (s : sid) : list sid := subtree_fuel (length (st_scopes st)) st s.

Definition providers_at (st : state) (b : sid) (k : key) : list nid :=
  alookup_list key_eqb k (s_providers (get_scope st b)).

(* getAllValueProviders / getAllGroupProviders *)
Definition providers_on_path (st : state) (a : sid) (k : key) : list nid :=
  flat_map (fun b => providers_at st b k) (path st a).

Definition get_count (st : state) (f : fnid) : nat :=
  opt_default 0 (alookup Nat.eqb f (st_count st)).

Definition is_nil {A} (l : list A) : bool := match l with [] => true | _ => false end.
Definition is_some {A} (o : option A) : bool := match o with Some _ => true | None => false end.
