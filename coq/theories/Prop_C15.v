(* Prop_C15.v — property theorems for C15, and nothing else: each statement is closed
   by `exact <lemma>` and followed by Print Assumptions. *)
From Dig Require Import Base Sig State Graph GraphProofs Register Resolve Run Spec Check
  ErrTable Err ErrTableCheck GoTypes Parse RunRaw Cases P_Parse P_C15.

(* ---- C15: the evaluator sees a signature only through its flattened leaves
        and build sequence (Resolve.call_ctor / invoke use sig_leaves,
        sig_build_seq, sig_order, sig_rleaves only); the equivalent encodings
        leave exactly these unchanged ---- *)
Theorem C15_param_object_partial : forall ps1 ps2 ps3 rs e,
  (forall k s, ~ In (PGroup k s) ps2) ->
  sig_leaves (mkSig (ps1 ++ ps2 ++ ps3) rs e) = sig_leaves (mkSig (ps1 ++ [PObj ps2] ++ ps3) rs e) /\
  sig_build_seq (mkSig (ps1 ++ ps2 ++ ps3) rs e) = sig_build_seq (mkSig (ps1 ++ [PObj ps2] ++ ps3) rs e).
Proof. exact P_Parse.C15_param_object. Qed.
Print Assumptions C15_param_object_partial.

Theorem C15_result_object_partial : forall ps rs1 rs2 rs3 e,
  sig_rleaves (mkSig ps (rs1 ++ rs2 ++ rs3) e) = sig_rleaves (mkSig ps (rs1 ++ [RObj rs2] ++ rs3) e).
Proof. exact P_Parse.C15_result_object. Qed.
Print Assumptions C15_result_object_partial.

Theorem C15_variadic_partial : forall ts v outs outs',
  new_param_list (mkFunc (ts ++ [v]) outs true) = new_param_list (mkFunc ts outs' false).
Proof. exact P_Parse.C15_variadic_dropped. Qed.
Print Assumptions C15_variadic_partial.

(* ---- C15 on runs: histories whose signatures are equivalent encodings
        (equal flattened leaves, build order and result leaves) have IDENTICAL
        runs: verdicts, executions, arguments, callbacks ---- *)
Theorem C15_holds : forall cfg b du h1 h2, hist_equiv h1 h2 -> run cfg b du h1 = run cfg b du h2.
Proof. exact P_C15.C15_run_equal. Qed.
Print Assumptions C15_holds.

Theorem C15_wrap_params_equivalent : forall ps1 ps2 ps3 rs e, P_Parse.no_soft ps2 ->
  sig_equiv (mkSig (ps1 ++ ps2 ++ ps3) rs e) (mkSig (ps1 ++ [PObj ps2] ++ ps3) rs e).
Proof. exact P_C15.wrap_params_equiv. Qed.
Print Assumptions C15_wrap_params_equivalent.

Theorem C15_wrap_results_equivalent : forall ps rs1 rs2 rs3 e,
  sig_equiv (mkSig ps (rs1 ++ rs2 ++ rs3) e) (mkSig ps (rs1 ++ [RObj rs2] ++ rs3) e).
Proof. exact P_C15.wrap_results_equiv. Qed.
Print Assumptions C15_wrap_results_equivalent.
