(* P_Frame.v — property C06: a rejected Provide or Decorate leaves no trace.

   Part 0  list / setter facts
   Part 2  the frame theorems: [same_but_verified] (= [erase_verified] equal),
           [rollback_append], [provide_rejected_cases], [provide_rejected_frame(_gen)],
           [decorate_rejected_frame], [bad_frame], [provide_no_event],
           [wf_scope_graph], [provide_never_aborts], [provide_abort_only_fuel]
   Part 1  the structural invariant [SInv = TInv /\ BInv]: [SInv_init],
           [SInv_new_scope], [SInv_provide], [SInv_decorate], [SInv_invoke]
           (via [eval_pres]: resolution preserves [skel] and the flags),
           [SInv_state_after] for [wf_scopes] histories; fuel sufficiency of
           [path]/[subtree]; [subtree_NoDup]
   Part 3  [verified] is only an optimisation: [VInv] (a set flag is backed by
           the current graph), [AInv] (all graphs acyclic, non-deferred mode),
           preserved by every operation: [GInv_step], [GInv_state_after],
           [reachable_acyclic], [invoke_never_cycle]
   Examples by vm_compute at the end.

   Part 2 comes before Part 1 in the file because it turns out NOT to need the
   structural invariant: graphHolder.Rollback (truncation to the snapshot
   length) is exact for any list of scopes, with or without duplicates. *)
From Dig Require Import Base Sig State Graph GraphProofs Register Resolve Run EvalInd.

(* ================================================================== *)
(* Part 0 : generic facts                                              *)
(* ================================================================== *)

Lemma upd_nth_length : forall (A : Type) (f : A -> A) (l : list A) (i : nat),
  length (upd_nth i f l) = length l.
Proof.
  intros A f l; induction l as [|h t IH]; intros [|i]; cbn; auto.
Qed.

Lemma nth_upd_nth : forall (A : Type) (f : A -> A) (d : A) (l : list A) (i j : nat),
  nth j (upd_nth i f l) d =
  if Nat.eqb j i && Nat.ltb i (length l) then f (nth j l d) else nth j l d.
Proof.
  intros A f d l; induction l as [|h t IH]; intros i j.
  - destruct i, j; cbn; rewrite ?andb_false_r; reflexivity.
  - destruct i as [|i], j as [|j]; cbn; try reflexivity.
    apply IH.
Qed.

Lemma upd_nth_id : forall (A : Type) (f : A -> A) (d : A) (l : list A) (i : nat),
  (i < length l -> f (nth i l d) = nth i l d) -> upd_nth i f l = l.
Proof.
  intros A f d l; induction l as [|h t IH]; intros [|i] H; cbn in *; try reflexivity.
  - rewrite H by lia. reflexivity.
  - rewrite IH; [reflexivity|]. intros Hi. apply H. lia.
Qed.

Lemma upd_nth_upd_nth : forall (A : Type) (f g : A -> A) (l : list A) (i : nat),
  upd_nth i g (upd_nth i f l) = upd_nth i (fun x => g (f x)) l.
Proof.
  intros A f g l; induction l as [|h t IH]; intros [|i]; cbn; try reflexivity.
  rewrite IH. reflexivity.
Qed.

Lemma map_upd_nth_comm : forall (A B : Type) (h : A -> B) (f : A -> A) (f' : B -> B),
  (forall c, h (f c) = f' (h c)) ->
  forall l i, map h (upd_nth i f l) = upd_nth i f' (map h l).
Proof.
  intros A B h f f' Hc l; induction l as [|x t IH]; intros [|i]; cbn; try reflexivity.
  - rewrite Hc. reflexivity.
  - rewrite IH. reflexivity.
Qed.

Lemma map_upd_nth_absorb : forall (A B : Type) (h : A -> B) (f : A -> A),
  (forall c, h (f c) = h c) ->
  forall l i, map h (upd_nth i f l) = map h l.
Proof.
  intros A B h f Hc l; induction l as [|x t IH]; intros [|i]; cbn; try reflexivity.
  - rewrite Hc. reflexivity.
  - rewrite IH. reflexivity.
Qed.

Lemma firstn_length_app : forall (A : Type) (l r : list A), firstn (length l) (l ++ r) = l.
Proof.
  intros A l r; induction l as [|h t IH]; cbn; [destruct r; reflexivity|].
  rewrite IH. reflexivity.
Qed.

Arguments upd_nth_length {A} f l i.
Arguments nth_upd_nth {A} f d l i j.
Arguments upd_nth_id {A} f d l i _.
Arguments upd_nth_upd_nth {A} f g l i.
Arguments map_upd_nth_comm {A B} h f f' _ l i.
Arguments map_upd_nth_absorb {A B} h f _ l i.
Arguments firstn_length_app {A} l r.

Lemma state_eq : forall st st',
  st_scopes st = st_scopes st' -> st_nodes st = st_nodes st' -> st_decs st = st_decs st' ->
  st_count st = st_count st' -> st_clock st = st_clock st' -> st_log st = st_log st' -> st = st'.
Proof.
  intros [a b c d e f] [a' b' c' d' e' f']; cbn; intros; subst; reflexivity.
Qed.

Lemma sc_set_gnodes_eta : forall c, sc_set_gnodes (s_gnodes c) c = c.
Proof. intros []; reflexivity. Qed.
Lemma sc_set_providers_eta : forall c, sc_set_providers (s_providers c) c = c.
Proof. intros []; reflexivity. Qed.

(* get_scope after upd_scope *)
Lemma get_scope_upd : forall st a f x,
  get_scope (upd_scope st a f) x =
  if Nat.eqb x a && Nat.ltb a (length (st_scopes st)) then f (get_scope st x) else get_scope st x.
Proof.
  intros st a f x. unfold get_scope, upd_scope. cbn [st_scopes set_scopes]. apply nth_upd_nth.
Qed.

Lemma get_scope_upd_other : forall st a f x, x <> a -> get_scope (upd_scope st a f) x = get_scope st x.
Proof.
  intros st a f x Hne. rewrite get_scope_upd.
  destruct (Nat.eqb_spec x a); [contradiction|reflexivity].
Qed.

Lemma get_scope_upd_same : forall st a f, a < length (st_scopes st) ->
  get_scope (upd_scope st a f) a = f (get_scope st a).
Proof.
  intros st a f Hlt. rewrite get_scope_upd, Nat.eqb_refl.
  apply Nat.ltb_lt in Hlt. rewrite Hlt. reflexivity.
Qed.

Lemma get_scope_overflow : forall st a, length (st_scopes st) <= a -> get_scope st a = empty_scope None.
Proof. intros st a H. unfold get_scope. apply nth_overflow. exact H. Qed.

Lemma upd_scope_length : forall st a f, length (st_scopes (upd_scope st a f)) = length (st_scopes st).
Proof. intros. unfold upd_scope. cbn [st_scopes set_scopes]. apply upd_nth_length. Qed.

Lemma upd_scope_overflow : forall st a f, length (st_scopes st) <= a -> upd_scope st a f = st.
Proof.
  intros st a f H. unfold upd_scope.
  rewrite (upd_nth_id f (empty_scope None)) by lia. destruct st; reflexivity.
Qed.

Lemma upd_scope_twice : forall st s f g,
  upd_scope (upd_scope st s f) s g = upd_scope st s (fun c => g (f c)).
Proof.
  intros [sc n d c k l] s f g. unfold upd_scope, set_scopes; cbn. rewrite upd_nth_upd_nth. reflexivity.
Qed.

Lemma upd_scope_id : forall st s f, f (get_scope st s) = get_scope st s -> upd_scope st s f = st.
Proof.
  intros [sc n d c k l] s f H. unfold upd_scope, set_scopes, get_scope in *; cbn in *.
  rewrite (upd_nth_id f (empty_scope None)); [reflexivity|]. intros _. exact H.
Qed.

(* ================================================================== *)
(* Part 2 : the frame theorems                                         *)
(* ================================================================== *)

Definition scope_sbv (c c' : scope) : Prop :=
  s_parent c = s_parent c' /\ s_children c = s_children c' /\
  s_providers c = s_providers c' /\ s_decorators c = s_decorators c' /\
  s_nodes c = s_nodes c' /\ s_values c = s_values c' /\ s_dvalues c = s_dvalues c' /\
  s_groups c = s_groups c' /\ s_dgroups c = s_dgroups c' /\ s_gnodes c = s_gnodes c'.

(* everything equal except possibly the [s_verified] flags *)
Definition same_but_verified (st st' : state) : Prop :=
  st_nodes st = st_nodes st' /\ st_decs st = st_decs st' /\ st_count st = st_count st' /\
  st_clock st = st_clock st' /\ st_log st = st_log st' /\
  length (st_scopes st) = length (st_scopes st') /\
  forall a, scope_sbv (get_scope st a) (get_scope st' a).

(* the same thing as an equation: forget the flags *)
Definition erase_verified (st : state) : state :=
  set_scopes st (map (sc_set_verified false) (st_scopes st)).

Lemma scope_sbv_iff : forall c c', scope_sbv c c' <-> sc_set_verified false c = sc_set_verified false c'.
Proof.
  intros [a1 a2 a3 a4 a5 a6 a7 a8 a9 a10 a11] [b1 b2 b3 b4 b5 b6 b7 b8 b9 b10 b11].
  unfold scope_sbv, sc_set_verified; cbn. split.
  - intros (?&?&?&?&?&?&?&?&?&?). subst. reflexivity.
  - intros H. injection H as -> -> -> -> -> -> -> -> -> ->. repeat split.
Qed.

Lemma get_scope_erase : forall st a, get_scope (erase_verified st) a = sc_set_verified false (get_scope st a).
Proof.
  intros st a. unfold get_scope, erase_verified. cbn [st_scopes set_scopes].
  change (empty_scope None) with (sc_set_verified false (empty_scope None)) at 1.
  apply map_nth.
Qed.

Theorem same_but_verified_iff : forall st st',
  same_but_verified st st' <-> erase_verified st = erase_verified st'.
Proof.
  intros st st'. split.
  - intros (Hn & Hd & Hc & Hk & Hl & Hlen & Hs).
    apply state_eq; cbn; try assumption.
    apply (nth_ext _ _ (empty_scope None) (empty_scope None)).
    + rewrite !map_length. exact Hlen.
    + intros n _.
      change (empty_scope None) with (sc_set_verified false (empty_scope None)).
      rewrite !map_nth. apply scope_sbv_iff. apply Hs.
  - intros H. unfold same_but_verified.
    split; [apply (f_equal st_nodes) in H; exact H|].
    split; [apply (f_equal st_decs) in H; exact H|].
    split; [apply (f_equal st_count) in H; exact H|].
    split; [apply (f_equal st_clock) in H; exact H|].
    split; [apply (f_equal st_log) in H; exact H|].
    split.
    + apply (f_equal (fun s => length (st_scopes s))) in H. cbn in H. rewrite !map_length in H. exact H.
    + intros a. apply scope_sbv_iff. rewrite <- !get_scope_erase. rewrite H. reflexivity.
Qed.

Lemma sbv_refl : forall st, same_but_verified st st.
Proof. intros st. apply same_but_verified_iff. reflexivity. Qed.
Lemma sbv_sym : forall a b, same_but_verified a b -> same_but_verified b a.
Proof. intros a b H. apply same_but_verified_iff. symmetry. apply same_but_verified_iff. exact H. Qed.
Lemma sbv_trans : forall a b c, same_but_verified a b -> same_but_verified b c -> same_but_verified a c.
Proof.
  intros a b c H1 H2. apply same_but_verified_iff.
  apply same_but_verified_iff in H1. apply same_but_verified_iff in H2. congruence.
Qed.

(* ---------- erase_verified commutes with the registration primitives ---------- *)

Lemma E_set_nodes : forall st N, erase_verified (set_nodes st N) = set_nodes (erase_verified st) N.
Proof. reflexivity. Qed.

Lemma E_upd_comm : forall st a f,
  (forall c, sc_set_verified false (f c) = f (sc_set_verified false c)) ->
  erase_verified (upd_scope st a f) = upd_scope (erase_verified st) a f.
Proof.
  intros st a f Hc. unfold erase_verified, upd_scope. cbn [st_scopes set_scopes].
  rewrite (map_upd_nth_comm (sc_set_verified false) f f Hc).
  destruct st; reflexivity.
Qed.

Lemma E_upd_verified : forall st a b, erase_verified (upd_scope st a (sc_set_verified b)) = erase_verified st.
Proof.
  intros st a b. unfold erase_verified, upd_scope. cbn [st_scopes set_scopes].
  rewrite map_upd_nth_absorb; [destruct st; reflexivity|].
  intros c. reflexivity.
Qed.

Lemma E_fold_append : forall gs A st,
  erase_verified (fold_left (append_gnodes gs) A st) = fold_left (append_gnodes gs) A (erase_verified st).
Proof.
  intros gs A; induction A as [|a A IH]; intros st; cbn [fold_left]; [reflexivity|].
  rewrite IH. f_equal. unfold append_gnodes. apply E_upd_comm. intros c. reflexivity.
Qed.

Lemma E_rollback : forall snap st,
  erase_verified (rollback_gnodes snap st) = rollback_gnodes snap (erase_verified st).
Proof.
  unfold rollback_gnodes.
  intros snap; induction snap as [|p snap IH]; intros st; cbn [fold_left]; [reflexivity|].
  rewrite IH. f_equal. apply E_upd_comm. intros c. reflexivity.
Qed.

Lemma snapshot_erase : forall st A, snapshot (erase_verified st) A = snapshot st A.
Proof.
  intros st A. unfold snapshot. apply map_ext. intros a. rewrite get_scope_erase. reflexivity.
Qed.

Lemma verify_loop_E : forall d A st r st4,
  verify_loop d A st = (r, st4) -> erase_verified st4 = erase_verified st.
Proof.
  intros d A; induction A as [|a A IH]; intros st r st4 H; cbn [verify_loop] in H.
  - inversion H; subst. reflexivity.
  - destruct d.
    + apply IH in H. rewrite H. apply E_upd_verified.
    + destruct (is_acyclic (scope_graph (upd_scope st a (sc_set_verified false)) a)) as [[[|] c]|] eqn:Ea.
      * apply IH in H. rewrite H, !E_upd_verified. reflexivity.
      * inversion H; subst. apply E_upd_verified.
      * inversion H; subst. apply E_upd_verified.
Qed.

Lemma verify_loop_not_fail : forall d A st e st4, verify_loop d A st <> (Fail e, st4).
Proof.
  intros d A; induction A as [|a A IH]; intros st e st4 H; cbn [verify_loop] in H.
  - discriminate.
  - destruct d.
    + eapply IH; eauto.
    + destruct (is_acyclic _) as [[[|] c]|]; try discriminate. eapply IH; eauto.
Qed.

(* ---------- rollback after append restores the graph holders ---------- *)

Section Rollback.
  Variable gs : list gref.
  Variable Y : state.

  (* [st'] is [Y] with some copies of [gs]-elements appended to some graph
     holders; nothing else differs *)
  Definition ext_of (st' : state) : Prop :=
    st_nodes st' = st_nodes Y /\ st_decs st' = st_decs Y /\ st_count st' = st_count Y /\
    st_clock st' = st_clock Y /\ st_log st' = st_log Y /\
    length (st_scopes st') = length (st_scopes Y) /\
    forall x, exists extra, incl extra gs /\
      get_scope st' x = sc_set_gnodes (s_gnodes (get_scope Y x) ++ extra) (get_scope Y x).

  Lemma ext_of_refl : ext_of Y.
  Proof.
    repeat split. intros x. exists []. split; [intros z []|].
    rewrite app_nil_r, sc_set_gnodes_eta. reflexivity.
  Qed.

  Lemma ext_of_append : forall st' a, ext_of st' ->
    ext_of (append_gnodes gs st' a) /\
    forall x, x <> a -> get_scope (append_gnodes gs st' a) x = get_scope st' x.
  Proof.
    intros st' a (Hn & Hd & Hc & Hk & Hl & Hlen & Hs). unfold append_gnodes. split.
    - repeat split; try assumption.
      + rewrite upd_scope_length. exact Hlen.
      + intros x. rewrite get_scope_upd. destruct (Hs x) as [extra [Hincl Hx]].
        destruct (Nat.eqb x a && Nat.ltb a (length (st_scopes st'))).
        * exists (extra ++ gs). split.
          { apply incl_app; [exact Hincl | apply incl_refl]. }
          rewrite Hx. destruct (get_scope Y x); cbn. rewrite app_assoc. reflexivity.
        * exists extra. split; assumption.
    - intros x Hne. apply get_scope_upd_other. exact Hne.
  Qed.

  Lemma ext_of_fold : forall A st', ext_of st' ->
    ext_of (fold_left (append_gnodes gs) A st') /\
    forall x, ~ In x A -> get_scope (fold_left (append_gnodes gs) A st') x = get_scope st' x.
  Proof.
    intros A; induction A as [|a A IH]; intros st' H; cbn [fold_left].
    - split; [exact H | reflexivity].
    - destruct (ext_of_append st' a H) as [H1 H2].
      destruct (IH _ H1) as [H3 H4]. split; [exact H3|].
      intros x Hx. rewrite H4 by (intros Hin; apply Hx; right; exact Hin).
      apply H2. intros ->. apply Hx. left; reflexivity.
  Qed.

  Definition trunc (a : sid) (st' : state) : state :=
    upd_scope st' a (fun c => sc_set_gnodes (firstn (length (s_gnodes (get_scope Y a))) (s_gnodes c)) c).

  Lemma ext_of_trunc : forall st' a, ext_of st' ->
    ext_of (trunc a st') /\
    get_scope (trunc a st') a = get_scope Y a /\
    forall x, get_scope st' x = get_scope Y x -> get_scope (trunc a st') x = get_scope Y x.
  Proof.
    intros st' a (Hn & Hd & Hc & Hk & Hl & Hlen & Hs). unfold trunc.
    assert (Hsame : a < length (st_scopes st') ->
              get_scope (upd_scope st' a (fun c => sc_set_gnodes (firstn (length (s_gnodes (get_scope Y a))) (s_gnodes c)) c)) a
              = get_scope Y a).
    { intros Hlt. rewrite get_scope_upd_same by exact Hlt.
      destruct (Hs a) as [extra [_ Hx]]. rewrite Hx.
      destruct (get_scope Y a); cbn. rewrite firstn_length_app. reflexivity. }
    split; [|split].
    - repeat split; try assumption.
      + rewrite upd_scope_length. exact Hlen.
      + intros x. rewrite get_scope_upd.
        destruct (Nat.eqb_spec x a) as [->|Hne]; cbn [andb].
        * destruct (Nat.ltb_spec a (length (st_scopes st'))) as [Hlt|Hge].
          -- exists []. split; [intros z []|].
             specialize (Hsame Hlt). rewrite get_scope_upd_same in Hsame by exact Hlt.
             rewrite Hsame, app_nil_r, sc_set_gnodes_eta. reflexivity.
          -- apply Hs.
        * apply Hs.
    - destruct (Nat.lt_ge_cases a (length (st_scopes st'))) as [Hlt|Hge].
      + apply Hsame. exact Hlt.
      + rewrite upd_scope_overflow by exact Hge.
        rewrite !get_scope_overflow by lia. reflexivity.
    - intros x Hx. destruct (Nat.eq_dec x a) as [->|Hne].
      + destruct (Nat.lt_ge_cases a (length (st_scopes st'))) as [Hlt|Hge].
        * apply Hsame. exact Hlt.
        * rewrite upd_scope_overflow by exact Hge. exact Hx.
      + rewrite get_scope_upd_other by exact Hne. exact Hx.
  Qed.

  Lemma rollback_restores : forall A st', ext_of st' ->
    ext_of (rollback_gnodes (snapshot Y A) st') /\
    (forall x, In x A -> get_scope (rollback_gnodes (snapshot Y A) st') x = get_scope Y x) /\
    (forall x, get_scope st' x = get_scope Y x ->
               get_scope (rollback_gnodes (snapshot Y A) st') x = get_scope Y x).
  Proof.
    unfold rollback_gnodes, snapshot.
    intros A; induction A as [|a A IH]; intros st' H; cbn [map fold_left fst snd].
    - split; [exact H|]. split; [intros x []|auto].
    - destruct (ext_of_trunc st' a H) as (H1 & H2 & H3). fold (trunc a st').
      destruct (IH _ H1) as (H4 & H5 & H6).
      split; [exact H4|]. split.
      + intros x [<-|Hin]; [apply H6; exact H2 | apply H5; exact Hin].
      + intros x Hx. apply H6. apply H3. exact Hx.
  Qed.

  Lemma ext_all_eq : forall st', ext_of st' -> (forall x, get_scope st' x = get_scope Y x) -> st' = Y.
  Proof.
    intros st' (Hn & Hd & Hc & Hk & Hl & Hlen & _) Hall.
    apply state_eq; try assumption.
    apply (nth_ext _ _ (empty_scope None) (empty_scope None)); [exact Hlen|].
    intros n _. apply Hall.
  Qed.

  (* graphHolder.Rollback after any sequence of appends is exact, for ANY
     list of scopes (duplicates and dangling ids included) *)
  Theorem rollback_append : forall A,
    rollback_gnodes (snapshot Y A) (fold_left (append_gnodes gs) A Y) = Y.
  Proof.
    intros A.
    destruct (ext_of_fold A Y ext_of_refl) as [H1 H2].
    destruct (rollback_restores A _ H1) as (H3 & H4 & H5).
    apply ext_all_eq; [exact H3|].
    intros x. destruct (in_dec Nat.eq_dec x A) as [Hin|Hnin].
    - apply H4. exact Hin.
    - apply H5. apply H2. exact Hnin.
  Qed.
End Rollback.

Lemma fold_append_set_nodes : forall gs A st N,
  fold_left (append_gnodes gs) A (set_nodes st N) = set_nodes (fold_left (append_gnodes gs) A st) N.
Proof.
  intros gs A; induction A as [|a A IH]; intros st N; cbn [fold_left]; [reflexivity|].
  rewrite <- IH. reflexivity.
Qed.

Lemma rollback_set_nodes : forall snap st N,
  rollback_gnodes snap (set_nodes st N) = set_nodes (rollback_gnodes snap st) N.
Proof.
  unfold rollback_gnodes.
  intros snap; induction snap as [|p snap IH]; intros st N; cbn [fold_left]; [reflexivity|].
  rewrite <- IH. reflexivity.
Qed.

Lemma set_nodes_back : forall st N, set_nodes (set_nodes st N) (st_nodes st) = st.
Proof. intros [] N; reflexivity. Qed.

(* the [undo] closure of provide() applied right after the appends *)
Lemma provide_undo_exact : forall gs A st N,
  set_nodes (rollback_gnodes (snapshot st A) (fold_left (append_gnodes gs) A (set_nodes st N))) (st_nodes st) = st.
Proof.
  intros gs A st N.
  rewrite fold_append_set_nodes, rollback_set_nodes, rollback_append. apply set_nodes_back.
Qed.

(* the same with the providers of [s] overwritten and then restored, modulo flags *)
Lemma provide_undo_cycle : forall gs A st N s (G : list (key * list nid) -> list (key * list nid)) d r st4,
  let st2 := fold_left (append_gnodes gs) A (set_nodes st N) in
  verify_loop d A (upd_scope st2 s (fun c => sc_set_providers (G (s_providers c)) c)) = (r, st4) ->
  erase_verified
    (set_nodes (rollback_gnodes (snapshot st A)
                  (upd_scope st4 s (sc_set_providers (s_providers (get_scope st2 s))))) (st_nodes st))
  = erase_verified st.
Proof.
  intros gs A st N s G d r st4 st2 Hv.
  apply verify_loop_E in Hv.
  rewrite E_set_nodes, E_rollback.
  rewrite E_upd_comm by (intros c; reflexivity).
  rewrite Hv. rewrite E_upd_comm by (intros c; reflexivity).
  assert (Hrest : upd_scope (upd_scope (erase_verified st2) s (fun c => sc_set_providers (G (s_providers c)) c)) s
                    (sc_set_providers (s_providers (get_scope st2 s))) = erase_verified st2).
  { rewrite upd_scope_twice. apply upd_scope_id.
    rewrite get_scope_erase. destruct (get_scope st2 s); reflexivity. }
  rewrite Hrest. unfold st2.
  rewrite E_fold_append, E_set_nodes, <- (snapshot_erase st A).
  change (st_nodes st) with (st_nodes (erase_verified st)).
  apply provide_undo_exact.
Qed.

(* ---------- scope graphs are always well formed: the DFS never runs dry ---------- *)

Lemma index_of_lt : forall (A : Type) (eqb : A -> A -> bool) (x : A) (l : list A) (i : nat),
  index_of eqb x l = Some i -> i < length l.
Proof.
  intros A eqb x l; induction l as [|h t IH]; intros i H; cbn in *; [discriminate|].
  destruct (eqb x h).
  - inversion H; subst. lia.
  - destruct (index_of eqb x t) as [j|]; cbn in H; [|discriminate].
    inversion H; subst. specialize (IH j eq_refl). lia.
Qed.

Lemma order_in_lt : forall st a g, s_gnodes (get_scope st a) <> [] ->
  order_in st a g < length (s_gnodes (get_scope st a)).
Proof.
  intros st a g Hne. unfold order_in.
  destruct (index_of gref_eqb g (s_gnodes (get_scope st a))) as [i|] eqn:E; cbn.
  - eapply index_of_lt; eauto.
  - destruct (s_gnodes (get_scope st a)); [congruence | cbn; lia].
Qed.

Lemma leaf_edges_In : forall st a n ls i v, In v (leaf_edges st a n i ls) -> exists g, v = order_in st a g.
Proof.
  intros st a n ls; induction ls as [|[k o|k sf] t IH]; intros i v H; cbn [leaf_edges] in H.
  - destruct H.
  - apply in_app_iff in H. destruct H as [H|H]; [|eapply IH; eauto].
    apply in_map_iff in H. destruct H as [m [<- _]]. eexists; reflexivity.
  - destruct H as [<-|H]; [eexists; reflexivity | eapply IH; eauto].
Qed.

Lemma edges_of_In : forall st a g v, In v (edges_of st a g) -> exists g', v = order_in st a g'.
Proof.
  intros st a [n|n i] v H; cbn [edges_of] in H.
  - eapply leaf_edges_In; eauto.
  - destruct (nth_error _ i) as [[k o|k sf]|]; try destruct H.
    apply in_map_iff in H. destruct H as [m [<- _]]. eexists; reflexivity.
Qed.

Theorem wf_scope_graph : forall st a, wf_graph (scope_graph st a) = true.
Proof.
  intros st a. unfold wf_graph. apply forallb_forall. intros es Hes.
  apply forallb_forall. intros v Hv. apply Nat.ltb_lt.
  unfold scope_graph in *. rewrite map_length.
  apply in_map_iff in Hes. destruct Hes as [g [<- Hg]].
  destruct (edges_of_In _ _ _ _ Hv) as [g' ->].
  apply order_in_lt. intros E. rewrite E in Hg. destruct Hg.
Qed.
Print Assumptions wf_scope_graph.

Lemma scope_graph_fuel : forall st a, is_acyclic (scope_graph st a) <> None.
Proof. intros st a. apply dfs_fuel_enough. apply wf_scope_graph. Qed.

Lemma verify_loop_no_abort : forall d A st x st4, verify_loop d A st <> (Abort x, st4).
Proof.
  intros d A; induction A as [|a A IH]; intros st x st4 H; cbn [verify_loop] in H.
  - discriminate.
  - destruct d.
    + eapply IH; eauto.
    + destruct (is_acyclic _) as [[[|] c]|] eqn:E; try discriminate.
      * eapply IH; eauto.
      * eapply scope_graph_fuel; eauto.
Qed.

Lemma verify_loop_defer : forall A st r st4, verify_loop true A st = (r, st4) -> r = Done None.
Proof.
  intros A; induction A as [|a A IH]; intros st r st4 H; cbn [verify_loop] in H.
  - inversion H; reflexivity.
  - eapply IH; eauto.
Qed.

(* ---------- the components registration never touches ---------- *)

Definition aux (st : state) := (st_decs st, st_count st, st_clock st, st_log st, length (st_scopes st)).

Lemma aux_upd_scope : forall st a f, aux (upd_scope st a f) = aux st.
Proof. intros st a f. unfold aux. rewrite upd_scope_length. reflexivity. Qed.

Lemma aux_fold_append : forall gs A st, aux (fold_left (append_gnodes gs) A st) = aux st.
Proof.
  intros gs A; induction A as [|a A IH]; intros st; cbn [fold_left]; [reflexivity|].
  rewrite IH. apply aux_upd_scope.
Qed.

Lemma aux_rollback : forall snap st, aux (rollback_gnodes snap st) = aux st.
Proof.
  unfold rollback_gnodes.
  intros snap; induction snap as [|q snap IH]; intros st; cbn [fold_left]; [reflexivity|].
  rewrite IH. apply aux_upd_scope.
Qed.

Lemma aux_verify_loop : forall d A st r st4, verify_loop d A st = (r, st4) -> aux st4 = aux st.
Proof.
  intros d A; induction A as [|a A IH]; intros st r st4 H; cbn [verify_loop] in H.
  - inversion H; reflexivity.
  - destruct d.
    + apply IH in H. rewrite H. apply aux_upd_scope.
    + destruct (is_acyclic _) as [[[|] c]|].
      * apply IH in H. rewrite H, !aux_upd_scope. reflexivity.
      * inversion H; subst. apply aux_upd_scope.
      * inversion H; subst. apply aux_upd_scope.
Qed.

(* ---------- Provide ---------- *)

(* the three ways Provide can fail, and what each leaves behind *)
Theorem provide_rejected_cases : forall cfg st s0 p e st',
  provide cfg st s0 p = (VErr e, st') ->
  (e = err_dup /\ st' = st) \/
  (e = err_noresults /\ st' = st) \/
  (e = err_provide_cycle /\ cfg_defer cfg = false /\ same_but_verified st st').
Proof.
  intros cfg st s0 p e st' H. unfold provide in H. cbv zeta in H.
  destruct (dup_check _ _ _).
  - inversion H; subst. left. split; [reflexivity|]. apply provide_undo_exact.
  - destruct (is_nil _).
    + inversion H; subst. right; left. split; [reflexivity|]. apply provide_undo_exact.
    + destruct (verify_loop _ _ _) as [[[o|]|e'|x] st4] eqn:Ev; try discriminate.
      * inversion H; subst. right; right. split; [reflexivity|]. split.
        { destruct (cfg_defer cfg); [|reflexivity].
          apply verify_loop_defer in Ev. discriminate. }
        apply same_but_verified_iff. symmetry.
        eapply provide_undo_cycle
          with (G := fold_left (add_provider (length (st_nodes st))) (dedup_first key_eqb (sig_keys (pi_sig p)))).
        exact Ev.
      * exfalso. eapply verify_loop_not_fail; eauto.
Qed.
Print Assumptions provide_rejected_cases.

(* C06 for Provide, in its general form: no hypothesis on the state at all *)
Theorem provide_rejected_frame_gen : forall cfg st s0 p e st',
  provide cfg st s0 p = (VErr e, st') -> same_but_verified st st'.
Proof.
  intros cfg st s0 p e st' H.
  destruct (provide_rejected_cases _ _ _ _ _ _ H) as [[_ ->]|[[_ ->]|(_ & _ & Hs)]];
    [apply sbv_refl | apply sbv_refl | exact Hs].
Qed.
Print Assumptions provide_rejected_frame_gen.

(* in deferred mode (DeferAcyclicVerification) a rejected Provide changes nothing at all *)
Corollary provide_rejected_defer_exact : forall cfg st s0 p e st',
  cfg_defer cfg = true -> provide cfg st s0 p = (VErr e, st') -> st' = st.
Proof.
  intros cfg st s0 p e st' Hd H.
  destruct (provide_rejected_cases _ _ _ _ _ _ H) as [[_ ->]|[[_ ->]|(_ & Hf & _)]]; try reflexivity.
  congruence.
Qed.

(* Provide never aborts: is_acyclic has enough fuel on every scope graph *)
Theorem provide_never_aborts : forall cfg st s0 p x st', provide cfg st s0 p <> (VAbort x, st').
Proof.
  intros cfg st s0 p x st' H. unfold provide in H. cbv zeta in H.
  destruct (dup_check _ _ _); [discriminate|].
  destruct (is_nil _); [discriminate|].
  destruct (verify_loop _ _ _) as [[[o|]|e'|y] st4] eqn:Ev; try discriminate.
  eapply verify_loop_no_abort; eauto.
Qed.
Print Assumptions provide_never_aborts.

(* "as it is", i.e. without appealing to GraphProofs: the only abort Provide can
   produce is the DFS of some scope of the subtree running out of fuel *)
Lemma verify_loop_abort_inv : forall d A st x st4, verify_loop d A st = (Abort x, st4) ->
  x = AFuel /\ d = false /\ exists a st1, In a A /\ is_acyclic (scope_graph st1 a) = None.
Proof.
  intros d A; induction A as [|a0 A IH]; intros st x st4 H; cbn [verify_loop] in H.
  - discriminate.
  - destruct d.
    + apply IH in H. destruct H as (_ & Hd & _). discriminate.
    + destruct (is_acyclic (scope_graph (upd_scope st a0 (sc_set_verified false)) a0)) as [[[|] c]|] eqn:E;
        try discriminate.
      * apply IH in H. destruct H as (Hx & Hd & a & st1 & Ha & Hn).
        split; [exact Hx|]. split; [reflexivity|]. exists a, st1. split; [right; exact Ha | exact Hn].
      * inversion H; subst. split; [reflexivity|]. split; [reflexivity|].
        exists a0, (upd_scope st a0 (sc_set_verified false)). split; [left; reflexivity | exact E].
Qed.

Theorem provide_abort_only_fuel : forall cfg st s0 p x st',
  provide cfg st s0 p = (VAbort x, st') ->
  x = AFuel /\ cfg_defer cfg = false /\
  exists a st1, In a (subtree st (if pi_export p then 0 else s0)) /\ is_acyclic (scope_graph st1 a) = None.
Proof.
  intros cfg st s0 p x st' H. unfold provide in H. cbv zeta in H.
  destruct (dup_check _ _ _); [discriminate|].
  destruct (is_nil _); [discriminate|].
  destruct (verify_loop _ _ _) as [[[o|]|e'|y] st4] eqn:Ev; try discriminate.
  inversion H; subst. eapply verify_loop_abort_inv; eauto.
Qed.
Print Assumptions provide_abort_only_fuel.

(* no outcome of Provide touches decorators, counters, clock, log or the number of scopes *)
Theorem provide_aux : forall cfg st s0 p v st',
  provide cfg st s0 p = (v, st') -> aux st' = aux st.
Proof.
  intros cfg st s0 p v st' H. unfold provide in H. cbv zeta in H.
  destruct (dup_check _ _ _).
  - inversion H; subst. rewrite provide_undo_exact. reflexivity.
  - destruct (is_nil _).
    + inversion H; subst. rewrite provide_undo_exact. reflexivity.
    + destruct (verify_loop _ _ _) as [[[o|]|e'|y] st4] eqn:Ev; inversion H; subst; clear H;
        apply aux_verify_loop in Ev; rewrite aux_upd_scope, aux_fold_append in Ev.
      * change (aux (set_nodes ?x ?n)) with (aux x). rewrite aux_rollback, aux_upd_scope. exact Ev.
      * rewrite aux_upd_scope. exact Ev.
      * exact Ev.
      * exact Ev.
Qed.

Corollary provide_no_event : forall cfg st s0 p v st',
  provide cfg st s0 p = (v, st') -> st_log st' = st_log st.
Proof.
  intros cfg st s0 p v st' H. apply provide_aux in H. unfold aux in H. congruence.
Qed.
Print Assumptions provide_no_event.

(* ---------- Decorate, OBad ---------- *)

Theorem decorate_rejected_frame : forall st s p e st',
  decorate st s p = (VErr e, st') -> st' = st.
Proof.
  intros st s p e st' H. unfold decorate in H.
  destruct (negb _ || existsb _ _); inversion H; reflexivity.
Qed.
Print Assumptions decorate_rejected_frame.

Theorem bad_frame : forall cfg b du st k s f v st',
  step cfg b du st (OBad k s f) = (v, st') -> st' = st /\ exists e, v = VErr e.
Proof.
  intros cfg b du st k s f v st' H. cbn in H. inversion H; subst.
  split; [reflexivity | eexists; reflexivity].
Qed.
Print Assumptions bad_frame.

Lemma decorate_no_event : forall st s p v st', decorate st s p = (v, st') -> st_log st' = st_log st.
Proof.
  intros st s p v st' H. unfold decorate in H.
  destruct (negb _ || existsb _ _); inversion H; reflexivity.
Qed.

Lemma decorate_never_aborts : forall st s p x st', decorate st s p <> (VAbort x, st').
Proof.
  intros st s p x st' H. unfold decorate in H. destruct (negb _ || existsb _ _); discriminate.
Qed.

(* ================================================================== *)
(* Part 1 : the structural invariant                                   *)
(* ================================================================== *)

(* ---------- the skeleton of a state: what resolution never touches ---------- *)

Definition sc_skel (c : scope) : scope :=
  mkScope (s_parent c) (s_children c) (s_providers c) (s_decorators c) (s_nodes c) [] [] [] [] false (s_gnodes c).
Definition cn_skel (c : cnode) : cnode :=
  mkCNode (c_fn c) (c_sig c) (c_home c) (c_orig c) false false (c_cb c).
Definition dn_skel (d : dnode) : dnode :=
  mkDNode (d_fn d) (d_sig d) (d_home d) DReady (d_cb d).
Definition skel (st : state) : state :=
  mkState (map sc_skel (st_scopes st)) (map cn_skel (st_nodes st)) (map dn_skel (st_decs st)) [] 0%N [].

Lemma get_scope_skel : forall st a, get_scope (skel st) a = sc_skel (get_scope st a).
Proof.
  intros st a. unfold get_scope, skel. cbn [st_scopes].
  change (empty_scope None) with (sc_skel (empty_scope None)) at 1. apply map_nth.
Qed.
Lemma get_node_skel : forall st n, get_node (skel st) n = cn_skel (get_node st n).
Proof.
  intros st n. unfold get_node, skel. cbn [st_nodes].
  change dummy_cnode with (cn_skel dummy_cnode) at 1. apply map_nth.
Qed.
Lemma get_dec_skel : forall st d, get_dec (skel st) d = dn_skel (get_dec st d).
Proof.
  intros st d. unfold get_dec, skel. cbn [st_decs].
  change dummy_dnode with (dn_skel dummy_dnode) at 1. apply map_nth.
Qed.

(* what equal skeletons share *)
Record skel_fields (st st' : state) : Prop := mkSkelFields {
  sf_len : length (st_scopes st) = length (st_scopes st');
  sf_nlen : length (st_nodes st) = length (st_nodes st');
  sf_dlen : length (st_decs st) = length (st_decs st');
  sf_parent : forall a, s_parent (get_scope st a) = s_parent (get_scope st' a);
  sf_children : forall a, s_children (get_scope st a) = s_children (get_scope st' a);
  sf_providers : forall a, s_providers (get_scope st a) = s_providers (get_scope st' a);
  sf_decorators : forall a, s_decorators (get_scope st a) = s_decorators (get_scope st' a);
  sf_snodes : forall a, s_nodes (get_scope st a) = s_nodes (get_scope st' a);
  sf_gnodes : forall a, s_gnodes (get_scope st a) = s_gnodes (get_scope st' a);
  sf_cfn : forall n, c_fn (get_node st n) = c_fn (get_node st' n);
  sf_csig : forall n, c_sig (get_node st n) = c_sig (get_node st' n);
  sf_chome : forall n, c_home (get_node st n) = c_home (get_node st' n);
  sf_corig : forall n, c_orig (get_node st n) = c_orig (get_node st' n);
  sf_ccb : forall n, c_cb (get_node st n) = c_cb (get_node st' n);
  sf_dfn : forall d, d_fn (get_dec st d) = d_fn (get_dec st' d);
  sf_dsig : forall d, d_sig (get_dec st d) = d_sig (get_dec st' d);
  sf_dhome : forall d, d_home (get_dec st d) = d_home (get_dec st' d);
  sf_dcb : forall d, d_cb (get_dec st d) = d_cb (get_dec st' d)
}.

Lemma skel_eq_fields : forall st st', skel st = skel st' -> skel_fields st st'.
Proof.
  intros st st' H.
  assert (Hs : forall a, sc_skel (get_scope st a) = sc_skel (get_scope st' a))
    by (intros a; rewrite <- !get_scope_skel, H; reflexivity).
  assert (Hn : forall n, cn_skel (get_node st n) = cn_skel (get_node st' n))
    by (intros n; rewrite <- !get_node_skel, H; reflexivity).
  assert (Hd : forall d, dn_skel (get_dec st d) = dn_skel (get_dec st' d))
    by (intros d; rewrite <- !get_dec_skel, H; reflexivity).
  constructor.
  - apply (f_equal (fun s => length (st_scopes s))) in H. cbn in H. rewrite !map_length in H. exact H.
  - apply (f_equal (fun s => length (st_nodes s))) in H. cbn in H. rewrite !map_length in H. exact H.
  - apply (f_equal (fun s => length (st_decs s))) in H. cbn in H. rewrite !map_length in H. exact H.
  - intros a. exact (f_equal s_parent (Hs a)).
  - intros a. exact (f_equal s_children (Hs a)).
  - intros a. exact (f_equal s_providers (Hs a)).
  - intros a. exact (f_equal s_decorators (Hs a)).
  - intros a. exact (f_equal s_nodes (Hs a)).
  - intros a. exact (f_equal s_gnodes (Hs a)).
  - intros n. exact (f_equal c_fn (Hn n)).
  - intros n. exact (f_equal c_sig (Hn n)).
  - intros n. exact (f_equal c_home (Hn n)).
  - intros n. exact (f_equal c_orig (Hn n)).
  - intros n. exact (f_equal c_cb (Hn n)).
  - intros d. exact (f_equal d_fn (Hd d)).
  - intros d. exact (f_equal d_sig (Hd d)).
  - intros d. exact (f_equal d_home (Hd d)).
  - intros d. exact (f_equal d_cb (Hd d)).
Qed.

Lemma skel_erase : forall st, skel (erase_verified st) = skel st.
Proof.
  intros st. unfold skel, erase_verified. cbn [st_scopes st_nodes st_decs set_scopes].
  rewrite map_map. reflexivity.
Qed.

Lemma sbv_skel : forall st st', same_but_verified st st' -> skel st = skel st'.
Proof.
  intros st st' H. apply same_but_verified_iff in H.
  rewrite <- (skel_erase st), <- (skel_erase st'), H. reflexivity.
Qed.

(* ---------- the invariant ---------- *)

Definition gref_nid (g : gref) : nid := match g with GCtor n => n | GGroup n _ => n end.

(* the scope tree *)
Record TInv (st : state) : Prop := mkTInv {
  ti_nonempty : 0 < length (st_scopes st);
  ti_parent : forall s, s < length (st_scopes st) ->
      match s_parent (get_scope st s) with None => s = 0 | Some p => p < s end;
  ti_children : forall s c, s < length (st_scopes st) ->
      (In c (s_children (get_scope st s)) <->
       c < length (st_scopes st) /\ s_parent (get_scope st c) = Some s);
  ti_nodup : forall s, NoDup (s_children (get_scope st s))
}.

Arguments ti_nonempty {st} _.
Arguments ti_parent {st} _ s _.
Arguments ti_children {st} _ s c _.
Arguments ti_nodup {st} _ s.

Definition prov_bound (B : nat) (ps : list (key * list nid)) : Prop :=
  forall k ns m, In (k, ns) ps -> In m ns -> m < B.

(* every id stored anywhere is in range *)
Record BInv (st : state) : Prop := mkBInv {
  bi_providers : forall s, prov_bound (length (st_nodes st)) (s_providers (get_scope st s));
  bi_snodes : forall s n, In n (s_nodes (get_scope st s)) -> n < length (st_nodes st);
  bi_gnodes : forall s g, In g (s_gnodes (get_scope st s)) -> gref_nid g < length (st_nodes st);
  bi_decorators : forall s k d, In (k, d) (s_decorators (get_scope st s)) -> d < length (st_decs st);
  bi_node_home : forall n, n < length (st_nodes st) ->
      c_home (get_node st n) < length (st_scopes st) /\ c_orig (get_node st n) < length (st_scopes st);
  bi_dec_home : forall d, d < length (st_decs st) -> d_home (get_dec st d) < length (st_scopes st)
}.

Arguments bi_providers {st} _ s k ns m _ _.
Arguments bi_snodes {st} _ s n _.
Arguments bi_gnodes {st} _ s g _.
Arguments bi_decorators {st} _ s k d _.
Arguments bi_node_home {st} _ n _.
Arguments bi_dec_home {st} _ d _.

Definition SInv (st : state) : Prop := TInv st /\ BInv st.

Lemma TInv_fields : forall st st',
  length (st_scopes st) = length (st_scopes st') ->
  (forall a, s_parent (get_scope st a) = s_parent (get_scope st' a)) ->
  (forall a, s_children (get_scope st a) = s_children (get_scope st' a)) ->
  TInv st -> TInv st'.
Proof.
  intros st st' Hl Hp Hc [H1 H2 H3 H4]. constructor.
  - rewrite <- Hl. exact H1.
  - intros s Hs. rewrite <- Hp. apply H2. rewrite Hl. exact Hs.
  - intros s c Hs. rewrite <- Hc, <- Hp, <- Hl. apply H3. rewrite Hl. exact Hs.
  - intros s. rewrite <- Hc. apply H4.
Qed.

Lemma SInv_skel : forall st st', skel st = skel st' -> SInv st -> SInv st'.
Proof.
  intros st st' H [HT HB]. apply skel_eq_fields in H. destruct H. split.
  - eapply TInv_fields; eauto.
  - destruct HB as [B1 B2 B3 B4 B5 B6]. constructor.
    + intros s. rewrite <- sf_providers0, <- sf_nlen0. apply B1.
    + intros s n. rewrite <- sf_snodes0, <- sf_nlen0. apply B2.
    + intros s g. rewrite <- sf_gnodes0, <- sf_nlen0. apply B3.
    + intros s k d. rewrite <- sf_decorators0, <- sf_dlen0. apply B4.
    + intros n. rewrite <- sf_chome0, <- sf_corig0, <- sf_nlen0, <- sf_len0. apply B5.
    + intros d. rewrite <- sf_dhome0, <- sf_dlen0, <- sf_len0. apply B6.
Qed.

Lemma SInv_sbv : forall st st', same_but_verified st st' -> SInv st -> SInv st'.
Proof. intros st st' H. apply SInv_skel. apply sbv_skel. exact H. Qed.

Theorem SInv_init : SInv init_state.
Proof.
  split.
  - constructor.
    + cbn. lia.
    + intros s Hs. cbn in Hs. assert (s = 0) by lia. subst. reflexivity.
    + intros s c Hs. cbn in Hs. assert (s = 0) by lia. subst. cbn. split; [tauto|].
      intros [Hc Hp]. assert (c = 0) by lia. subst. discriminate.
    + intros [|[|s]]; constructor.
  - constructor.
    + intros [|[|s]] k ns m H; destruct H.
    + intros [|[|s]] n H; destruct H.
    + intros [|[|s]] g H; destruct H.
    + intros [|[|s]] k d H; destruct H.
    + intros n H. cbn in H. lia.
    + intros d H. cbn in H. lia.
Qed.
Print Assumptions SInv_init.

(* C06 for Provide in the form asked for (the hypotheses are not needed) *)
Theorem provide_rejected_frame : forall cfg st s0 p e st',
  SInv st -> s0 < length (st_scopes st) ->
  provide cfg st s0 p = (VErr e, st') -> same_but_verified st st'.
Proof. intros cfg st s0 p e st' _ _ H. eapply provide_rejected_frame_gen; eauto. Qed.
Print Assumptions provide_rejected_frame.

(* ---------- resolution preserves the skeleton and the verified flags ---------- *)

Definition vflags (st : state) : list bool := map s_verified (st_scopes st).

Definition pres (st st' : state) : Prop := skel st' = skel st /\ vflags st' = vflags st.

Lemma pres_refl : forall st, pres st st.
Proof. intros st; split; reflexivity. Qed.
Lemma pres_trans : forall a b c, pres a b -> pres b c -> pres a c.
Proof. intros a b c [H1 H2] [H3 H4]. split; congruence. Qed.

Lemma pres_upd_node : forall st n f, (forall c, cn_skel (f c) = cn_skel c) -> pres st (upd_node st n f).
Proof.
  intros st n f H. split; [|reflexivity].
  unfold skel, upd_node. cbn [st_scopes st_nodes st_decs set_nodes].
  rewrite (map_upd_nth_absorb cn_skel f H). reflexivity.
Qed.

Lemma pres_upd_dec : forall st d f, (forall c, dn_skel (f c) = dn_skel c) -> pres st (upd_dec st d f).
Proof.
  intros st d f H. split; [|reflexivity].
  unfold skel, upd_dec. cbn [st_scopes st_nodes st_decs set_decs].
  rewrite (map_upd_nth_absorb dn_skel f H). reflexivity.
Qed.

Lemma pres_upd_scope : forall st a f,
  (forall c, sc_skel (f c) = sc_skel c) -> (forall c, s_verified (f c) = s_verified c) ->
  pres st (upd_scope st a f).
Proof.
  intros st a f H1 H2. split.
  - unfold skel, upd_scope. cbn [st_scopes st_nodes st_decs set_scopes].
    rewrite (map_upd_nth_absorb sc_skel f H1). reflexivity.
  - unfold vflags, upd_scope. cbn [st_scopes set_scopes].
    apply (map_upd_nth_absorb s_verified f H2).
Qed.

Lemma pres_set_onstack : forall st n b, pres st (set_onstack st n b).
Proof. intros. apply pres_upd_node. intros c; reflexivity. Qed.
Lemma pres_set_called : forall st n, pres st (set_called st n).
Proof. intros. apply pres_upd_node. intros c; reflexivity. Qed.
Lemma pres_set_dstate : forall st d x, pres st (set_dstate st d x).
Proof. intros. apply pres_upd_dec. intros c; reflexivity. Qed.
Lemma pres_add_event : forall st ev, pres st (add_event ev st).
Proof. intros; split; reflexivity. Qed.

Lemma commit_results_skel : forall dry f e lens rs slot c,
  sc_skel (commit_results dry f e lens slot rs c) = sc_skel c /\
  s_verified (commit_results dry f e lens slot rs c) = s_verified c.
Proof.
  intros dry f e lens rs; induction rs as [|[ks|ks [|]] t IH]; intros slot c; cbn [commit_results].
  - split; reflexivity.
  - destruct (IH (S slot) (sc_set_values (fold_left (fun m k => aset key_eqb k (if dry then AZero else AProd f e slot 0) m) ks (s_values c)) c)) as [H1 H2].
    rewrite H1, H2. split; reflexivity.
  - match goal with |- context [commit_results _ _ _ _ _ t ?c'] => destruct (IH (S slot) c') as [H1 H2] end.
    rewrite H1, H2. split; reflexivity.
  - match goal with |- context [commit_results _ _ _ _ _ t ?c'] => destruct (IH (S slot) c') as [H1 H2] end.
    rewrite H1, H2. split; reflexivity.
Qed.

Lemma commit_decorated_skel : forall dry f e lens rs slot c,
  sc_skel (commit_decorated dry f e lens slot rs c) = sc_skel c /\
  s_verified (commit_decorated dry f e lens slot rs c) = s_verified c.
Proof.
  intros dry f e lens rs; induction rs as [|[[|k ks]|[|k ks] fl] t IH]; intros slot c; cbn [commit_decorated].
  - split; reflexivity.
  - apply IH.
  - match goal with |- context [commit_decorated _ _ _ _ _ t ?c'] => destruct (IH (S slot) c') as [H1 H2] end.
    rewrite H1, H2. split; reflexivity.
  - apply IH.
  - match goal with |- context [commit_decorated _ _ _ _ _ t ?c'] => destruct (IH (S slot) c') as [H1 H2] end.
    rewrite H1, H2. split; reflexivity.
Qed.

Section EvalPres.
  Variables (cfg : config) (b : beh) (du : dur).

  Lemma pres_run_fn : forall r f args st, pres st (snd (run_fn cfg b du r f args st)).
  Proof.
    intros r f args st. unfold run_fn. destruct (cfg_dry cfg); cbn [snd]; split; reflexivity.
  Qed.

  Lemma pres_callback : forall has f c start st, pres st (callback has f c start st).
  Proof. intros [|] f c start st; unfold callback; split; reflexivity. Qed.

  Variable rec : task -> state -> out.
  Hypothesis IH : forall t st, pres st (snd (rec t st)).

  Lemma pres_call_ctors : forall ns st, pres st (snd (call_ctors rec ns st)).
  Proof.
    induction ns as [|n t IHn]; intros st; cbn [call_ctors]; [apply pres_refl|].
    pose proof (IH (TCallCtor n) st) as H.
    destruct (rec (TCallCtor n) st) as [[r|e|a] st1]; cbn [snd] in *; try exact H.
    eapply pres_trans; [exact H | apply IHn].
  Qed.

  Lemma pres_call_group_decs : forall k bs st, pres st (snd (call_group_decs rec k bs st)).
  Proof.
    intros k; induction bs as [|s t IHb]; intros st; cbn [call_group_decs]; [apply pres_refl|].
    destruct (alookup key_eqb k (s_decorators (get_scope st s))) as [d|]; [|apply IHb].
    destruct (dstate_eqb _ _); [apply IHb|].
    pose proof (IH (TCallDec d) st) as H.
    destruct (rec (TCallDec d) st) as [[r|e|a] st1]; cbn [snd] in *; try exact H.
    eapply pres_trans; [exact H | apply IHb].
  Qed.

  Lemma pres_build_list : forall v ls st, pres st (snd (build_list rec v ls st)).
  Proof.
    intros v; induction ls as [|l t IHl]; intros st; cbn [build_list]; [apply pres_refl|].
    pose proof (IH (TLeaf v l) st) as H.
    destruct (rec (TLeaf v l) st) as [[r|e|a] st1]; cbn [snd] in *; try exact H.
    pose proof (IHl st1) as H2.
    destruct (build_list rec v t st1) as [[r2|e2|a2] st2]; cbn [snd] in *;
      eapply pres_trans; eauto.
  Qed.

  Lemma pres_build_single : forall v k opt st, pres st (snd (build_single rec v k opt st)).
  Proof.
    intros v k opt st. unfold build_single.
    destruct (find_dec st v k) as [[d bsc]|].
    - pose proof (IH (TCallDec d) st) as H.
      destruct (rec (TCallDec d) st) as [[r|e|a] st1]; cbn [snd] in *; try exact H.
      destruct (alookup _ _ _); exact H.
    - destruct (find_map _ _); [apply pres_refl|].
      destruct (find_provider st (path st v) k) as [a|bsc ns|].
      + apply pres_refl.
      + pose proof (pres_call_ctors ns st) as H.
        destruct (call_ctors rec ns st) as [[|c e|a] st1]; cbn [snd] in *.
        * destruct (alookup _ _ _); exact H.
        * destruct (opt && has_missingdeps e); exact H.
        * exact H.
      + destruct opt; apply pres_refl.
  Qed.

  Lemma pres_build_group : forall v k soft st, pres st (snd (build_group rec v k soft st)).
  Proof.
    intros v k soft st. unfold build_group.
    pose proof (pres_call_group_decs k (rev (path st v)) st) as H.
    destruct (call_group_decs rec k (rev (path st v)) st) as [[|c e|a] st1]; cbn [snd] in *; try exact H.
    destruct (find_map _ _); [exact H|].
    destruct soft.
    - exact H.
    - pose proof (pres_call_ctors (providers_on_path st1 v k) st1) as H2.
      destruct (call_ctors rec (providers_on_path st1 v k) st1) as [[|c e|a] st2]; cbn [snd] in *;
        eapply pres_trans; eauto.
  Qed.

  Lemma pres_call_ctor : forall n st, pres st (snd (call_ctor cfg b du rec n st)).
  Proof.
    intros n st. unfold call_ctor.
    destruct (c_called (get_node st n)); [apply pres_refl|].
    destruct (c_onstack (get_node st n)); [apply pres_refl|].
    set (c := get_node st n).
    pose proof (pres_set_onstack st n true) as H0.
    destruct (shallow_missing _ _ _) as [|k0 ks].
    2:{ cbn [snd]. eapply pres_trans; [exact H0 | apply pres_set_onstack]. }
    pose proof (IH (TLeaves (c_orig c) (sig_build_seq (c_sig c))) (set_onstack st n true)) as H1.
    destruct (rec _ (set_onstack st n true)) as [[built|e|a] st1]; cbn [snd] in *.
    2,3: eapply pres_trans; [exact H0|]; eapply pres_trans; [exact H1 | apply pres_set_onstack].
    pose proof (pres_run_fn RoleCtor (c_fn c) (place (sig_order (c_sig c)) built) st1) as H2.
    destruct (run_fn cfg b du RoleCtor (c_fn c) (place (sig_order (c_sig c)) built) st1) as [[o e] st2].
    cbn [snd] in H2.
    assert (H02 : pres st st2) by (eapply pres_trans; [exact H0|]; eapply pres_trans; eauto).
    destruct o as [lens| |]; [| |destruct (cfg_recover cfg)]; cbn [snd].
    - eapply pres_trans; [exact H02|].
      eapply pres_trans; [|apply pres_set_onstack].
      eapply pres_trans; [|apply pres_callback].
      eapply pres_trans; [|apply pres_set_called].
      apply pres_upd_scope; intros c0; apply commit_results_skel.
    - eapply pres_trans; [exact H02|].
      eapply pres_trans; [|apply pres_set_onstack]. apply pres_callback.
    - eapply pres_trans; [exact H02|].
      eapply pres_trans; [|apply pres_set_onstack]. apply pres_callback.
    - eapply pres_trans; [exact H02|].
      eapply pres_trans; [|apply pres_set_onstack]. apply pres_callback.
  Qed.

  Lemma pres_call_dec : forall d st, pres st (snd (call_dec cfg b du rec d st)).
  Proof.
    intros d st. unfold call_dec.
    destruct (dstate_eqb _ _); [apply pres_refl|].
    set (dn := get_dec st d).
    pose proof (pres_set_dstate st d DOnStack) as H0.
    destruct (shallow_missing _ _ _) as [|k0 ks].
    2:{ cbn [snd]. eapply pres_trans; [exact H0 | apply pres_set_dstate]. }
    pose proof (IH (TLeaves (d_home dn) (sig_build_seq (d_sig dn))) (set_dstate st d DOnStack)) as H1.
    destruct (rec _ (set_dstate st d DOnStack)) as [[built|e|a] st1]; cbn [snd] in *.
    2,3: eapply pres_trans; [exact H0|]; eapply pres_trans; [exact H1 | apply pres_set_dstate].
    pose proof (pres_run_fn RoleDec (d_fn dn) (place (sig_order (d_sig dn)) built) st1) as H2.
    destruct (run_fn cfg b du RoleDec (d_fn dn) (place (sig_order (d_sig dn)) built) st1) as [[o e] st2].
    cbn [snd] in H2.
    assert (H02 : pres st st2) by (eapply pres_trans; [exact H0|]; eapply pres_trans; eauto).
    destruct o as [lens| |]; [| |destruct (cfg_recover cfg)]; cbn [snd].
    - eapply pres_trans; [exact H02|].
      eapply pres_trans; [|apply pres_callback].
      eapply pres_trans; [|apply pres_set_dstate].
      apply pres_upd_scope; intros c0; apply commit_decorated_skel.
    - eapply pres_trans; [exact H02|].
      eapply pres_trans; [|apply pres_callback]. apply pres_set_dstate.
    - eapply pres_trans; [exact H02|].
      eapply pres_trans; [|apply pres_callback]. apply pres_set_dstate.
    - eapply pres_trans; [exact H02|].
      eapply pres_trans; [|apply pres_callback]. apply pres_set_dstate.
  Qed.

  Lemma pres_evalF : forall t st, pres st (snd (evalF cfg b du rec t st)).
  Proof.
    intros [v [k opt|k soft]|v ls|n|d] st; cbn [evalF].
    - apply pres_build_single.
    - apply pres_build_group.
    - apply pres_build_list.
    - apply pres_call_ctor.
    - apply pres_call_dec.
  Qed.
End EvalPres.

(* eval only touches caches, flags, counters, clock and log *)
Theorem eval_pres : forall cfg b du fuel t st, pres st (snd (eval cfg b du fuel t st)).
Proof.
  intros cfg b du.
  apply (eval_ind cfg b du (fun _ st o => pres st (snd o))).
  - intros t st. apply pres_refl.
  - intros rec IH t st. apply pres_evalF. exact IH.
Qed.
Print Assumptions eval_pres.

Theorem invoke_skel : forall cfg b du st s p,
  skel (snd (invoke cfg b du st s p)) = skel st.
Proof.
  intros cfg b du st s p. unfold invoke.
  destruct (shallow_missing _ _ _); [|reflexivity].
  assert (Hv : skel (upd_scope st s (sc_set_verified true)) = skel st).
  { unfold skel, upd_scope. cbn [st_scopes st_nodes st_decs set_scopes].
    rewrite map_upd_nth_absorb; [reflexivity | intros c; reflexivity]. }
  assert (Hgen : forall st1, skel st1 = skel st ->
     skel (snd (match eval cfg b du (eval_fuel st1) (TLeaves s (sig_build_seq (ii_sig p))) st1 with
       | (Fail e, st2) => (VErr (wrap LArgsFailed e), st2)
       | (Abort a, st2) => (VAbort a, st2)
       | (Done built, st2) =>
           match run_fn cfg b du RoleInv (ii_fn p) (place (sig_order (ii_sig p)) built) st2 with
           | (OOk _, _, st3) => (VOk, st3)
           | (OErr, e, st3) => (VErr (mkErr [] (RUser (ii_fn p) e)), st3)
           | (OPanic, e, st3) =>
               if cfg_recover cfg then (VErr (mkErr [] (RPanic (ii_fn p) e)), st3)
               else (VAbort (APanicked (ii_fn p) e), st3)
           end
       end)) = skel st).
  { intros st1 H1.
    pose proof (eval_pres cfg b du (eval_fuel st1) (TLeaves s (sig_build_seq (ii_sig p))) st1) as [He _].
    destruct (eval _ _ _ _ _ st1) as [[built|e|a] st2]; cbn [snd] in *; try congruence.
    pose proof (pres_run_fn cfg b du RoleInv (ii_fn p) (place (sig_order (ii_sig p)) built) st2) as [Hr _].
    destruct (run_fn _ _ _ _ _ _ st2) as [[o e] st3]; cbn [snd] in *.
    destruct o; [| |destruct (cfg_recover cfg)]; cbn [snd]; congruence. }
  destruct (s_verified (get_scope st s)).
  - apply Hgen. reflexivity.
  - destruct (is_acyclic _) as [[[|] c]|]; cbn [snd]; try reflexivity.
    apply Hgen. exact Hv.
Qed.
Print Assumptions invoke_skel.

(* ---------- Scope() preserves the invariant ---------- *)

Lemma new_scope_length : forall st p, length (st_scopes (new_scope st p)) = S (length (st_scopes st)).
Proof.
  intros st p. unfold new_scope. rewrite upd_scope_length. cbn [st_scopes set_scopes].
  rewrite app_length. cbn. lia.
Qed.

Definition child_of (st : state) (p : sid) : scope :=
  sc_set_gnodes (s_gnodes (get_scope st p)) (empty_scope (Some p)).

Lemma get_scope_snoc : forall st c x,
  get_scope (set_scopes st (st_scopes st ++ [c])) x =
  if Nat.eqb x (length (st_scopes st)) then c else get_scope st x.
Proof.
  intros st c x. unfold get_scope. cbn [st_scopes set_scopes].
  destruct (Nat.eqb_spec x (length (st_scopes st))) as [->|Hne].
  - apply nth_middle.
  - destruct (Nat.lt_ge_cases x (length (st_scopes st))) as [Hlt|Hge].
    + apply app_nth1. exact Hlt.
    + rewrite !nth_overflow; [reflexivity | lia | rewrite app_length; cbn; lia].
Qed.

Lemma new_scope_get : forall st p x, p < length (st_scopes st) ->
  get_scope (new_scope st p) x =
  if Nat.eqb x p
  then sc_set_children (s_children (get_scope st p) ++ [length (st_scopes st)]) (get_scope st p)
  else if Nat.eqb x (length (st_scopes st)) then child_of st p else get_scope st x.
Proof.
  intros st p x Hp. unfold new_scope. rewrite get_scope_upd.
  cbn [st_scopes set_scopes]. rewrite app_length. cbn [length].
  assert (Hlt : Nat.ltb p (length (st_scopes st) + 1) = true) by (apply Nat.ltb_lt; lia).
  rewrite Hlt, andb_true_r.
  destruct (Nat.eqb_spec x p) as [->|Hne].
  - rewrite get_scope_snoc. destruct (Nat.eqb_spec p (length (st_scopes st))); [lia|reflexivity].
  - apply get_scope_snoc.
Qed.

Section NewScope.
  Variables (st : state) (p : sid).
  Hypothesis Hp : p < length (st_scopes st).
  Let len := length (st_scopes st).

  Lemma np_parent : forall x, s_parent (get_scope (new_scope st p) x) =
    if Nat.eqb x len then Some p else s_parent (get_scope st x).
  Proof.
    intros x. rewrite new_scope_get by exact Hp. fold len.
    destruct (Nat.eqb_spec x p) as [->|Hne].
    - destruct (Nat.eqb_spec p len); [lia|reflexivity].
    - destruct (Nat.eqb_spec x len); reflexivity.
  Qed.

  Lemma np_children : forall x, s_children (get_scope (new_scope st p) x) =
    if Nat.eqb x p then s_children (get_scope st p) ++ [len]
    else if Nat.eqb x len then [] else s_children (get_scope st x).
  Proof.
    intros x. rewrite new_scope_get by exact Hp. fold len.
    destruct (Nat.eqb_spec x p) as [->|Hne]; [reflexivity|].
    destruct (Nat.eqb_spec x len); reflexivity.
  Qed.

  Lemma np_providers : forall x, s_providers (get_scope (new_scope st p) x) =
    if Nat.eqb x len then [] else s_providers (get_scope st x).
  Proof.
    intros x. rewrite new_scope_get by exact Hp. fold len.
    destruct (Nat.eqb_spec x p) as [->|Hne].
    - destruct (Nat.eqb_spec p len); [lia|reflexivity].
    - destruct (Nat.eqb_spec x len); reflexivity.
  Qed.

  Lemma np_decorators : forall x, s_decorators (get_scope (new_scope st p) x) =
    if Nat.eqb x len then [] else s_decorators (get_scope st x).
  Proof.
    intros x. rewrite new_scope_get by exact Hp. fold len.
    destruct (Nat.eqb_spec x p) as [->|Hne].
    - destruct (Nat.eqb_spec p len); [lia|reflexivity].
    - destruct (Nat.eqb_spec x len); reflexivity.
  Qed.

  Lemma np_snodes : forall x, s_nodes (get_scope (new_scope st p) x) =
    if Nat.eqb x len then [] else s_nodes (get_scope st x).
  Proof.
    intros x. rewrite new_scope_get by exact Hp. fold len.
    destruct (Nat.eqb_spec x p) as [->|Hne].
    - destruct (Nat.eqb_spec p len); [lia|reflexivity].
    - destruct (Nat.eqb_spec x len); reflexivity.
  Qed.

  Lemma np_gnodes : forall x, s_gnodes (get_scope (new_scope st p) x) =
    if Nat.eqb x len then s_gnodes (get_scope st p) else s_gnodes (get_scope st x).
  Proof.
    intros x. rewrite new_scope_get by exact Hp. fold len.
    destruct (Nat.eqb_spec x p) as [->|Hne].
    - destruct (Nat.eqb_spec p len); [lia|reflexivity].
    - destruct (Nat.eqb_spec x len); reflexivity.
  Qed.

  Lemma np_verified : forall x, s_verified (get_scope (new_scope st p) x) =
    if Nat.eqb x len then false else s_verified (get_scope st x).
  Proof.
    intros x. rewrite new_scope_get by exact Hp. fold len.
    destruct (Nat.eqb_spec x p) as [->|Hne].
    - destruct (Nat.eqb_spec p len); [lia|reflexivity].
    - destruct (Nat.eqb_spec x len); reflexivity.
  Qed.
End NewScope.

Lemma NoDup_snoc : forall (A : Type) (l : list A) (x : A), NoDup l -> ~ In x l -> NoDup (l ++ [x]).
Proof.
  intros A l x; induction l as [|h t IH]; intros Hn Hx; cbn.
  - constructor; [intros []|constructor].
  - inversion Hn; subst. constructor.
    + rewrite in_app_iff. intros [H|[H|[]]]; [contradiction|]. subst. apply Hx. left; reflexivity.
    + apply IH; [assumption|]. intros H. apply Hx. right; exact H.
Qed.

Theorem SInv_new_scope : forall st p, SInv st -> p < length (st_scopes st) -> SInv (new_scope st p).
Proof.
  intros st p [[T1 T2 T3 T4] [B1 B2 B3 B4 B5 B6]] Hp.
  set (len := length (st_scopes st)) in *.
  split.
  - constructor.
    + rewrite new_scope_length. lia.
    + intros s Hs. rewrite new_scope_length in Hs. rewrite np_parent by exact Hp. fold len.
      destruct (Nat.eqb_spec s len) as [->|Hne]; [exact Hp|]. apply T2. fold len in Hs |- *. lia.
    + intros s c Hs. rewrite new_scope_length in Hs. fold len in Hs.
      rewrite np_children, np_parent, new_scope_length by exact Hp. fold len.
      destruct (Nat.eqb_spec s p) as [->|Hsp].
      * rewrite in_app_iff. destruct (Nat.eqb_spec c len) as [->|Hcl].
        -- split; [intros _; split; [lia|reflexivity]|]. intros _. right. left. reflexivity.
        -- rewrite (T3 p c Hp). fold len. split.
           ++ intros [[H1 H2]|[H|[]]]; [split; [lia|exact H2] | congruence].
           ++ intros [H1 H2]. left. split; [lia|exact H2].
      * destruct (Nat.eqb_spec s len) as [->|Hsl].
        -- split; [intros []|]. intros [H1 H2].
           destruct (Nat.eqb_spec c len) as [->|Hcl]; [congruence|].
           assert (Hc : c < len) by lia. specialize (T2 c Hc). rewrite H2 in T2. lia.
        -- assert (Hs' : s < len) by lia. rewrite (T3 s c Hs'). fold len.
           destruct (Nat.eqb_spec c len) as [->|Hcl].
           ++ split; [intros [H _]; lia | intros [_ H]; congruence].
           ++ split; intros [H1 H2]; (split; [lia|exact H2]).
    + intros s. rewrite np_children by exact Hp. fold len.
      destruct (Nat.eqb_spec s p) as [->|Hsp].
      * apply NoDup_snoc; [apply T4|]. intros Hin. apply (T3 p len Hp) in Hin. fold len in Hin. lia.
      * destruct (Nat.eqb_spec s len); [constructor | apply T4].
  - constructor.
    + intros s. rewrite np_providers by exact Hp. fold len.
      destruct (Nat.eqb s len); [intros k ns m []|apply B1].
    + intros s n. rewrite np_snodes by exact Hp. fold len.
      destruct (Nat.eqb s len); [intros []|apply B2].
    + intros s g. rewrite np_gnodes by exact Hp. fold len.
      destruct (Nat.eqb s len); apply B3.
    + intros s k d. rewrite np_decorators by exact Hp. fold len.
      destruct (Nat.eqb s len); [intros []|apply B4].
    + intros n Hn. rewrite new_scope_length. fold len.
      change (get_node (new_scope st p) n) with (get_node st n).
      destruct (B5 n Hn). split; lia.
    + intros d Hd. rewrite new_scope_length. fold len.
      change (get_dec (new_scope st p) d) with (get_dec st d).
      specialize (B6 d Hd). lia.
Qed.
Print Assumptions SInv_new_scope.

(* ---------- Decorate preserves the invariant ---------- *)

Lemma aset_In : forall (K V : Type) (eqb : K -> K -> bool) (k : K) (v : V) l k' v',
  In (k', v') (aset eqb k v l) -> (k', v') = (k, v) \/ In (k', v') l.
Proof.
  intros K V eqb k v l; induction l as [|[k0 v0] t IH]; intros k' v' H; cbn in H.
  - destruct H as [H|[]]. left; congruence.
  - destruct (eqb k k0).
    + destruct H as [H|H]; [left; congruence | right; right; exact H].
    + destruct H as [H|H]; [right; left; exact H|].
      destruct (IH _ _ H) as [H'|H']; [left; exact H' | right; right; exact H'].
Qed.

Arguments aset_In {K V} eqb k v l k' v' _.

Lemma fold_aset_In : forall (K V : Type) (eqb : K -> K -> bool) (d : V) keys m0 k' v',
  In (k', v') (fold_left (fun m k => aset eqb k d m) keys m0) -> v' = d \/ In (k', v') m0.
Proof.
  intros K V eqb d keys; induction keys as [|k t IH]; intros m0 k' v' H; cbn [fold_left] in H.
  - right; exact H.
  - destruct (IH _ _ _ H) as [H'|H']; [left; exact H'|].
    destruct (aset_In _ _ _ _ _ _ H') as [E|E]; [left; congruence | right; exact E].
Qed.

Arguments fold_aset_In {K V} eqb d keys m0 k' v' _.

Theorem SInv_decorate : forall st s p v st',
  SInv st -> s < length (st_scopes st) -> decorate st s p = (v, st') -> SInv st'.
Proof.
  intros st s p v st' HS Hs H. unfold decorate in H.
  destruct (negb _ || existsb _ _); inversion H; subst; clear H; [exact HS|].
  destruct HS as [HT [B1 B2 B3 B4 B5 B6]].
  set (d := length (st_decs st)) in *.
  set (dn := mkDNode (di_fn p) (di_sig p) s DReady (di_cb p)).
  set (F := fun c : scope => sc_set_decorators
              (fold_left (fun m k => aset key_eqb k d m) (dec_keys (di_sig p)) (s_decorators c)) c).
  set (st1 := set_decs st (st_decs st ++ [dn])).
  assert (Hget : forall x, get_scope (upd_scope st1 s F) x =
                           if Nat.eqb x s then F (get_scope st x) else get_scope st x).
  { intros x. rewrite get_scope_upd. change (st_scopes st1) with (st_scopes st).
    apply Nat.ltb_lt in Hs. rewrite Hs, andb_true_r. reflexivity. }
  assert (Hlen : length (st_scopes (upd_scope st1 s F)) = length (st_scopes st))
    by (rewrite upd_scope_length; reflexivity).
  split.
  - apply (TInv_fields st); [symmetry; exact Hlen | | | exact HT];
      intros a; rewrite Hget; destruct (Nat.eqb a s); reflexivity.
  - assert (Hnodes : st_nodes (upd_scope st1 s F) = st_nodes st) by reflexivity.
    assert (Hdecs : st_decs (upd_scope st1 s F) = st_decs st ++ [dn]) by reflexivity.
    constructor; rewrite ?Hnodes, ?Hdecs, ?Hlen.
    + intros x. rewrite Hget. destruct (Nat.eqb x s); apply B1.
    + intros x m. rewrite Hget. destruct (Nat.eqb x s); apply B2.
    + intros x g. rewrite Hget. destruct (Nat.eqb x s); apply B3.
    + intros x k d0. rewrite Hget, app_length. cbn [length].
      destruct (Nat.eqb x s).
      * unfold F. cbn [s_decorators sc_set_decorators]. intros Hin.
        apply fold_aset_In in Hin. destruct Hin as [->|Hin]; [fold d; lia|].
        apply B4 in Hin. lia.
      * intros Hin. apply B4 in Hin. lia.
    + intros m Hm. change (get_node (upd_scope st1 s F) m) with (get_node st m). apply B5. exact Hm.
    + intros d0 Hd0. rewrite app_length in Hd0. cbn [length] in Hd0.
      unfold get_dec. rewrite Hdecs.
      destruct (Nat.eq_dec d0 d) as [->|Hne].
      * unfold d. rewrite nth_middle. exact Hs.
      * rewrite app_nth1 by (fold d; lia). apply B6. fold d. lia.
Qed.
Print Assumptions SInv_decorate.

(* ---------- Provide preserves the invariant (every outcome) ---------- *)

Lemma alookup_In : forall (K V : Type) (eqb : K -> K -> bool) (k : K) (l : list (K * V)) v,
  alookup eqb k l = Some v -> exists k', In (k', v) l.
Proof.
  intros K V eqb k l; induction l as [|[k0 v0] t IH]; intros v H; cbn in H; [discriminate|].
  destruct (eqb k k0).
  - inversion H; subst. exists k0. left; reflexivity.
  - destruct (IH _ H) as [k' Hk]. exists k'. right; exact Hk.
Qed.

Arguments alookup_In {K V} eqb k l v _.

Lemma add_provider_bound : forall B n ps k,
  prov_bound B ps -> n < B -> prov_bound B (add_provider n ps k).
Proof.
  intros B n ps k Hb Hn k' ns m Hin Hm. unfold add_provider in Hin.
  apply aset_In in Hin. destruct Hin as [E|Hin]; [|eapply Hb; eauto].
  inversion E; subst. apply in_app_iff in Hm. destruct Hm as [Hm|[<-|[]]]; [|exact Hn].
  unfold alookup_list in Hm. destruct (alookup key_eqb k ps) as [v|] eqn:El; [|destruct Hm].
  destruct (alookup_In _ _ _ _ El) as [k0 Hk0]. eapply Hb; eauto.
Qed.

Lemma fold_add_provider_bound : forall B n keys ps,
  prov_bound B ps -> n < B -> prov_bound B (fold_left (add_provider n) keys ps).
Proof.
  intros B n keys; induction keys as [|k t IH]; intros ps Hb Hn; cbn [fold_left]; [exact Hb|].
  apply IH; [apply add_provider_bound; assumption | exact Hn].
Qed.

Lemma group_grefs_nid : forall n ls i g, In g (group_grefs n i ls) -> gref_nid g = n.
Proof.
  intros n ls; induction ls as [|[k o|k sf] t IH]; intros i g H; cbn [group_grefs] in H.
  - destruct H.
  - eapply IH; eauto.
  - destruct H as [<-|H]; [reflexivity | eapply IH; eauto].
Qed.

Lemma SInv_add_snode : forall st s m, SInv st -> m < length (st_nodes st) ->
  SInv (upd_scope st s (fun c => sc_set_nodes (s_nodes c ++ [m]) c)).
Proof.
  intros st s m [HT [B1 B2 B3 B4 B5 B6]] Hm.
  set (F := fun c : scope => sc_set_nodes (s_nodes c ++ [m]) c).
  assert (Hlen : length (st_scopes (upd_scope st s F)) = length (st_scopes st)) by apply upd_scope_length.
  split.
  - apply (TInv_fields st); [symmetry; exact Hlen | | | exact HT];
      intros a; rewrite get_scope_upd; destruct (_ && _); reflexivity.
  - assert (Hnodes : st_nodes (upd_scope st s F) = st_nodes st) by reflexivity.
    assert (Hdecs : st_decs (upd_scope st s F) = st_decs st) by reflexivity.
    constructor; rewrite ?Hnodes, ?Hdecs, ?Hlen.
    + intros x. rewrite get_scope_upd. destruct (_ && _); apply B1.
    + intros x m0. rewrite get_scope_upd. destruct (_ && _); [|apply B2].
      unfold F. cbn [s_nodes sc_set_nodes]. rewrite in_app_iff. intros [H|[<-|[]]]; [eapply B2; eauto | exact Hm].
    + intros x g. rewrite get_scope_upd. destruct (_ && _); apply B3.
    + intros x k d. rewrite get_scope_upd. destruct (_ && _); apply B4.
    + exact B5.
    + exact B6.
Qed.

Section ProvideShape.
  Variables (st : state) (s0 : sid) (p : provide_in).
  Let s := if pi_export p then 0 else s0.
  Let A := subtree st s.
  Let n := length (st_nodes st).
  Let node := mkCNode (pi_fn p) (pi_sig p) s s0 false false (pi_cb p).
  Let gs := group_grefs n 0 (sig_leaves (pi_sig p)) ++ [GCtor n].
  Let st2 := fold_left (append_gnodes gs) A (set_nodes st (st_nodes st ++ [node])).
  Let keys := dedup_first key_eqb (sig_keys (pi_sig p)).
  Let st3 := upd_scope st2 s (fun c => sc_set_providers (fold_left (add_provider n) keys (s_providers c)) c).

  Lemma st2_scope : forall x, exists extra, incl extra gs /\
    get_scope st2 x = sc_set_gnodes (s_gnodes (get_scope st x) ++ extra) (get_scope st x).
  Proof.
    intros x. unfold st2. rewrite fold_append_set_nodes.
    destruct (ext_of_fold gs st A st (ext_of_refl gs st)) as [(_&_&_&_&_&_&H) _].
    apply H.
  Qed.

  Lemma st2_outside : forall x, ~ In x A -> get_scope st2 x = get_scope st x.
  Proof.
    intros x Hx. unfold st2. rewrite fold_append_set_nodes.
    destruct (ext_of_fold gs st A st (ext_of_refl gs st)) as [_ H].
    apply (H x Hx).
  Qed.

  Lemma st2_len : length (st_scopes st2) = length (st_scopes st).
  Proof.
    unfold st2. rewrite fold_append_set_nodes.
    destruct (ext_of_fold gs st A st (ext_of_refl gs st)) as [(_&_&_&_&_&H&_) _]. exact H.
  Qed.

  Lemma st2_nodes : st_nodes st2 = st_nodes st ++ [node].
  Proof. unfold st2. rewrite fold_append_set_nodes. reflexivity. Qed.

  Lemma st2_decs : st_decs st2 = st_decs st.
  Proof.
    unfold st2. rewrite fold_append_set_nodes.
    destruct (ext_of_fold gs st A st (ext_of_refl gs st)) as [(_&H&_) _]. exact H.
  Qed.

  Lemma st3_len : length (st_scopes st3) = length (st_scopes st).
  Proof. unfold st3. rewrite upd_scope_length. apply st2_len. Qed.

  (* every field of every scope of st3, relative to st *)
  Lemma st3_scope : forall x, exists extra provs,
    incl extra gs /\
    get_scope st3 x = sc_set_providers provs (sc_set_gnodes (s_gnodes (get_scope st x) ++ extra) (get_scope st x)) /\
    (provs = s_providers (get_scope st x) \/
     (x = s /\ provs = fold_left (add_provider n) keys (s_providers (get_scope st x)))).
  Proof.
    intros x. destruct (st2_scope x) as [extra [Hincl Hx]].
    unfold st3. rewrite get_scope_upd.
    destruct (Nat.eqb_spec x s) as [Hxs|Hne]; cbn [andb].
    - destruct (Nat.ltb s (length (st_scopes st2))).
      + exists extra, (fold_left (add_provider n) keys (s_providers (get_scope st x))).
        split; [exact Hincl|]. split; [|right; split; [exact Hxs|reflexivity]].
        rewrite Hx. destruct (get_scope st x); reflexivity.
      + exists extra, (s_providers (get_scope st x)). split; [exact Hincl|]. split; [|left; reflexivity].
        rewrite Hx. destruct (get_scope st x); reflexivity.
    - exists extra, (s_providers (get_scope st x)). split; [exact Hincl|]. split; [|left; reflexivity].
      rewrite Hx. destruct (get_scope st x); reflexivity.
  Qed.

  Lemma gs_nid : forall g, In g gs -> gref_nid g = n.
  Proof.
    intros g H. unfold gs in H. apply in_app_iff in H. destruct H as [H|[<-|[]]]; [|reflexivity].
    eapply group_grefs_nid; eauto.
  Qed.

  Hypothesis HS : SInv st.
  Hypothesis Hs0 : s0 < length (st_scopes st).

  Lemma provide_target_lt : s < length (st_scopes st).
  Proof. unfold s. destruct (pi_export p); [apply HS | exact Hs0]. Qed.

  Lemma SInv_st3 : SInv st3.
  Proof.
    pose proof provide_target_lt as Hs.
    destruct HS as [HT [B1 B2 B3 B4 B5 B6]].
    assert (Hnodes : st_nodes st3 = st_nodes st ++ [node]) by (unfold st3; apply st2_nodes).
    assert (Hdecs : st_decs st3 = st_decs st) by (unfold st3; apply st2_decs).
    split.
    - apply (TInv_fields st); [symmetry; apply st3_len | | | exact HT];
        intros a; destruct (st3_scope a) as (extra & provs & _ & -> & _); destruct (get_scope st a); reflexivity.
    - constructor; rewrite ?Hnodes, ?Hdecs, ?st3_len, ?app_length; cbn [length]; fold n.
      + intros x. destruct (st3_scope x) as (extra & provs & _ & -> & Hp).
        assert (Hold : prov_bound (n + 1) (s_providers (get_scope st x))).
        { intros k ns m H1 H2. specialize (B1 x k ns m H1 H2). fold n in B1. lia. }
        replace (s_providers (sc_set_providers provs
                  (sc_set_gnodes (s_gnodes (get_scope st x) ++ extra) (get_scope st x)))) with provs
          by reflexivity.
        destruct Hp as [->|[_ ->]]; [exact Hold|].
        apply fold_add_provider_bound; [exact Hold | lia].
      + intros x m. destruct (st3_scope x) as (extra & provs & _ & -> & _).
        cbn [s_nodes sc_set_providers sc_set_gnodes]. intros H. apply B2 in H. fold n in H. lia.
      + intros x g. destruct (st3_scope x) as (extra & provs & Hincl & -> & _).
        cbn [s_gnodes sc_set_providers sc_set_gnodes]. rewrite in_app_iff. intros [H|H].
        * apply B3 in H. fold n in H. lia.
        * apply Hincl in H. rewrite (gs_nid _ H). lia.
      + intros x k d. destruct (st3_scope x) as (extra & provs & _ & -> & _).
        cbn [s_decorators sc_set_providers sc_set_gnodes]. apply B4.
      + intros m Hm. unfold get_node. rewrite Hnodes.
        destruct (Nat.eq_dec m n) as [->|Hne].
        * unfold n. rewrite nth_middle. cbn [c_home c_orig node]. split; [exact Hs | exact Hs0].
        * rewrite app_nth1 by (fold n; lia). apply B5. fold n. lia.
      + intros d Hd. unfold get_dec. rewrite Hdecs. apply B6. exact Hd.
  Qed.
End ProvideShape.

Theorem SInv_provide : forall cfg st s0 p v st',
  SInv st -> s0 < length (st_scopes st) -> provide cfg st s0 p = (v, st') -> SInv st'.
Proof.
  intros cfg st s0 p v st' HS Hs0 H.
  destruct v as [|e|x].
  - (* accepted *)
    pose proof (SInv_st3 st s0 p HS Hs0) as H3.
    unfold provide in H. cbv zeta in H.
    destruct (dup_check _ _ _); [discriminate|].
    destruct (is_nil _); [discriminate|].
    destruct (verify_loop _ _ _) as [[[o|]|e'|y] st4] eqn:Ev; try discriminate.
    inversion H; subst; clear H.
    assert (H4 : SInv st4).
    { eapply SInv_sbv; [|exact H3]. apply same_but_verified_iff. symmetry.
      eapply verify_loop_E; eauto. }
    apply SInv_add_snode; [exact H4|].
    assert (Hn : st_nodes st4 = st_nodes (upd_scope
             (fold_left (append_gnodes (group_grefs (length (st_nodes st)) 0 (sig_leaves (pi_sig p)) ++ [GCtor (length (st_nodes st))]))
                (subtree st (if pi_export p then 0 else s0))
                (set_nodes st (st_nodes st ++ [mkCNode (pi_fn p) (pi_sig p) (if pi_export p then 0 else s0) s0 false false (pi_cb p)])))
             (if pi_export p then 0 else s0)
             (fun c => sc_set_providers (fold_left (add_provider (length (st_nodes st))) (dedup_first key_eqb (sig_keys (pi_sig p))) (s_providers c)) c))).
    { apply verify_loop_E in Ev. apply (f_equal st_nodes) in Ev. exact Ev. }
    rewrite Hn. change (st_nodes (upd_scope ?x _ _)) with (st_nodes x).
    rewrite st2_nodes, app_length. cbn. lia.
  - eapply SInv_sbv; [|exact HS]. eapply provide_rejected_frame_gen; eauto.
  - exfalso. eapply provide_never_aborts; eauto.
Qed.
Print Assumptions SInv_provide.

(* ---------- Invoke, step, histories ---------- *)

Theorem SInv_invoke : forall cfg b du st s p, SInv st -> SInv (snd (invoke cfg b du st s p)).
Proof.
  intros cfg b du st s p HS. eapply SInv_skel; [|exact HS]. symmetry. apply invoke_skel.
Qed.

(* the operation mentions only scopes that exist when it is issued *)
Definition op_ok (n : nat) (o : op) : bool :=
  match o with
  | OScope p => Nat.ltb p n
  | OProvide s _ => Nat.ltb s n
  | ODecorate s _ => Nat.ltb s n
  | OInvoke s _ => Nat.ltb s n
  | OBad _ _ _ => true
  end.

Definition next_count (n : nat) (o : op) : nat := match o with OScope _ => S n | _ => n end.

Fixpoint wf_scopes_from (n : nat) (h : history) : bool :=
  match h with
  | [] => true
  | o :: t => op_ok n o && wf_scopes_from (next_count n o) t
  end.

(* a history issued against a fresh container (one scope: the root) *)
Definition wf_scopes (h : history) : bool := wf_scopes_from 1 h.

Lemma step_scopes_length : forall cfg b du st o,
  length (st_scopes (snd (step cfg b du st o))) = next_count (length (st_scopes st)) o.
Proof.
  intros cfg b du st [p|s p|s p|s p|k s f]; cbn [step next_count snd].
  - apply new_scope_length.
  - destruct (provide cfg st s p) as [v st'] eqn:E. apply provide_aux in E.
    unfold aux in E. cbn [snd]. congruence.
  - unfold decorate. destruct (negb _ || existsb _ _); cbn [snd]; [reflexivity|].
    rewrite upd_scope_length. reflexivity.
  - pose proof (skel_eq_fields _ _ (invoke_skel cfg b du st s p)) as H. apply H.
  - reflexivity.
Qed.

Theorem SInv_step : forall cfg b du st o,
  SInv st -> op_ok (length (st_scopes st)) o = true -> SInv (snd (step cfg b du st o)).
Proof.
  intros cfg b du st [p|s p|s p|s p|k s f] HS Hok; cbn [step op_ok snd] in *.
  - apply SInv_new_scope; [exact HS | apply Nat.ltb_lt; exact Hok].
  - destruct (provide cfg st s p) as [v st'] eqn:E. cbn [snd].
    eapply SInv_provide; eauto. apply Nat.ltb_lt; exact Hok.
  - destruct (decorate st s p) as [v st'] eqn:E. cbn [snd].
    eapply SInv_decorate; eauto. apply Nat.ltb_lt; exact Hok.
  - apply SInv_invoke. exact HS.
  - exact HS.
Qed.
Print Assumptions SInv_step.

Theorem SInv_run_from : forall cfg b du h st,
  SInv st -> wf_scopes_from (length (st_scopes st)) h = true ->
  SInv (snd (run_from cfg b du st h)).
Proof.
  intros cfg b du h; induction h as [|o t IH]; intros st HS Hwf.
  - exact HS.
  - rewrite run_from_cons. cbn [snd]. cbn [wf_scopes_from] in Hwf.
    apply andb_true_iff in Hwf. destruct Hwf as [Hok Hwf].
    apply IH.
    + apply SInv_step; assumption.
    + rewrite step_scopes_length. exact Hwf.
Qed.

Theorem SInv_state_after : forall cfg b du h, wf_scopes h = true -> SInv (state_after cfg b du h).
Proof.
  intros cfg b du h Hwf. unfold state_after. apply SInv_run_from; [apply SInv_init | exact Hwf].
Qed.
Print Assumptions SInv_state_after.

(* ---------- consequences of the tree invariant: fuel is sufficient ---------- *)

Lemma child_gt : forall st s c, TInv st -> s < length (st_scopes st) ->
  In c (s_children (get_scope st s)) -> s < c /\ c < length (st_scopes st).
Proof.
  intros st s c HT Hs Hin. apply (ti_children HT s c Hs) in Hin. destruct Hin as [Hc Hp].
  pose proof (ti_parent HT c Hc) as H. rewrite Hp in H. lia.
Qed.

Arguments child_gt {st s c} _ _ _.

Lemma path_fuel_enough : forall st, TInv st ->
  forall f1 f2 s, s < length (st_scopes st) -> s < f1 -> s < f2 ->
  path_fuel f1 st s = path_fuel f2 st s.
Proof.
  intros st HT f1; induction f1 as [|f1 IH]; intros f2 s Hs H1 H2; [lia|].
  destruct f2 as [|f2]; [lia|]. cbn [path_fuel]. f_equal.
  pose proof (ti_parent HT s Hs) as Hp.
  destruct (s_parent (get_scope st s)) as [q|]; [|reflexivity].
  apply IH; lia.
Qed.

(* the ancestors of s are all <= s, the walk ends at the root *)
Lemma path_fuel_le : forall st, TInv st -> forall f s x, s < length (st_scopes st) ->
  In x (path_fuel f st s) -> x <= s.
Proof.
  intros st HT f; induction f as [|f IH]; intros s x Hs H; cbn [path_fuel] in H; [destruct H|].
  destruct H as [<-|H]; [lia|].
  pose proof (ti_parent HT s Hs) as Hp.
  destruct (s_parent (get_scope st s)) as [q|]; [|destruct H].
  specialize (IH q x). assert (x <= q) by (apply IH; [lia|exact H]). lia.
Qed.

Lemma path_reaches_root : forall st, TInv st -> forall f s, s < length (st_scopes st) -> s < f ->
  In 0 (path_fuel f st s).
Proof.
  intros st HT f; induction f as [|f IH]; intros s Hs Hf; [lia|].
  cbn [path_fuel]. pose proof (ti_parent HT s Hs) as Hp.
  destruct (s_parent (get_scope st s)) as [q|]; [|left; exact Hp].
  right. apply IH; lia.
Qed.

Lemma flat_map_ext_in : forall (A B : Type) (f g : A -> list B) (l : list A),
  (forall a, In a l -> f a = g a) -> flat_map f l = flat_map g l.
Proof.
  intros A B f g l; induction l as [|h t IH]; intros H; cbn; [reflexivity|].
  rewrite (H h) by (left; reflexivity). rewrite IH; [reflexivity|].
  intros a Ha. apply H. right; exact Ha.
Qed.

Lemma subtree_fuel_enough : forall st, TInv st ->
  forall f1 f2 s, s < length (st_scopes st) ->
  length (st_scopes st) <= f1 + s + 1 -> length (st_scopes st) <= f2 + s + 1 ->
  subtree_fuel f1 st s = subtree_fuel f2 st s.
Proof.
  intros st HT f1; induction f1 as [|f1 IH]; intros f2 s Hs H1 H2.
  - assert (Hnil : s_children (get_scope st s) = []).
    { destruct (s_children (get_scope st s)) as [|c t] eqn:E; [reflexivity|].
      assert (Hin : In c (s_children (get_scope st s))) by (rewrite E; left; reflexivity).
      apply (child_gt HT Hs) in Hin. lia. }
    destruct f2; cbn [subtree_fuel]; [reflexivity|]. rewrite Hnil. reflexivity.
  - destruct f2 as [|f2].
    + assert (Hnil : s_children (get_scope st s) = []).
      { destruct (s_children (get_scope st s)) as [|c t] eqn:E; [reflexivity|].
        assert (Hin : In c (s_children (get_scope st s))) by (rewrite E; left; reflexivity).
        apply (child_gt HT Hs) in Hin. lia. }
      cbn [subtree_fuel]. rewrite Hnil. reflexivity.
    + cbn [subtree_fuel]. f_equal. apply flat_map_ext_in. intros c Hc.
      apply (child_gt HT Hs) in Hc. apply IH; lia.
Qed.

(* ---------- subtree has no duplicates ---------- *)

Inductive anc (st : state) : sid -> sid -> Prop :=
| anc_refl : forall x, anc st x x
| anc_up : forall x q s, s_parent (get_scope st x) = Some q -> anc st q s -> anc st x s.

Lemma anc_trans : forall st x y z, anc st x y -> anc st y z -> anc st x z.
Proof.
  intros st x y z H; induction H as [x|x q s Hp H IH]; intros Hz; [exact Hz|].
  eapply anc_up; eauto.
Qed.

Lemma anc_le : forall st, TInv st -> forall x s, anc st x s -> x < length (st_scopes st) -> s <= x.
Proof.
  intros st HT x s H; induction H as [x|x q s Hp H IH]; intros Hx; [lia|].
  pose proof (ti_parent HT x Hx) as Hq. rewrite Hp in Hq.
  assert (s <= q) by (apply IH; lia). lia.
Qed.

Arguments anc_le {st} _ {x s} _ _.

Lemma anc_linear : forall st x a b, anc st x a -> anc st x b -> anc st a b \/ anc st b a.
Proof.
  intros st x a b Ha; revert b; induction Ha as [x|x q a Hp Ha IH]; intros b Hb.
  - left; exact Hb.
  - inversion Hb as [|x' q' b' Hp' Hb']; subst.
    + right. eapply anc_up; eauto.
    + rewrite Hp in Hp'. inversion Hp'; subst. apply IH. exact Hb'.
Qed.

Arguments anc_linear {st x a b} _ _.

Lemma subtree_fuel_bounds : forall st, TInv st -> forall f s x, s < length (st_scopes st) ->
  In x (subtree_fuel f st s) -> s <= x /\ x < length (st_scopes st).
Proof.
  intros st HT f; induction f as [|f IH]; intros s x Hs H; cbn [subtree_fuel] in H.
  - destruct H as [<-|[]]. lia.
  - destruct H as [<-|H]; [lia|].
    apply in_flat_map in H. destruct H as [c [Hc Hx]].
    apply (child_gt HT Hs) in Hc. destruct (IH c x) as [H1 H2]; [lia|exact Hx|]. lia.
Qed.

Arguments subtree_fuel_bounds {st} _ f s x _ _.

Lemma subtree_fuel_anc : forall st, TInv st -> forall f s x, s < length (st_scopes st) ->
  In x (subtree_fuel f st s) -> anc st x s.
Proof.
  intros st HT f; induction f as [|f IH]; intros s x Hs H; cbn [subtree_fuel] in H.
  - destruct H as [<-|[]]. constructor.
  - destruct H as [<-|H]; [constructor|].
    apply in_flat_map in H. destruct H as [c [Hc Hx]].
    pose proof (child_gt HT Hs Hc) as Hlt.
    apply (ti_children HT s c Hs) in Hc. destruct Hc as [Hc Hp].
    eapply anc_trans; [apply (IH c x); [lia|exact Hx]|].
    eapply anc_up; [exact Hp | constructor].
Qed.

Arguments subtree_fuel_anc {st} _ f s x _ _.

Lemma NoDup_app_disjoint : forall (A : Type) (l1 l2 : list A),
  NoDup l1 -> NoDup l2 -> (forall x, In x l1 -> ~ In x l2) -> NoDup (l1 ++ l2).
Proof.
  intros A l1 l2 H1 H2 Hd; induction H1 as [|h t Hh Ht IH]; cbn; [exact H2|].
  constructor.
  - rewrite in_app_iff. intros [H|H]; [contradiction|]. apply (Hd h); [left; reflexivity | exact H].
  - apply IH. intros x Hx. apply Hd. right; exact Hx.
Qed.

Lemma NoDup_flat_map_disjoint : forall (A B : Type) (f : A -> list B) (l : list A),
  NoDup l -> (forall a, In a l -> NoDup (f a)) ->
  (forall a b x, In a l -> In b l -> a <> b -> In x (f a) -> ~ In x (f b)) ->
  NoDup (flat_map f l).
Proof.
  intros A B f l Hn; induction Hn as [|h t Hh Ht IH]; intros Hf Hd; cbn; [constructor|].
  apply NoDup_app_disjoint.
  - apply Hf. left; reflexivity.
  - apply IH.
    + intros a Ha. apply Hf. right; exact Ha.
    + intros a b x Ha Hb. apply Hd; right; assumption.
  - intros x Hx Hin. apply in_flat_map in Hin. destruct Hin as [c [Hc Hxc]].
    apply (Hd h c x); [left; reflexivity | right; exact Hc | | exact Hx | exact Hxc].
    intros ->. contradiction.
Qed.

Theorem subtree_fuel_NoDup : forall st, TInv st -> forall f s, s < length (st_scopes st) ->
  NoDup (subtree_fuel f st s).
Proof.
  intros st HT f; induction f as [|f IH]; intros s Hs; cbn [subtree_fuel].
  - constructor; [intros []|constructor].
  - constructor.
    + intros H. apply in_flat_map in H. destruct H as [c [Hc Hx]].
      apply (child_gt HT Hs) in Hc.
      destruct (subtree_fuel_bounds HT f c s) as [H1 _]; [lia|exact Hx|]. lia.
    + apply NoDup_flat_map_disjoint.
      * apply (ti_nodup HT).
      * intros c Hc. apply IH. apply (child_gt HT Hs) in Hc. lia.
      * intros c1 c2 x Hc1 Hc2 Hne Hx1 Hx2.
        pose proof (child_gt HT Hs Hc1) as L1. pose proof (child_gt HT Hs Hc2) as L2.
        assert (A1 : anc st x c1) by (eapply subtree_fuel_anc; eauto; lia).
        assert (A2 : anc st x c2) by (eapply subtree_fuel_anc; eauto; lia).
        apply (ti_children HT s c1 Hs) in Hc1. apply (ti_children HT s c2 Hs) in Hc2.
        destruct Hc1 as [_ P1], Hc2 as [_ P2].
        destruct (anc_linear A1 A2) as [H|H]; inversion H as [|y q z Hp Hq]; subst; try congruence.
        -- rewrite P1 in Hp. inversion Hp; subst. apply (anc_le HT) in Hq; lia.
        -- rewrite P2 in Hp. inversion Hp; subst. apply (anc_le HT) in Hq; lia.
Qed.

Corollary subtree_NoDup : forall st s, SInv st -> s < length (st_scopes st) -> NoDup (subtree st s).
Proof. intros st s [HT _] Hs. apply subtree_fuel_NoDup; assumption. Qed.
Print Assumptions subtree_NoDup.

(* ... hence the append loop of provide() extends every graph holder of the
   subtree by exactly one copy of the new vertices, and no other *)
Lemma fold_append_outside : forall gs A st x, ~ In x A ->
  get_scope (fold_left (append_gnodes gs) A st) x = get_scope st x.
Proof.
  intros gs A st x H. destruct (ext_of_fold gs st A st (ext_of_refl gs st)) as [_ H2]. apply H2. exact H.
Qed.

Lemma fold_append_inside : forall gs A st x, NoDup A -> In x A -> x < length (st_scopes st) ->
  get_scope (fold_left (append_gnodes gs) A st) x =
  sc_set_gnodes (s_gnodes (get_scope st x) ++ gs) (get_scope st x).
Proof.
  intros gs A; induction A as [|a A IH]; intros st x Hnd Hin Hlt; [destruct Hin|].
  inversion Hnd as [|a' A' Hna HndA]; subst. cbn [fold_left].
  destruct (Nat.eq_dec a x) as [->|Hne].
  - rewrite fold_append_outside by exact Hna.
    unfold append_gnodes. rewrite get_scope_upd_same by exact Hlt. reflexivity.
  - destruct Hin as [Hin|Hin]; [contradiction|].
    rewrite IH; [|exact HndA|exact Hin|unfold append_gnodes; rewrite upd_scope_length; exact Hlt].
    unfold append_gnodes. rewrite get_scope_upd_other by (intros E; apply Hne; symmetry; exact E).
    reflexivity.
Qed.

Theorem provide_appends_once : forall gs st s N x,
  SInv st -> s < length (st_scopes st) ->
  s_gnodes (get_scope (fold_left (append_gnodes gs) (subtree st s) (set_nodes st N)) x) =
  if in_dec Nat.eq_dec x (subtree st s) then s_gnodes (get_scope st x) ++ gs else s_gnodes (get_scope st x).
Proof.
  intros gs st s N x HS Hs. rewrite fold_append_set_nodes.
  change (get_scope (set_nodes ?y N) x) with (get_scope y x).
  destruct (in_dec Nat.eq_dec x (subtree st s)) as [Hin|Hnin].
  - rewrite fold_append_inside; [reflexivity | apply subtree_NoDup; assumption | exact Hin |].
    destruct HS as [HT _]. apply (subtree_fuel_bounds HT _ s x Hs Hin).
  - rewrite fold_append_outside by exact Hnin. reflexivity.
Qed.
Print Assumptions provide_appends_once.

(* ================================================================== *)
(* Part 3 : [verified] is only an optimisation                         *)
(* ================================================================== *)

(* ---------- what a scope graph depends on ---------- *)

Lemma order_in_ext : forall st a st' a' g,
  s_gnodes (get_scope st a) = s_gnodes (get_scope st' a') -> order_in st a g = order_in st' a' g.
Proof. intros st a st' a' g H. unfold order_in. rewrite H. reflexivity. Qed.

Lemma leaf_edges_ext : forall st a st' a',
  s_gnodes (get_scope st a) = s_gnodes (get_scope st' a') ->
  (forall k, providers_on_path st a k = providers_on_path st' a' k) ->
  forall n ls i, leaf_edges st a n i ls = leaf_edges st' a' n i ls.
Proof.
  intros st a st' a' Hg Hp n ls; induction ls as [|[k o|k sf] t IH]; intros i; cbn [leaf_edges].
  - reflexivity.
  - rewrite Hp, IH. f_equal. apply map_ext. intros m. apply order_in_ext. exact Hg.
  - rewrite IH. f_equal. apply order_in_ext. exact Hg.
Qed.

Lemma edges_of_ext : forall st a st' a' g,
  s_gnodes (get_scope st a) = s_gnodes (get_scope st' a') ->
  (forall k, providers_on_path st a k = providers_on_path st' a' k) ->
  c_sig (get_node st (gref_nid g)) = c_sig (get_node st' (gref_nid g)) ->
  edges_of st a g = edges_of st' a' g.
Proof.
  intros st a st' a' [n|n i] Hg Hp Hs; cbn [edges_of gref_nid] in *.
  - rewrite Hs. apply leaf_edges_ext; assumption.
  - rewrite Hs. destruct (nth_error _ i) as [[k o|k sf]|]; try reflexivity.
    rewrite Hp. apply map_ext. intros m. apply order_in_ext. exact Hg.
Qed.

Lemma scope_graph_ext2 : forall st a st' a',
  s_gnodes (get_scope st a) = s_gnodes (get_scope st' a') ->
  (forall k, providers_on_path st a k = providers_on_path st' a' k) ->
  (forall g, In g (s_gnodes (get_scope st a)) ->
             c_sig (get_node st (gref_nid g)) = c_sig (get_node st' (gref_nid g))) ->
  scope_graph st a = scope_graph st' a'.
Proof.
  intros st a st' a' Hg Hp Hs. unfold scope_graph. rewrite <- Hg.
  apply map_ext_in. intros g Hin. apply edges_of_ext; auto.
Qed.

Lemma path_fuel_parents : forall st st',
  (forall a, s_parent (get_scope st a) = s_parent (get_scope st' a)) ->
  forall f s, path_fuel f st s = path_fuel f st' s.
Proof.
  intros st st' H f; induction f as [|f IH]; intros s; cbn [path_fuel]; [reflexivity|].
  rewrite <- H. destruct (s_parent (get_scope st s)); [rewrite IH|]; reflexivity.
Qed.

Record graph_same (st st' : state) : Prop := mkGraphSame {
  gsm_len : length (st_scopes st) = length (st_scopes st');
  gsm_parent : forall a, s_parent (get_scope st a) = s_parent (get_scope st' a);
  gsm_providers : forall a, s_providers (get_scope st a) = s_providers (get_scope st' a);
  gsm_gnodes : forall a, s_gnodes (get_scope st a) = s_gnodes (get_scope st' a);
  gsm_sig : forall n, c_sig (get_node st n) = c_sig (get_node st' n)
}.

Arguments gsm_len {st st'} _.
Arguments gsm_parent {st st'} _ a.
Arguments gsm_providers {st st'} _ a.
Arguments gsm_gnodes {st st'} _ a.
Arguments gsm_sig {st st'} _ n.

Lemma graph_same_pop : forall st st', graph_same st st' ->
  forall a k, providers_on_path st a k = providers_on_path st' a k.
Proof.
  intros st st' [H1 H2 H3 H4 H5] a k. unfold providers_on_path, path.
  rewrite <- H1, <- (path_fuel_parents st st' H2).
  apply flat_map_ext. intros b. unfold providers_at. rewrite H3. reflexivity.
Qed.

Lemma graph_same_graph : forall st st', graph_same st st' ->
  forall a, scope_graph st a = scope_graph st' a.
Proof.
  intros st st' H a. apply scope_graph_ext2.
  - apply (gsm_gnodes H).
  - intros k. apply graph_same_pop. exact H.
  - intros g _. apply (gsm_sig H).
Qed.

Arguments graph_same_graph {st st'} _ a.

Lemma skel_graph_same : forall st st', skel st = skel st' -> graph_same st st'.
Proof.
  intros st st' H. apply skel_eq_fields in H. destruct H. constructor; assumption.
Qed.

Lemma scope_graph_skel : forall st st' a, skel st = skel st' -> scope_graph st a = scope_graph st' a.
Proof. intros st st' a H. apply graph_same_graph. apply skel_graph_same. exact H. Qed.

Lemma skel_upd_verified : forall st x b, skel (upd_scope st x (sc_set_verified b)) = skel st.
Proof.
  intros st x b. unfold skel, upd_scope. cbn [st_scopes st_nodes st_decs set_scopes].
  rewrite map_upd_nth_absorb; [reflexivity | intros c; reflexivity].
Qed.

Lemma scope_graph_upd_verified : forall st x b a,
  scope_graph (upd_scope st x (sc_set_verified b)) a = scope_graph st a.
Proof. intros. apply scope_graph_skel. apply skel_upd_verified. Qed.

(* ---------- the invariants ---------- *)

(* a set flag is backed by a passing check of the CURRENT graph *)
Definition VInv (st : state) : Prop :=
  forall a, s_verified (get_scope st a) = true -> is_acyclic (scope_graph st a) = Some (true, []).

(* every scope graph is acyclic (non-deferred containers) *)
Definition AInv (st : state) : Prop :=
  forall a, is_acyclic (scope_graph st a) = Some (true, []).

Lemma AInv_VInv : forall st, AInv st -> VInv st.
Proof. intros st H a _. apply H. Qed.

Lemma is_acyclic_true_nil : forall st a c, is_acyclic (scope_graph st a) = Some (true, c) -> c = [].
Proof.
  intros st a c H. apply (dfs_complete _ _ (wf_scope_graph st a)) in H. apply H.
Qed.

Lemma VInv_transfer : forall st st', graph_same st st' ->
  (forall a, s_verified (get_scope st' a) = true -> s_verified (get_scope st a) = true) ->
  VInv st -> VInv st'.
Proof.
  intros st st' Hg Hf HV a Ha. rewrite <- (graph_same_graph Hg). apply HV. apply Hf. exact Ha.
Qed.

Lemma AInv_transfer : forall st st', graph_same st st' -> AInv st -> AInv st'.
Proof. intros st st' Hg HA a. rewrite <- (graph_same_graph Hg). apply HA. Qed.

Theorem VInv_init : VInv init_state /\ AInv init_state.
Proof.
  assert (H : AInv init_state).
  { intros [|[|a]]; vm_compute; reflexivity. }
  split; [apply AInv_VInv|]; exact H.
Qed.

(* flags as a function of the flag list *)
Lemma verified_vflags : forall st a, s_verified (get_scope st a) = nth a (vflags st) false.
Proof.
  intros st a. unfold get_scope, vflags.
  change false with (s_verified (empty_scope None)) at 1. symmetry. apply map_nth.
Qed.

(* ---------- Decorate and OBad ---------- *)

Theorem VInv_decorate : forall st s p v st',
  decorate st s p = (v, st') -> (VInv st -> VInv st') /\ (AInv st -> AInv st').
Proof.
  intros st s p v st' H. unfold decorate in H.
  destruct (negb _ || existsb _ _); inversion H; subst; clear H; [tauto|].
  match goal with |- (_ -> VInv (upd_scope ?x s ?f)) /\ _ => set (st1 := x); set (F := f) end.
  assert (Hget : forall a, get_scope (upd_scope st1 s F) a =
                   if Nat.eqb a s && Nat.ltb s (length (st_scopes st)) then F (get_scope st a) else get_scope st a).
  { intros a. rewrite get_scope_upd. reflexivity. }
  assert (Hg : graph_same st (upd_scope st1 s F)).
  { constructor.
    - rewrite upd_scope_length. reflexivity.
    - intros a. rewrite Hget. destruct (_ && _); reflexivity.
    - intros a. rewrite Hget. destruct (_ && _); reflexivity.
    - intros a. rewrite Hget. destruct (_ && _); reflexivity.
    - intros m. reflexivity. }
  split.
  - apply VInv_transfer; [exact Hg|]. intros a. rewrite Hget. destruct (_ && _); auto.
  - apply AInv_transfer. exact Hg.
Qed.
Print Assumptions VInv_decorate.

Theorem VInv_bad : forall cfg b du st k s f v st',
  step cfg b du st (OBad k s f) = (v, st') -> (VInv st -> VInv st') /\ (AInv st -> AInv st').
Proof.
  intros cfg b du st k s f v st' H. apply bad_frame in H. destruct H as [-> _]. tauto.
Qed.

(* ---------- Invoke ---------- *)

(* Invoke after the cycle check *)
Definition invoke_tail (cfg : config) (b : beh) (du : dur) (s : sid) (p : invoke_in) (st1 : state) : verdict * state :=
  match eval cfg b du (eval_fuel st1) (TLeaves s (sig_build_seq (ii_sig p))) st1 with
  | (Fail e, st2) => (VErr (wrap LArgsFailed e), st2)
  | (Abort a, st2) => (VAbort a, st2)
  | (Done built, st2) =>
      match run_fn cfg b du RoleInv (ii_fn p) (place (sig_order (ii_sig p)) built) st2 with
      | (OOk _, _, st3) => (VOk, st3)
      | (OErr, e, st3) => (VErr (mkErr [] (RUser (ii_fn p) e)), st3)
      | (OPanic, e, st3) =>
          if cfg_recover cfg then (VErr (mkErr [] (RPanic (ii_fn p) e)), st3)
          else (VAbort (APanicked (ii_fn p) e), st3)
      end
  end.

Lemma invoke_tail_pres : forall cfg b du s p st1, pres st1 (snd (invoke_tail cfg b du s p st1)).
Proof.
  intros cfg b du s p st1. unfold invoke_tail.
  pose proof (eval_pres cfg b du (eval_fuel st1) (TLeaves s (sig_build_seq (ii_sig p))) st1) as He.
  destruct (eval _ _ _ _ _ st1) as [[built|e|a] st2]; cbn [snd] in *; try exact He.
  pose proof (pres_run_fn cfg b du RoleInv (ii_fn p) (place (sig_order (ii_sig p)) built) st2) as Hr.
  destruct (run_fn _ _ _ _ _ _ st2) as [[o e] st3]; cbn [snd] in *.
  destruct o; [| |destruct (cfg_recover cfg)]; cbn [snd]; eapply pres_trans; eauto.
Qed.

Lemma invoke_unfold : forall cfg b du st s p,
  invoke cfg b du st s p =
  match shallow_missing st s (sig_leaves (ii_sig p)) with
  | (_ :: _) as ks => (VErr (mkErr [LMissingDeps] (RMissing ks)), st)
  | [] =>
      if s_verified (get_scope st s) then invoke_tail cfg b du s p st
      else match is_acyclic (scope_graph st s) with
           | None => (VAbort AFuel, st)
           | Some (true, _) => invoke_tail cfg b du s p (upd_scope st s (sc_set_verified true))
           | Some (false, _) => (VErr (mkErr [LInvalid] RCycle), st)
           end
  end.
Proof.
  intros cfg b du st s p. unfold invoke, invoke_tail.
  destruct (shallow_missing _ _ _); [|reflexivity].
  destruct (s_verified (get_scope st s)); [reflexivity|].
  destruct (is_acyclic _) as [[[|] c]|]; reflexivity.
Qed.

Lemma pres_VInv : forall st st', pres st st' -> (VInv st -> VInv st') /\ (AInv st -> AInv st').
Proof.
  intros st st' [Hs Hf]. assert (Hg : graph_same st st') by (apply skel_graph_same; congruence).
  split.
  - apply VInv_transfer; [exact Hg|]. intros a. rewrite !verified_vflags, Hf. auto.
  - apply AInv_transfer. exact Hg.
Qed.

Theorem VInv_invoke : forall cfg b du st s p,
  (VInv st -> VInv (snd (invoke cfg b du st s p))) /\
  (AInv st -> AInv (snd (invoke cfg b du st s p))).
Proof.
  intros cfg b du st s p. rewrite invoke_unfold.
  destruct (shallow_missing _ _ _); [|cbn [snd]; tauto].
  destruct (s_verified (get_scope st s)).
  - apply pres_VInv. apply invoke_tail_pres.
  - destruct (is_acyclic (scope_graph st s)) as [[[|] c]|] eqn:Ea; cbn [snd]; try tauto.
    pose proof (invoke_tail_pres cfg b du s p (upd_scope st s (sc_set_verified true))) as Hp.
    apply pres_VInv in Hp. destruct Hp as [HpV HpA]. split; intros H.
    + apply HpV. intros a Ha. rewrite scope_graph_upd_verified.
      rewrite get_scope_upd in Ha.
      destruct (Nat.eqb_spec a s) as [E|Hne]; cbn [andb] in Ha.
      * subst a. rewrite Ea. f_equal. f_equal. eapply is_acyclic_true_nil; eauto.
      * apply H. exact Ha.
    + apply HpA. intros a. rewrite scope_graph_upd_verified. apply H.
Qed.
Print Assumptions VInv_invoke.

(* Invoke never reports fuel exhaustion from its own cycle check *)
Lemma invoke_check_never_dry : forall st s, is_acyclic (scope_graph st s) <> None.
Proof. intros. apply scope_graph_fuel. Qed.

(* ---------- Scope() ---------- *)

Lemma path_fuel_agree : forall st st', TInv st ->
  (forall y, y < length (st_scopes st) -> s_parent (get_scope st' y) = s_parent (get_scope st y)) ->
  forall f s, s < length (st_scopes st) -> path_fuel f st' s = path_fuel f st s.
Proof.
  intros st st' HT Hag f; induction f as [|f IH]; intros s Hs; cbn [path_fuel]; [reflexivity|].
  rewrite Hag by exact Hs. pose proof (ti_parent HT s Hs) as Hp.
  destruct (s_parent (get_scope st s)) as [q|]; [|reflexivity].
  rewrite IH by lia. reflexivity.
Qed.

Arguments path_fuel_agree {st} st' _ _ f s _.
Arguments path_fuel_le {st} _ {f s x} _ _.

Section NewScopeGraph.
  Variables (st : state) (p : sid).
  Hypothesis HT : TInv st.
  Hypothesis Hp : p < length (st_scopes st).
  Let len := length (st_scopes st).

  Lemma np_parent_old : forall y, y < len -> s_parent (get_scope (new_scope st p) y) = s_parent (get_scope st y).
  Proof.
    intros y Hy. rewrite np_parent by exact Hp. fold len.
    destruct (Nat.eqb_spec y len); [lia|reflexivity].
  Qed.

  Lemma np_path_old : forall a, a < len -> path (new_scope st p) a = path st a.
  Proof.
    intros a Ha. unfold path. rewrite new_scope_length. fold len.
    rewrite (path_fuel_agree (new_scope st p) HT np_parent_old) by exact Ha.
    apply path_fuel_enough; [exact HT | exact Ha | lia | exact Ha].
  Qed.

  Lemma np_path_new : path (new_scope st p) len = len :: path st p.
  Proof.
    unfold path. rewrite new_scope_length. fold len. cbn [path_fuel].
    rewrite np_parent by exact Hp. fold len. rewrite Nat.eqb_refl. f_equal.
    apply (path_fuel_agree (new_scope st p) HT np_parent_old). exact Hp.
  Qed.

  Lemma np_providers_at_old : forall b k, b <> len -> providers_at (new_scope st p) b k = providers_at st b k.
  Proof.
    intros b k Hb. unfold providers_at. rewrite np_providers by exact Hp. fold len.
    destruct (Nat.eqb_spec b len); [contradiction|reflexivity].
  Qed.

  Lemma np_pop_old : forall a k, a < len -> providers_on_path (new_scope st p) a k = providers_on_path st a k.
  Proof.
    intros a k Ha. unfold providers_on_path. rewrite np_path_old by exact Ha.
    apply flat_map_ext_in. intros b Hb. apply np_providers_at_old.
    apply (path_fuel_le HT) in Hb; [|exact Ha]. lia.
  Qed.

  Lemma np_pop_new : forall k, providers_on_path (new_scope st p) len k = providers_on_path st p k.
  Proof.
    intros k. unfold providers_on_path. rewrite np_path_new. cbn [flat_map].
    unfold providers_at at 1. rewrite np_providers by exact Hp. fold len. rewrite Nat.eqb_refl.
    cbn [alookup_list alookup app].
    apply flat_map_ext_in. intros b Hb. apply np_providers_at_old.
    apply (path_fuel_le HT) in Hb; [|exact Hp]. lia.
  Qed.

  Lemma np_graph_old : forall a, a < len -> scope_graph (new_scope st p) a = scope_graph st a.
  Proof.
    intros a Ha. apply scope_graph_ext2.
    - rewrite np_gnodes by exact Hp. fold len. destruct (Nat.eqb_spec a len); [lia|reflexivity].
    - intros k. apply np_pop_old. exact Ha.
    - intros g _. reflexivity.
  Qed.

  (* the child starts with a copy of the parent's graph: literally the same graph *)
  Lemma np_graph_new : scope_graph (new_scope st p) len = scope_graph st p.
  Proof.
    apply scope_graph_ext2.
    - rewrite np_gnodes by exact Hp. fold len. rewrite Nat.eqb_refl. reflexivity.
    - intros k. apply np_pop_new.
    - intros g _. reflexivity.
  Qed.

  Lemma np_graph_beyond : forall a, len < a -> scope_graph (new_scope st p) a = [].
  Proof.
    intros a Ha. unfold scope_graph. rewrite np_gnodes by exact Hp. fold len.
    destruct (Nat.eqb_spec a len); [lia|].
    rewrite get_scope_overflow by (fold len; lia). reflexivity.
  Qed.
End NewScopeGraph.

Theorem VInv_new_scope : forall st p, SInv st -> p < length (st_scopes st) ->
  (VInv st -> VInv (new_scope st p)) /\ (AInv st -> AInv (new_scope st p)).
Proof.
  intros st p [HT _] Hp. split.
  - intros HV a Ha. rewrite np_verified in Ha by exact Hp.
    destruct (Nat.eqb_spec a (length (st_scopes st))) as [E|Hne]; [discriminate|].
    destruct (Nat.lt_ge_cases a (length (st_scopes st))) as [Hlt|Hge].
    + rewrite np_graph_old by assumption. apply HV. exact Ha.
    + rewrite get_scope_overflow in Ha by exact Hge. discriminate.
  - intros HA a.
    destruct (Nat.lt_trichotomy a (length (st_scopes st))) as [Hlt|[E|Hgt]].
    + rewrite np_graph_old by assumption. apply HA.
    + subst a. rewrite np_graph_new by assumption. apply HA.
    + rewrite np_graph_beyond by assumption. reflexivity.
Qed.
Print Assumptions VInv_new_scope.

(* ---------- Provide : what the verification loop does to the flags ---------- *)

Lemma verified_upd : forall st x b a,
  s_verified (get_scope (upd_scope st x (sc_set_verified b)) a) =
  if Nat.eqb a x && Nat.ltb x (length (st_scopes st)) then b else s_verified (get_scope st a).
Proof. intros st x b a. rewrite get_scope_upd. destruct (_ && _); reflexivity. Qed.

Lemma verify_loop_flags_outside : forall d A st r st4, verify_loop d A st = (r, st4) ->
  forall a, ~ In a A -> s_verified (get_scope st4 a) = s_verified (get_scope st a).
Proof.
  intros d A; induction A as [|a0 A IH]; intros st r st4 H a Ha; cbn [verify_loop] in H.
  - inversion H; subst. reflexivity.
  - assert (Hne : a <> a0) by (intros ->; apply Ha; left; reflexivity).
    assert (Ha' : ~ In a A) by (intros Hin; apply Ha; right; exact Hin).
    assert (Hoff : forall st b, s_verified (get_scope (upd_scope st a0 (sc_set_verified b)) a) = s_verified (get_scope st a)).
    { intros st0 b0. rewrite get_scope_upd_other by exact Hne. reflexivity. }
    destruct d.
    + rewrite (IH _ _ _ H a Ha'). apply Hoff.
    + destruct (is_acyclic _) as [[[|] c]|].
      * rewrite (IH _ _ _ H a Ha'), !Hoff. reflexivity.
      * inversion H; subst. apply Hoff.
      * inversion H; subst. apply Hoff.
Qed.

Lemma verify_loop_flags_true : forall d A st r st4, verify_loop d A st = (r, st4) ->
  forall a, s_verified (get_scope st4 a) = true ->
  s_verified (get_scope st a) = true \/ is_acyclic (scope_graph st a) = Some (true, []).
Proof.
  intros d A; induction A as [|a0 A IH]; intros st r st4 H a Ha; cbn [verify_loop] in H.
  - inversion H; subst. left; exact Ha.
  - destruct d.
    + destruct (IH _ _ _ H a Ha) as [H1|H1].
      * rewrite verified_upd in H1. destruct (_ && _); [discriminate | left; exact H1].
      * rewrite scope_graph_upd_verified in H1. right; exact H1.
    + destruct (is_acyclic (scope_graph (upd_scope st a0 (sc_set_verified false)) a0)) as [[[|] c]|] eqn:Ea.
      * destruct (IH _ _ _ H a Ha) as [H1|H1].
        -- rewrite verified_upd in H1.
           destruct (Nat.eqb_spec a a0) as [E|Hne]; cbn [andb] in H1.
           ++ subst a0. destruct (Nat.ltb a _) eqn:El.
              ** right. rewrite scope_graph_upd_verified in Ea. rewrite Ea.
                 f_equal. f_equal. eapply is_acyclic_true_nil; eauto.
              ** rewrite verified_upd in H1. rewrite upd_scope_length in El.
                 rewrite El, andb_false_r in H1. left; exact H1.
           ++ rewrite get_scope_upd_other in H1 by exact Hne. left; exact H1.
        -- rewrite !scope_graph_upd_verified in H1. right; exact H1.
      * inversion H; subst. rewrite verified_upd in Ha.
        destruct (_ && _); [discriminate | left; exact Ha].
      * inversion H; subst. rewrite verified_upd in Ha.
        destruct (_ && _); [discriminate | left; exact Ha].
Qed.

Lemma verify_loop_all_acyclic : forall A st st4, verify_loop false A st = (Done None, st4) ->
  forall a, In a A -> is_acyclic (scope_graph st a) = Some (true, []).
Proof.
  intros A; induction A as [|a0 A IH]; intros st st4 H a Ha; cbn [verify_loop] in H; [destruct Ha|].
  destruct (is_acyclic (scope_graph (upd_scope st a0 (sc_set_verified false)) a0)) as [[[|] c]|] eqn:Ea;
    try discriminate.
  destruct Ha as [<-|Ha].
  - rewrite scope_graph_upd_verified in Ea. rewrite Ea. f_equal. f_equal. eapply is_acyclic_true_nil; eauto.
  - specialize (IH _ _ H a Ha). rewrite !scope_graph_upd_verified in IH. exact IH.
Qed.

Lemma verify_loop_defer_false : forall A st r st4, verify_loop true A st = (r, st4) ->
  forall a, In a A -> s_verified (get_scope st4 a) = false.
Proof.
  intros A; induction A as [|a0 A IH]; intros st r st4 H a Ha; cbn [verify_loop] in H; [destruct Ha|].
  destruct (in_dec Nat.eq_dec a A) as [Hin|Hnin]; [eapply IH; eauto|].
  destruct Ha as [<-|Ha]; [|contradiction].
  rewrite (verify_loop_flags_outside _ _ _ _ _ H a0 Hnin). rewrite verified_upd, Nat.eqb_refl. cbn [andb].
  destruct (Nat.ltb_spec a0 (length (st_scopes st))) as [Hlt|Hge]; [reflexivity|].
  rewrite get_scope_overflow by exact Hge. reflexivity.
Qed.

(* ---------- a graph that only gains vertices and edges ---------- *)

Lemma is_path_mono : forall g g', (forall u v, edge g u v -> edge g' u v) ->
  forall p, is_path g p -> is_path g' p.
Proof.
  intros g g' H p; induction p as [|x t IH]; intros Hp; [exact I|].
  destruct t as [|y t']; [exact I|]. cbn [is_path] in *. destruct Hp as [He Hp].
  split; [apply H; exact He | apply IH; exact Hp].
Qed.

Lemma cyclic_mono : forall g g', (forall u v, edge g u v -> edge g' u v) -> cyclic g -> cyclic g'.
Proof.
  intros g g' H [p (Hl & Hp & Hh)]. exists p. split; [exact Hl|]. split; [|exact Hh].
  eapply is_path_mono; eauto.
Qed.

Lemma acyclic_sub : forall st a st' a',
  (forall u v, edge (scope_graph st a) u v -> edge (scope_graph st' a') u v) ->
  is_acyclic (scope_graph st' a') = Some (true, []) -> is_acyclic (scope_graph st a) = Some (true, []).
Proof.
  intros st a st' a' H Hac.
  apply (dfs_true_iff _ (wf_scope_graph st a)).
  apply (dfs_true_iff _ (wf_scope_graph st' a')) in Hac.
  intros Hc. apply Hac. eapply cyclic_mono; eauto.
Qed.

Section GraphSub.
  Variables (st st' : state) (a : sid) (extra : list gref) (N : nat).
  Hypothesis H1 : s_gnodes (get_scope st' a) = s_gnodes (get_scope st a) ++ extra.
  Hypothesis H2 : forall m, m < N -> c_sig (get_node st' m) = c_sig (get_node st m).
  Hypothesis H3 : forall k, incl (providers_on_path st a k) (providers_on_path st' a k).
  Hypothesis H4 : forall g, gref_nid g < N -> order_in st' a g = order_in st a g.
  Hypothesis H5 : forall k m, In m (providers_on_path st a k) -> m < N.
  Hypothesis H6 : forall g, In g (s_gnodes (get_scope st a)) -> gref_nid g < N.

  Lemma pop_edges_sub : forall k,
    incl (map (fun m => order_in st a (GCtor m)) (providers_on_path st a k))
         (map (fun m => order_in st' a (GCtor m)) (providers_on_path st' a k)).
  Proof.
    intros k x Hx. apply in_map_iff in Hx. destruct Hx as [m [<- Hm]].
    apply in_map_iff. exists m. split; [|apply H3; exact Hm].
    apply H4. cbn. eapply H5; eauto.
  Qed.

  Lemma leaf_edges_sub : forall n, n < N -> forall ls i,
    incl (leaf_edges st a n i ls) (leaf_edges st' a n i ls).
  Proof.
    intros n Hn ls; induction ls as [|[k o|k sf] t IH]; intros i; cbn [leaf_edges].
    - apply incl_refl.
    - apply incl_app; [apply incl_appl; apply pop_edges_sub | apply incl_appr; apply IH].
    - intros x [<-|Hx]; [left; apply H4; exact Hn | right; apply IH; exact Hx].
  Qed.

  Lemma edges_of_sub : forall g, In g (s_gnodes (get_scope st a)) ->
    incl (edges_of st a g) (edges_of st' a g).
  Proof.
    intros g Hg. pose proof (H6 g Hg) as Hn.
    destruct g as [n|n i]; cbn [edges_of gref_nid] in *; rewrite (H2 n Hn).
    - apply leaf_edges_sub. exact Hn.
    - destruct (nth_error _ i) as [[k o|k sf]|]; try apply incl_refl. apply pop_edges_sub.
  Qed.

  Lemma scope_graph_sub : forall u v, edge (scope_graph st a) u v -> edge (scope_graph st' a) u v.
  Proof.
    intros u v He. unfold edge, scope_graph in *.
    destruct (Nat.lt_ge_cases u (length (s_gnodes (get_scope st a)))) as [Hlt|Hge].
    - rewrite (nth_indep _ [] (edges_of st a (GCtor 0))) in He by (rewrite map_length; exact Hlt).
      rewrite map_nth in He.
      rewrite (nth_indep _ [] (edges_of st' a (GCtor 0)))
        by (rewrite map_length, H1, app_length; lia).
      rewrite map_nth, H1, app_nth1 by exact Hlt.
      eapply edges_of_sub; [apply nth_In; exact Hlt | exact He].
    - rewrite nth_overflow in He by (rewrite map_length; exact Hge). destruct He.
  Qed.
End GraphSub.

(* ---------- association-list and index facts for the provider tables ---------- *)

Lemma key_eqb_eq : forall a b, key_eqb a b = true <-> a = b.
Proof.
  intros [t1 n1 g1] [t2 n2 g2]. unfold key_eqb; cbn.
  rewrite !andb_true_iff, !Nat.eqb_eq. split.
  - intros [[-> ->] ->]. reflexivity.
  - intros H. inversion H. auto.
Qed.

Lemma alookup_aset : forall (V : Type) k k0 (v : V) l,
  alookup key_eqb k (aset key_eqb k0 v l) = if key_eqb k k0 then Some v else alookup key_eqb k l.
Proof.
  intros V k k0 v l; induction l as [|[k' v'] t IH]; cbn.
  - destruct (key_eqb k k0); reflexivity.
  - destruct (key_eqb k0 k') eqn:E0; cbn.
    + apply key_eqb_eq in E0. subst k'. destruct (key_eqb k k0); reflexivity.
    + rewrite IH. destruct (key_eqb k k') eqn:E1; [|reflexivity].
      destruct (key_eqb k k0) eqn:E2; [|reflexivity].
      apply key_eqb_eq in E1. apply key_eqb_eq in E2. subst k' k0.
      assert (key_eqb k k = true) by (apply key_eqb_eq; reflexivity). congruence.
Qed.

Lemma alookup_list_add_provider : forall k n ps k0,
  incl (alookup_list key_eqb k ps) (alookup_list key_eqb k (add_provider n ps k0)).
Proof.
  intros k n ps k0. unfold add_provider, alookup_list at 2. rewrite alookup_aset.
  destruct (key_eqb k k0) eqn:E; [|apply incl_refl].
  apply key_eqb_eq in E. subst k0. apply incl_appl. apply incl_refl.
Qed.

Lemma alookup_list_fold_add_provider : forall k n keys ps,
  incl (alookup_list key_eqb k ps) (alookup_list key_eqb k (fold_left (add_provider n) keys ps)).
Proof.
  intros k n keys; induction keys as [|k0 t IH]; intros ps; cbn [fold_left]; [apply incl_refl|].
  eapply incl_tran; [apply alookup_list_add_provider | apply IH].
Qed.

Lemma index_of_notin : forall (A : Type) (eqb : A -> A -> bool) x r,
  (forall y, In y r -> eqb x y = false) -> index_of eqb x r = None.
Proof.
  intros A eqb x r; induction r as [|h t IH]; intros H; cbn; [reflexivity|].
  rewrite (H h) by (left; reflexivity). rewrite IH; [reflexivity|].
  intros y Hy. apply H. right; exact Hy.
Qed.

Lemma index_of_app_notin : forall (A : Type) (eqb : A -> A -> bool) x l r,
  (forall y, In y r -> eqb x y = false) -> index_of eqb x (l ++ r) = index_of eqb x l.
Proof.
  intros A eqb x l r H; induction l as [|h t IH]; cbn.
  - apply index_of_notin. exact H.
  - destruct (eqb x h); [reflexivity|]. rewrite IH. reflexivity.
Qed.

Lemma gref_eqb_nid : forall g y, gref_eqb g y = true -> gref_nid g = gref_nid y.
Proof.
  intros [n|n i] [m|m j] H; cbn in *; try discriminate.
  - apply Nat.eqb_eq. exact H.
  - apply andb_true_iff in H. destruct H as [H _]. apply Nat.eqb_eq. exact H.
Qed.

Lemma incl_flat_map : forall (A B : Type) (f g : A -> list B) l,
  (forall b, incl (f b) (g b)) -> incl (flat_map f l) (flat_map g l).
Proof.
  intros A B f g l H x Hx. apply in_flat_map in Hx. destruct Hx as [b [Hb Hx]].
  apply in_flat_map. exists b. split; [exact Hb | apply H; exact Hx].
Qed.

Lemma pop_bound : forall st, BInv st -> forall a k m,
  In m (providers_on_path st a k) -> m < length (st_nodes st).
Proof.
  intros st HB a k m H. unfold providers_on_path in H. apply in_flat_map in H.
  destruct H as [b [_ Hm]]. unfold providers_at, alookup_list in Hm.
  destruct (alookup key_eqb k (s_providers (get_scope st b))) as [ns|] eqn:E; [|destruct Hm].
  destruct (alookup_In _ _ _ _ E) as [k' Hk']. eapply (bi_providers HB); eauto.
Qed.

Lemma subtree_fuel_self : forall f st s, In s (subtree_fuel f st s).
Proof. intros [|f] st s; left; reflexivity. Qed.

Lemma path_fuel_anc : forall st f a s, In s (path_fuel f st a) -> anc st a s.
Proof.
  intros st f; induction f as [|f IH]; intros a s H; cbn [path_fuel] in H; [destruct H|].
  destruct H as [<-|H]; [constructor|].
  destruct (s_parent (get_scope st a)) as [q|] eqn:E; [|destruct H].
  eapply anc_up; eauto.
Qed.

Lemma subtree_closed : forall st, TInv st -> forall f s q x,
  s < length (st_scopes st) -> length (st_scopes st) <= f + s + 1 ->
  In q (subtree_fuel f st s) -> In x (s_children (get_scope st q)) -> In x (subtree_fuel f st s).
Proof.
  intros st HT f; induction f as [|f IH]; intros s q x Hs Hf Hq Hx; cbn [subtree_fuel] in *.
  - destruct Hq as [<-|[]]. apply (child_gt HT Hs) in Hx. lia.
  - destruct Hq as [<-|Hq].
    + right. apply in_flat_map. exists x. split; [exact Hx | apply subtree_fuel_self].
    + right. apply in_flat_map in Hq. destruct Hq as [c [Hc Hq]].
      apply in_flat_map. exists c. split; [exact Hc|].
      pose proof (child_gt HT Hs Hc) as Hlt.
      apply (IH c q x); [lia | lia | exact Hq | exact Hx].
Qed.

(* the subtree of s contains every scope that has s among its ancestors *)
Arguments subtree_closed {st} _ f s q x _ _ _ _.

Lemma anc_subtree : forall st, TInv st -> forall a s, anc st a s ->
  a < length (st_scopes st) -> In a (subtree st s).
Proof.
  intros st HT a s H; induction H as [x|x q s Hp H IH]; intros Hx.
  - apply subtree_fuel_self.
  - pose proof (ti_parent HT x Hx) as Hq. rewrite Hp in Hq.
    assert (Hql : q < length (st_scopes st)) by lia.
    pose proof (anc_le HT H Hql) as Hsq.
    unfold subtree. apply (subtree_closed HT (length (st_scopes st)) s q x); [lia | lia | apply IH; exact Hql |].
    apply (ti_children HT q x Hql). split; assumption.
Qed.

Lemma vflags_upd_scope : forall st a f, (forall c, s_verified (f c) = s_verified c) ->
  vflags (upd_scope st a f) = vflags st.
Proof.
  intros st a f H. unfold vflags, upd_scope. cbn [st_scopes set_scopes].
  apply (map_upd_nth_absorb s_verified f H).
Qed.

Lemma vflags_rollback : forall snap st, vflags (rollback_gnodes snap st) = vflags st.
Proof.
  unfold rollback_gnodes.
  intros snap; induction snap as [|q snap IH]; intros st; cbn [fold_left]; [reflexivity|].
  rewrite IH. apply vflags_upd_scope. intros c; reflexivity.
Qed.

(* ---------- Provide and the flags ---------- *)

Section ProvideGraph.
  Variables (st : state) (s0 : sid) (p : provide_in).
  Let s := if pi_export p then 0 else s0.
  Let A := subtree st s.
  Let n := length (st_nodes st).
  Let node := mkCNode (pi_fn p) (pi_sig p) s s0 false false (pi_cb p).
  Let gs := group_grefs n 0 (sig_leaves (pi_sig p)) ++ [GCtor n].
  Let st2 := fold_left (append_gnodes gs) A (set_nodes st (st_nodes st ++ [node])).
  Let keys := dedup_first key_eqb (sig_keys (pi_sig p)).
  Let st3 := upd_scope st2 s (fun c => sc_set_providers (fold_left (add_provider n) keys (s_providers c)) c).
  Let undo := fun x : state => set_nodes (rollback_gnodes (snapshot st A) x) (st_nodes st).

  Lemma provide_unfold : forall cfg,
    provide cfg st s0 p =
    if dup_check (s_providers (get_scope st2 s)) [] (sig_rleaves (pi_sig p)) then (VErr err_dup, undo st2)
    else if is_nil keys then (VErr err_noresults, undo st2)
    else match verify_loop (cfg_defer cfg) A st3 with
         | (Abort a, st4) => (VAbort a, st4)
         | (Fail e, st4) => (VErr e, st4)
         | (Done (Some _), st4) =>
             (VErr err_provide_cycle, undo (upd_scope st4 s (sc_set_providers (s_providers (get_scope st2 s)))))
         | (Done None, st4) => (VOk, upd_scope st4 s (fun c => sc_set_nodes (s_nodes c ++ [n]) c))
         end.
  Proof. reflexivity. Qed.

  Lemma st3_fields : forall x,
    s_parent (get_scope st3 x) = s_parent (get_scope st x) /\
    s_verified (get_scope st3 x) = s_verified (get_scope st x) /\
    (exists extra, incl extra gs /\ s_gnodes (get_scope st3 x) = s_gnodes (get_scope st x) ++ extra) /\
    (s_providers (get_scope st3 x) = s_providers (get_scope st x) \/
     s_providers (get_scope st3 x) = fold_left (add_provider n) keys (s_providers (get_scope st x))).
  Proof.
    intros x. destruct (st3_scope st s0 p x) as (extra & provs & Hincl & Hx & Hp).
    fold s A n node gs st2 keys st3 in Hx, Hp, Hincl. rewrite Hx.
    split; [destruct (get_scope st x); reflexivity|].
    split; [destruct (get_scope st x); reflexivity|].
    split.
    - exists extra. split; [exact Hincl | destruct (get_scope st x); reflexivity].
    - destruct Hp as [->|[_ ->]]; [left | right]; destruct (get_scope st x); reflexivity.
  Qed.

  Lemma st3_path : forall a, path st3 a = path st a.
  Proof.
    intros a.
    assert (Hl : length (st_scopes st3) = length (st_scopes st)) by apply (st3_len st s0 p).
    unfold path. rewrite Hl.
    apply path_fuel_parents. intros x. apply st3_fields.
  Qed.

  Lemma st3_pop_incl : forall a k, incl (providers_on_path st a k) (providers_on_path st3 a k).
  Proof.
    intros a k. unfold providers_on_path. rewrite st3_path. apply incl_flat_map.
    intros b. unfold providers_at.
    destruct (st3_fields b) as (_ & _ & _ & [-> | ->]); [apply incl_refl|].
    apply alookup_list_fold_add_provider.
  Qed.

  Lemma st3_sig : forall m, m < n -> c_sig (get_node st3 m) = c_sig (get_node st m).
  Proof.
    intros m Hm. unfold get_node.
    replace (st_nodes st3) with (st_nodes st ++ [node]) by (symmetry; apply (st2_nodes st s0 p)).
    rewrite app_nth1 by exact Hm. reflexivity.
  Qed.

  Lemma st3_order_in : forall a g, gref_nid g < n -> order_in st3 a g = order_in st a g.
  Proof.
    intros a g Hg. unfold order_in.
    destruct (st3_fields a) as (_ & _ & (extra & Hincl & ->) & _).
    rewrite index_of_app_notin; [reflexivity|].
    intros y Hy. destruct (gref_eqb g y) eqn:E; [|reflexivity].
    apply gref_eqb_nid in E. apply Hincl in Hy.
    pose proof (gs_nid st p y Hy) as Hn. fold n in Hn. lia.
  Qed.

  Hypothesis HS : SInv st.
  Hypothesis Hs0 : s0 < length (st_scopes st).

  Lemma st3_edges_sub : forall a u v, edge (scope_graph st a) u v -> edge (scope_graph st3 a) u v.
  Proof.
    intros a. destruct HS as [_ HB].
    destruct (st3_fields a) as (_ & _ & (extra & _ & Hg) & _).
    apply (scope_graph_sub st st3 a extra n Hg).
    - exact st3_sig.
    - intros k. apply st3_pop_incl.
    - intros g. apply st3_order_in.
    - intros k m. apply pop_bound. exact HB.
    - intros g. apply (bi_gnodes HB).
  Qed.

  Lemma st3_acyclic_sub : forall a,
    is_acyclic (scope_graph st3 a) = Some (true, []) -> is_acyclic (scope_graph st a) = Some (true, []).
  Proof. intros a. apply acyclic_sub. apply st3_edges_sub. Qed.

  Lemma target_in_A : In s A.
  Proof. unfold A, subtree. apply subtree_fuel_self. Qed.

  (* scopes outside the subtree of the target keep their graph *)
  Lemma st3_graph_outside : forall a, ~ In a A -> scope_graph st3 a = scope_graph st a.
  Proof.
    intros a Ha. destruct HS as [HT HB].
    assert (Hne : a <> s) by (intros ->; apply Ha; apply target_in_A).
    assert (Hsc : get_scope st3 a = get_scope st a).
    { unfold st3. rewrite get_scope_upd_other by exact Hne. apply (st2_outside st s0 p). exact Ha. }
    apply scope_graph_ext2.
    - rewrite Hsc. reflexivity.
    - intros k. unfold providers_on_path. rewrite st3_path.
      apply flat_map_ext_in. intros b Hb. unfold providers_at.
      assert (Hbs : b <> s).
      { intros ->. apply Ha. unfold path in Hb.
        destruct (Nat.lt_ge_cases a (length (st_scopes st))) as [Hlt|Hge].
        - apply (anc_subtree st HT); [eapply path_fuel_anc; eauto | exact Hlt].
        - exfalso. pose proof (provide_target_lt st s0 p (conj HT HB) Hs0) as Hs. fold s in Hs.
          destruct (length (st_scopes st)) as [|l] eqn:El; [lia|].
          cbn [path_fuel] in Hb. rewrite get_scope_overflow in Hb by lia.
          cbn in Hb. destruct Hb as [Hb|[]]. lia. }
      unfold st3. rewrite get_scope_upd_other by exact Hbs.
      destruct (st2_scope st s0 p b) as [extra [_ Hb2]]. fold s A n node gs st2 in Hb2.
      rewrite Hb2. destruct (get_scope st b); reflexivity.
    - intros g Hg. apply st3_sig. rewrite Hsc in Hg. apply (bi_gnodes HB) in Hg. exact Hg.
  Qed.

  Lemma undo_flags : forall x a, s_verified (get_scope (undo x) a) = s_verified (get_scope x a).
  Proof.
    intros x a. rewrite !verified_vflags. unfold undo.
    change (vflags (set_nodes ?y _)) with (vflags y). rewrite vflags_rollback. reflexivity.
  Qed.

  Theorem VInv_provide_rejected_sec : forall cfg e st',
    provide cfg st s0 p = (VErr e, st') -> (VInv st -> VInv st') /\ (AInv st -> AInv st').
  Proof.
    intros cfg e st' H.
    pose proof (provide_rejected_frame_gen _ _ _ _ _ _ H) as Hsbv.
    assert (Hg : graph_same st st') by (apply skel_graph_same; apply sbv_skel; exact Hsbv).
    split; [|apply AInv_transfer; exact Hg].
    intros HV.
    rewrite provide_unfold in H.
    destruct (dup_check _ _ _).
    { inversion H; subst. unfold undo, st2. rewrite provide_undo_exact. exact HV. }
    destruct (is_nil keys).
    { inversion H; subst. unfold undo, st2. rewrite provide_undo_exact. exact HV. }
    destruct (verify_loop (cfg_defer cfg) A st3) as [[[o|]|e'|x] st4] eqn:Ev; try discriminate.
    2:{ exfalso. eapply verify_loop_not_fail; eauto. }
    inversion H; subst; clear H.
    intros a Ha. rewrite <- (graph_same_graph Hg).
    rewrite undo_flags in Ha.
    rewrite get_scope_upd in Ha.
    assert (Ha4 : s_verified (get_scope st4 a) = true) by (destruct (_ && _); exact Ha).
    destruct (verify_loop_flags_true _ _ _ _ _ Ev a Ha4) as [H1|H1].
    - apply HV. destruct (st3_fields a) as (_ & Hf & _). rewrite <- Hf. exact H1.
    - apply st3_acyclic_sub. exact H1.
  Qed.
  Theorem VInv_provide_accepted_sec : forall cfg st',
    provide cfg st s0 p = (VOk, st') ->
    (VInv st -> VInv st') /\ (cfg_defer cfg = false -> AInv st -> AInv st').
  Proof.
    intros cfg st' H. rewrite provide_unfold in H.
    destruct (dup_check _ _ _); [discriminate|].
    destruct (is_nil keys); [discriminate|].
    destruct (verify_loop (cfg_defer cfg) A st3) as [[[o|]|e'|x] st4] eqn:Ev; try discriminate.
    inversion H; subst; clear H.
    set (F := fun c : scope => sc_set_nodes (s_nodes c ++ [n]) c).
    assert (Hg45 : graph_same st4 (upd_scope st4 s F)).
    { constructor.
      - rewrite upd_scope_length. reflexivity.
      - intros a. rewrite get_scope_upd. destruct (_ && _); reflexivity.
      - intros a. rewrite get_scope_upd. destruct (_ && _); reflexivity.
      - intros a. rewrite get_scope_upd. destruct (_ && _); reflexivity.
      - intros m. reflexivity. }
    assert (Hgraph : forall a, scope_graph (upd_scope st4 s F) a = scope_graph st3 a).
    { intros a. rewrite <- (graph_same_graph Hg45). apply scope_graph_skel.
      apply verify_loop_E in Ev. rewrite <- (skel_erase st4), <- (skel_erase st3), Ev. reflexivity. }
    assert (Hflag : forall a, s_verified (get_scope (upd_scope st4 s F) a) = s_verified (get_scope st4 a)).
    { intros a. rewrite get_scope_upd. destruct (_ && _); reflexivity. }
    split.
    - intros HV a Ha. rewrite Hgraph. rewrite Hflag in Ha.
      destruct (in_dec Nat.eq_dec a A) as [Hin|Hnin].
      + destruct (cfg_defer cfg) eqn:Ed.
        * rewrite (verify_loop_defer_false _ _ _ _ Ev a Hin) in Ha. discriminate.
        * apply (verify_loop_all_acyclic _ _ _ Ev a Hin).
      + rewrite st3_graph_outside by exact Hnin. apply HV.
        rewrite (verify_loop_flags_outside _ _ _ _ _ Ev a Hnin) in Ha.
        destruct (st3_fields a) as (_ & Hf & _). rewrite <- Hf. exact Ha.
    - intros Hd HA a. rewrite Hgraph. rewrite Hd in Ev.
      destruct (in_dec Nat.eq_dec a A) as [Hin|Hnin].
      + apply (verify_loop_all_acyclic _ _ _ Ev a Hin).
      + rewrite st3_graph_outside by exact Hnin. apply HA.
  Qed.
End ProvideGraph.

Theorem VInv_provide : forall cfg st s0 p v st',
  SInv st -> s0 < length (st_scopes st) -> provide cfg st s0 p = (v, st') ->
  (VInv st -> VInv st') /\ (cfg_defer cfg = false -> AInv st -> AInv st').
Proof.
  intros cfg st s0 p [|e|x] st' HS Hs0 H.
  - eapply VInv_provide_accepted_sec; eauto.
  - destruct (VInv_provide_rejected_sec st s0 p HS cfg e st' H) as [H1 H2]. split; auto.
  - exfalso. eapply provide_never_aborts; eauto.
Qed.
Print Assumptions VInv_provide.

(* a rejected Provide keeps both invariants (stated separately, as in C06) *)
Theorem VInv_provide_rejected : forall cfg st s0 p e st',
  SInv st -> s0 < length (st_scopes st) -> provide cfg st s0 p = (VErr e, st') ->
  (VInv st -> VInv st') /\ (AInv st -> AInv st').
Proof. intros cfg st s0 p e st' HS Hs0 H. eapply VInv_provide_rejected_sec; eauto. Qed.
Print Assumptions VInv_provide_rejected.

(* ---------- all together, along well-scoped histories ---------- *)

Definition GInv (cfg : config) (st : state) : Prop :=
  SInv st /\ VInv st /\ (cfg_defer cfg = false -> AInv st).

Theorem GInv_step : forall cfg b du st o,
  GInv cfg st -> op_ok (length (st_scopes st)) o = true -> GInv cfg (snd (step cfg b du st o)).
Proof.
  intros cfg b du st o (HS & HV & HA) Hok.
  split; [apply SInv_step; assumption|].
  destruct o as [q|s q|s q|s q|k s f]; cbn [step op_ok snd] in *.
  - apply Nat.ltb_lt in Hok. destruct (VInv_new_scope st q HS Hok) as [H1 H2]. split; auto.
  - apply Nat.ltb_lt in Hok. destruct (provide cfg st s q) as [v st'] eqn:E. cbn [snd].
    destruct (VInv_provide cfg st s q v st' HS Hok E) as [H1 H2]. split; auto.
  - destruct (decorate st s q) as [v st'] eqn:E. cbn [snd].
    destruct (VInv_decorate st s q v st' E) as [H1 H2]. split; auto.
  - destruct (VInv_invoke cfg b du st s q) as [H1 H2]. split; auto.
  - split; assumption.
Qed.
Print Assumptions GInv_step.

Theorem GInv_run_from : forall cfg b du h st,
  GInv cfg st -> wf_scopes_from (length (st_scopes st)) h = true ->
  GInv cfg (snd (run_from cfg b du st h)).
Proof.
  intros cfg b du h; induction h as [|o t IH]; intros st HG Hwf.
  - exact HG.
  - rewrite run_from_cons. cbn [snd]. cbn [wf_scopes_from] in Hwf.
    apply andb_true_iff in Hwf. destruct Hwf as [Hok Hwf].
    apply IH.
    + apply GInv_step; assumption.
    + rewrite step_scopes_length. exact Hwf.
Qed.

(* every reachable state: structurally sound, every set flag is justified, and
   without DeferAcyclicVerification every scope graph is acyclic *)
Theorem GInv_state_after : forall cfg b du h, wf_scopes h = true -> GInv cfg (state_after cfg b du h).
Proof.
  intros cfg b du h Hwf. unfold state_after. apply GInv_run_from; [|exact Hwf].
  split; [apply SInv_init|]. destruct VInv_init as [H1 H2]. split; auto.
Qed.
Print Assumptions GInv_state_after.

Corollary reachable_acyclic : forall cfg b du h a,
  wf_scopes h = true -> cfg_defer cfg = false ->
  ~ cyclic (scope_graph (state_after cfg b du h) a).
Proof.
  intros cfg b du h a Hwf Hd.
  destruct (GInv_state_after cfg b du h Hwf) as (_ & _ & HA).
  apply (dfs_true_iff _ (wf_scope_graph _ a)). apply HA. exact Hd.
Qed.
Print Assumptions reachable_acyclic.

(* hence: in a non-deferred container Invoke never answers "cycle", whatever the flags say *)
Corollary invoke_never_cycle : forall cfg b du h s p,
  wf_scopes h = true -> cfg_defer cfg = false ->
  forall st', invoke cfg b du (state_after cfg b du h) s p <> (VErr (mkErr [LInvalid] RCycle), st').
Proof.
  intros cfg b du h s p Hwf Hd st' H.
  destruct (GInv_state_after cfg b du h Hwf) as (_ & _ & HA). specialize (HA Hd s).
  rewrite invoke_unfold in H.
  assert (Htail : forall st1, invoke_tail cfg b du s p st1 <> (VErr (mkErr [LInvalid] RCycle), st')).
  { intros st1 Ht. unfold invoke_tail in Ht.
    destruct (eval _ _ _ _ _ st1) as [[built|e|a] st2]; [| unfold wrap in Ht; discriminate | discriminate].
    destruct (run_fn _ _ _ _ _ _ st2) as [[o e] st3].
    destruct o; [| |destruct (cfg_recover cfg)]; discriminate. }
  destruct (shallow_missing _ _ _); [|discriminate].
  destruct (s_verified _); [eapply Htail; eauto|].
  rewrite HA in H. eapply Htail; eauto.
Qed.
Print Assumptions invoke_never_cycle.

(* ================================================================== *)
(* Example : a cycle-closing Provide is rejected without a trace        *)
(* ================================================================== *)

Definition ex_cfg : config := mkConfig false false false.
Definition ex_beh : beh := fun _ _ => OOk [].
Definition ex_dur : dur := fun _ _ => 0%N.

(* f1 : func(in struct{ Gs []T3 `group:"1"`; B T2 }) T1 *)
Definition ex_f1 : provide_in :=
  mkProvideIn 1 (mkSig [PGroup (KG 3 1) false; PSingle (KV 2 0) false] [RSingle (KV 1 0) []] false) false false.
(* f2 : func(T1) T2   -- closes the cycle T1 -> T2 -> T1 *)
Definition ex_f2 : provide_in :=
  mkProvideIn 2 (mkSig [PSingle (KV 1 0) false] [RSingle (KV 2 0) []] false) false false.

(* root, one child scope, f1 provided to the root *)
Definition ex_hist : history := [OScope 0; OProvide 0 ex_f1].
Definition ex_st : state := state_after ex_cfg ex_beh ex_dur ex_hist.

Example ex_wf : wf_scopes (ex_hist ++ [OProvide 0 ex_f2; OProvide 1 ex_f2]) = true.
Proof. reflexivity. Qed.

(* f2 provided to the root: the root's graph is checked first and is cyclic *)
Example ex_rejected_root :
  let r := provide ex_cfg ex_st 0 ex_f2 in
  fst r = VErr err_provide_cycle /\
  erase_verified (snd r) = erase_verified ex_st /\
  same_but_verified ex_st (snd r) /\
  vflags ex_st = [true; true] /\ vflags (snd r) = [false; true] /\
  snd r <> ex_st /\
  length (s_gnodes (get_scope ex_st 0)) = 2 /\ length (s_gnodes (get_scope (snd r) 1)) = 2 /\
  st_nodes (snd r) = st_nodes ex_st /\ st_log (snd r) = st_log ex_st.
Proof.
  cbv zeta.
  assert (E : erase_verified (snd (provide ex_cfg ex_st 0 ex_f2)) = erase_verified ex_st)
    by (vm_compute; reflexivity).
  split; [vm_compute; reflexivity|].
  split; [exact E|].
  split; [apply same_but_verified_iff; symmetry; exact E|].
  split; [vm_compute; reflexivity|].
  split; [vm_compute; reflexivity|].
  split; [intros H; apply (f_equal vflags) in H; vm_compute in H; discriminate|].
  repeat split; vm_compute; reflexivity.
Qed.

(* f2 provided to the child: only the child's flag is cleared *)
Example ex_rejected_child :
  let r := provide ex_cfg ex_st 1 ex_f2 in
  fst r = VErr err_provide_cycle /\
  erase_verified (snd r) = erase_verified ex_st /\
  vflags (snd r) = [true; false].
Proof. cbv zeta. repeat split; vm_compute; reflexivity. Qed.

(* with DeferAcyclicVerification the same Provide is accepted and every flag is cleared ... *)
Example ex_deferred_accepts :
  let cfg := mkConfig true false false in
  let st := state_after cfg ex_beh ex_dur ex_hist in
  let r := provide cfg st 0 ex_f2 in
  fst r = VOk /\ vflags (snd r) = [false; false] /\
  (* ... and the next Invoke in either scope finds the cycle *)
  fst (invoke cfg ex_beh ex_dur (snd r) 1 (mkInvokeIn 9 (mkSig [PSingle (KV 1 0) false] [] false)))
    = VErr (mkErr [LInvalid] RCycle).
Proof. cbv zeta. repeat split; vm_compute; reflexivity. Qed.
