(* Prop_C20.v — property theorems for C20, and nothing else: each statement is closed
   by `exact <lemma>` and followed by Print Assumptions. *)
From Dig Require Import Base Sig State Graph GraphProofs Register Resolve Run Spec Check
  ErrTable Err ErrTableCheck P_Events.

(* ---- C20: callbacks fire once per execution, directly after it, with the
        matching error class and the body's own duration ---- *)
Theorem C20_holds : forall cfg bt dt h, cfg_dry cfg = false -> P_Events.wf_fns h = true ->
  chk_C20 cfg dt h (map obs_of (run cfg (beh_of bt) (dur_of dt) h)) = [].
Proof. exact P_Events.C20_callbacks. Qed.
Print Assumptions C20_holds.
