(* P_Re2.v — singletons (C02) for re-entrant user code: the checker chk_C02 accepts
   every run of RunRe.run_re in which nothing aborts.

   Main theorems
     chk_C02_re_nil_noabort   hypotheses: wf_fns h, wf_nest_fns nest h, cfg_dry = false, and
                              "no operation of the run ends in VAbort".  An abort is exactly what
                              unwinds through a running body (P_Re.ex_unwound_202 shows that the
                              statement is false without it).
     chk_C02_re_nil           the same from cfg_recover = true (no user panic unwinds:
                              np_run_from_re), wf_scopes / wf_keys / wf_nest (no crash of dig:
                              P_Re.run_re_never_bug) and the HYPOTHESIS that no operation ends in
                              VAbort AFuel (fuel and nesting-depth sufficiency for re-entrant
                              runs is not proved here).
     chk_no_crash_re_nil      code 204 alone.
     wf_fns_re_sound, chk_C02_case_re   the hypotheses as one boolean for finite oracles.

   The proof.  P_Once.inv_once says "called <-> the log has a success of the function".
   While a body runs, its exec event is in the log, its node is on the stack and not yet
   called: the invariant IO2 says "called -> succeeded" and "succeeded -> called or on the
   stack"; it is guaranteed only when the task does not abort (PB2: an Abort always
   propagates to the operation, so the operation-level hypothesis suffices).  What a task may
   change (rel2): stack flags are restored; a function that is FROZEN (Fz: run by a node /
   decorator on the stack, or unregistered with every execution that asks for it already
   begun) is executed by nobody except the Invoke it was handed to.  io_host: a function
   named by the oracle has run only if its host execution has begun; with the freshness
   conditions this gives "not yet run" when its own request comes.
   The builders of Resolve.v are reused through GenericCond. *)
From Dig Require Import Base Sig State Graph GraphProofs Register Resolve Run EvalInd Spec Check ResolveRe RunRe.
From Dig Require Import P_Events P_Frame P_Once P_Term P_Re.
From Coq Require Import List Arith Bool NArith Lia PeanoNat.
Import ListNotations.

(* ====================================================================== *)
(* 1. Logs                                                                 *)
(* ====================================================================== *)

Lemma nexec_app f a b : nexec f (a ++ b) = nexec f a + nexec f b.
Proof. apply count_occ_b_app. Qed.

Lemma succb_app f a b : succb f (a ++ b) = succb f a || succb f b.
Proof. apply existsb_app. Qed.

(* no new execution of f: its success status is unchanged *)
Lemma succb_same f new old : nexec f (new ++ old) = nexec f old -> succb f (new ++ old) = succb f old.
Proof.
  rewrite nexec_app, succb_app. intros H. rewrite (succb_nexec f new) by lia. reflexivity.
Qed.

Lemma succb_mono f new old : succb f old = true -> succb f (new ++ old) = true.
Proof. intros H. rewrite succb_app, H. apply orb_true_r. Qed.

Definition is_ok (o : outcome) : bool := match o with OOk _ => true | _ => false end.

Lemma succb_cons_exec f e r a o l :
  succb f (EExec f e r a o :: l) = is_ok o || succb f l.
Proof. rewrite succb_cons. cbn. destruct o; cbn; rewrite ?Nat.eqb_refl; reflexivity. Qed.

(* ====================================================================== *)
(* 2. The functions bodies invoke                                          *)
(* ====================================================================== *)

Definition fnof (sp : sid * invoke_in) : fnid := ii_fn (snd sp).

Section Nest.
  Variable nest : nestor.

  (* g is invoked by some body *)
  Definition NF (g : fnid) : Prop := exists f e s p, In (s, p) (nest f e) /\ ii_fn p = g.

  (* every execution that asks for g has begun (e-th execution of f: e < number of executions of f) *)
  Definition hosts_started (log : list event) (g : fnid) : Prop :=
    forall f e s p, In (s, p) (nest f e) -> ii_fn p = g -> e < nexec f log.

  Lemma hosts_started_mono new old g : hosts_started old g -> hosts_started (new ++ old) g.
  Proof. intros H f e s p Hin Hg. specialize (H f e s p Hin Hg). rewrite nexec_app. lia. Qed.

  Lemma hosts_started_notNF log g : ~ NF g -> hosts_started log g.
  Proof. intros H f e s p Hin Hg. exfalso. apply H. exists f, e, s, p. auto. Qed.

  (* the wf_fns analogue: function ids named by the oracle are distinct from
     one another (one request = one function, used by one execution of one
     host) and from the functions of the history; no body invokes its own
     function *)
  Record wf_nest_fns (h : history) : Prop := mkWNF {
    wn_nodup : forall f e, NoDup (map fnof (nest f e));
    wn_host : forall f e f' e' s p s' p',
        In (s, p) (nest f e) -> In (s', p') (nest f' e') -> ii_fn p = ii_fn p' -> f = f' /\ e = e';
    wn_fresh : forall g, NF g -> ~ In g (op_fns h)
  }.
End Nest.

(* ====================================================================== *)
(* 3. The invariant (P_Once.IO weakened for executions in flight)          *)
(* ====================================================================== *)

Section Inv.
  Variable nest : nestor.

  (* on the node table, the decorator table and the log.  While a body is
     running (its exec event is logged, its node still on the stack, its
     results not yet committed) "succeeded" does not yet imply "called":
     it implies "called or on the stack". *)
  Record IO2 (ns : list cnode) (ds : list dnode) (log : list event) : Prop := mkIO2 {
    io_nodup : NoDup (fnsl ns ds);
    io_nf : forall g, NF nest g -> ~ In g (fnsl ns ds);
    io_called : forall n, n < length ns -> c_called (nd n ns) = true -> succb (c_fn (nd n ns)) log = true;
    io_succ : forall n, n < length ns -> succb (c_fn (nd n ns)) log = true ->
                        c_called (nd n ns) = true \/ c_onstack (nd n ns) = true;
    io_dcalled : forall d, d < length ds -> d_state (dd d ds) = DCalled -> succb (d_fn (dd d ds)) log = true;
    io_dsucc : forall d, d < length ds -> succb (d_fn (dd d ds)) log = true ->
                         d_state (dd d ds) = DCalled \/ d_state (dd d ds) = DOnStack;
    io_once : log_all once_ev log;
    (* a function named by the oracle has run only if its host execution has begun *)
    io_host : forall g, 0 < nexec g log -> hosts_started nest log g
  }.

  Definition inv2 (st : state) : Prop :=
    IO2 (st_nodes st) (st_decs st) (st_log st) /\ inv_count st.

  (* ---- flag updates ---- *)

  Lemma IO2_onstack_true ns ds log n :
    IO2 ns ds log -> IO2 (upd_nth n (cn_set_onstack true) ns) ds log.
  Proof.
    intros [A A' B B' C C' E H]. constructor; auto.
    - rewrite fnsl_upd_node; [exact A|reflexivity].
    - rewrite fnsl_upd_node; [exact A'|reflexivity].
    - intros m Hm. rewrite upd_nth_length in Hm.
      destruct (nd_upd_cases n (cn_set_onstack true) ns m) as [->|(-> & _ & ->)]; [apply B; exact Hm|].
      cbn [c_called c_fn cn_set_onstack]. apply B. exact Hm.
    - intros m Hm. rewrite upd_nth_length in Hm.
      destruct (nd_upd_cases n (cn_set_onstack true) ns m) as [->|(-> & _ & ->)]; [apply B'; exact Hm|].
      cbn [c_called c_fn c_onstack cn_set_onstack]. intros _. right. reflexivity.
  Qed.

  (* popping a frame: fine unless the function has succeeded and is not marked called *)
  Lemma IO2_onstack_false ns ds log n :
    (n < length ns -> succb (c_fn (nd n ns)) log = true -> c_called (nd n ns) = true) ->
    IO2 ns ds log -> IO2 (upd_nth n (cn_set_onstack false) ns) ds log.
  Proof.
    intros Hn [A A' B B' C C' E H]. constructor; auto.
    - rewrite fnsl_upd_node; [exact A|reflexivity].
    - rewrite fnsl_upd_node; [exact A'|reflexivity].
    - intros m Hm. rewrite upd_nth_length in Hm.
      destruct (nd_upd_cases n (cn_set_onstack false) ns m) as [->|(-> & _ & ->)]; [apply B; exact Hm|].
      cbn [c_called c_fn cn_set_onstack]. apply B. exact Hm.
    - intros m Hm. rewrite upd_nth_length in Hm.
      destruct (nd_upd_cases n (cn_set_onstack false) ns m) as [->|(-> & Hlt & ->)]; [apply B'; exact Hm|].
      cbn [c_called c_fn c_onstack cn_set_onstack]. intros Hs. left. apply Hn; assumption.
  Qed.

  Lemma IO2_called ns ds log n :
    (n < length ns -> succb (c_fn (nd n ns)) log = true) ->
    IO2 ns ds log -> IO2 (upd_nth n (cn_set_called true) ns) ds log.
  Proof.
    intros Hn [A A' B B' C C' E H]. constructor; auto.
    - rewrite fnsl_upd_node; [exact A|reflexivity].
    - rewrite fnsl_upd_node; [exact A'|reflexivity].
    - intros m Hm. rewrite upd_nth_length in Hm.
      destruct (nd_upd_cases n (cn_set_called true) ns m) as [->|(-> & Hlt & ->)]; [apply B; exact Hm|].
      cbn [c_called c_fn cn_set_called]. intros _. apply Hn. exact Hlt.
    - intros m Hm. rewrite upd_nth_length in Hm.
      destruct (nd_upd_cases n (cn_set_called true) ns m) as [->|(-> & _ & ->)]; [apply B'; exact Hm|].
      cbn [c_called]. intros _. left. reflexivity.
  Qed.

  Lemma IO2_dstate ns ds log d x :
    (d < length ds -> x = DCalled -> succb (d_fn (dd d ds)) log = true) ->
    (d < length ds -> x = DReady -> succb (d_fn (dd d ds)) log = false) ->
    IO2 ns ds log -> IO2 ns (upd_nth d (dn_set_state x) ds) log.
  Proof.
    intros H1 H2 [A A' B B' C C' E H]. constructor; auto.
    - rewrite fnsl_upd_dec; [exact A|reflexivity].
    - rewrite fnsl_upd_dec; [exact A'|reflexivity].
    - intros m Hm. rewrite upd_nth_length in Hm.
      destruct (dd_upd_cases d (dn_set_state x) ds m) as [->|(-> & Hlt & ->)]; [apply C; exact Hm|].
      cbn [d_state d_fn dn_set_state]. intros ->. apply H1; auto.
    - intros m Hm. rewrite upd_nth_length in Hm.
      destruct (dd_upd_cases d (dn_set_state x) ds m) as [->|(-> & Hlt & ->)]; [apply C'; exact Hm|].
      cbn [d_state d_fn dn_set_state]. intros Hs.
      destruct x; [rewrite (H2 Hlt eq_refl) in Hs; discriminate|right; reflexivity|left; reflexivity].
  Qed.

  (* ---- events ---- *)

  Lemma IO2_cb ns ds log f c t : IO2 ns ds log -> IO2 ns ds (ECallback f c t :: log).
  Proof.
    intros [A A' B B' C C' E H]. constructor; auto.
    - cbn. auto.
  Qed.

  Lemma IO2_cb_opt ns ds log (has : bool) f c t :
    IO2 ns ds log -> IO2 ns ds ((if has then [ECallback f c t] else []) ++ log).
  Proof. destruct has; cbn [app]; [apply IO2_cb|auto]. Qed.

  (* an execution event: f has not succeeded before; if the event is a success,
     whoever runs f is on the stack; the executions that ask for f have begun *)
  Lemma IO2_exec ns ds log f e r a o :
    succb f log = false ->
    (is_ok o = true -> forall n, n < length ns -> c_fn (nd n ns) = f -> c_onstack (nd n ns) = true) ->
    (is_ok o = true -> forall d, d < length ds -> d_fn (dd d ds) = f -> d_state (dd d ds) = DOnStack) ->
    hosts_started nest log f ->
    IO2 ns ds log -> IO2 ns ds (EExec f e r a o :: log).
  Proof.
    intros Hf Hn Hd Hh [A A' B B' C C' E H]. constructor; auto.
    - intros n Hlt Hc. rewrite succb_cons. rewrite (B n Hlt Hc). apply orb_true_r.
    - intros n Hlt Hs.
      destruct (Nat.eq_dec (c_fn (nd n ns)) f) as [Ef|Hne].
      + rewrite Ef, succb_cons_exec, Hf, orb_false_r in Hs. right. apply Hn; assumption.
      + rewrite succb_cons_other in Hs by (intros X; apply Hne; symmetry; exact X). apply B'; assumption.
    - intros d Hlt Hc. rewrite succb_cons. rewrite (C d Hlt Hc). apply orb_true_r.
    - intros d Hlt Hs.
      destruct (Nat.eq_dec (d_fn (dd d ds)) f) as [Ef|Hne].
      + rewrite Ef, succb_cons_exec, Hf, orb_false_r in Hs. right. apply Hd; assumption.
      + rewrite succb_cons_other in Hs by (intros X; apply Hne; symmetry; exact X). apply C'; assumption.
    - cbn. auto.
    - intros g Hg. change (EExec f e r a o :: log) with ([EExec f e r a o] ++ log).
      apply hosts_started_mono.
      destruct (Nat.eq_dec f g) as [<-|Hne]; [exact Hh|].
      apply H. rewrite nexec_cons_other in Hg by exact Hne. exact Hg.
  Qed.
End Inv.

(* ====================================================================== *)
(* 4. What a task may change                                               *)
(* ====================================================================== *)

Section Rel.
  Variable nest : nestor.

  Definition regfns (st : state) : list fnid := fnsl (st_nodes st) (st_decs st).

  (* functions that cannot be executed now: the one of a constructor or a
     decorator on the stack; an unregistered function whose asking executions
     (if any) have all begun — it can only be executed by the pending request *)
  Definition Fz (st : state) (f : fnid) : Prop :=
    (exists n, n < length (st_nodes st) /\ c_fn (get_node st n) = f /\ c_onstack (get_node st n) = true) \/
    (exists d, d < length (st_decs st) /\ d_fn (get_dec st d) = f /\ d_state (get_dec st d) = DOnStack) \/
    (~ In f (regfns st) /\ hosts_started nest (st_log st) f).

  (* X: the functions the task is allowed to run although frozen (the
     function an Invoke was called with; the requests of a body) *)
  Definition rel2 (X : fnid -> Prop) (st st' : state) : Prop :=
    (forall n, c_onstack (get_node st n) = true -> c_onstack (get_node st' n) = true) /\
    (forall d, d_state (get_dec st d) = DOnStack -> d_state (get_dec st' d) = DOnStack) /\
    (forall f, Fz st f -> ~ X f -> nexec f (st_log st') = nexec f (st_log st)).

  Definition R2 (X : fnid -> Prop) (st st' : state) : Prop := P_Once.frame st st' /\ rel2 X st st'.

  Definition XN : fnid -> Prop := fun _ => False.

  Lemma frame_regfns st st' : P_Once.frame st st' -> regfns st' = regfns st.
  Proof. apply frame_fnsl. Qed.

  Lemma Fz_keep X st st' f : R2 X st st' -> Fz st f -> Fz st' f.
  Proof.
    intros [F (A & B & _)] [(n & Hn & Hf & Ho)|[(d & Hd & Hf & Ho)|[Hnot Hh]]].
    - left. exists n. split; [rewrite (frame_nodes_len _ _ F); exact Hn|].
      split; [rewrite (frame_c_fn _ _ n F); exact Hf|apply A; exact Ho].
    - right. left. exists d. split; [rewrite (frame_decs_len _ _ F); exact Hd|].
      split; [rewrite (frame_d_fn _ _ d F); exact Hf|apply B; exact Ho].
    - right. right. split; [rewrite (frame_regfns _ _ F); exact Hnot|].
      destruct (frame_log _ _ F) as [new ->]. apply hosts_started_mono. exact Hh.
  Qed.

  Lemma R2_refl X st : R2 X st st.
  Proof. split; [apply P_Once.frame_refl|]. repeat split; auto. Qed.

  Lemma R2_trans X x y z : R2 X x y -> R2 X y z -> R2 X x z.
  Proof.
    intros H1 H2. pose proof (Fz_keep X x y) as K.
    destruct H1 as [F1 (A1 & B1 & C1)]. destruct H2 as [F2 (A2 & B2 & C2)].
    split; [eapply P_Once.frame_trans; eauto|]. split; [|split].
    - intros n H. apply A2, A1, H.
    - intros d H. apply B2, B1, H.
    - intros f Hf HX. rewrite C2; [apply C1; assumption| |exact HX].
      apply (K f); [|exact Hf]. split; [exact F1|]. repeat split; assumption.
  Qed.

  Lemma R2_weaken (X Y : fnid -> Prop) st st' : (forall f, X f -> Y f) -> R2 X st st' -> R2 Y st st'.
  Proof.
    intros H [F (A & B & C)]. split; [exact F|]. split; [exact A|]. split; [exact B|].
    intros f Hf HY. apply C; [exact Hf|]. intros HX. apply HY, H, HX.
  Qed.

  Lemma R2_frame X st st' : R2 X st st' -> P_Once.frame st st'.
  Proof. intros [F _]. exact F. Qed.

  (* updates that touch neither the stack flags nor the executions *)
  Lemma R2_quiet X st st' :
    P_Once.frame st st' ->
    (forall n, c_onstack (get_node st n) = true -> c_onstack (get_node st' n) = true) ->
    (forall d, d_state (get_dec st d) = DOnStack -> d_state (get_dec st' d) = DOnStack) ->
    (forall f, nexec f (st_log st') = nexec f (st_log st)) -> R2 X st st'.
  Proof. intros F A B C. split; [exact F|]. split; [exact A|]. split; [exact B|]. intros f _ _. apply C. Qed.

  Lemma R2_upd_scope X st s g :
    (forall c, s_providers (g c) = s_providers c /\ s_decorators (g c) = s_decorators c) ->
    R2 X st (upd_scope st s g).
  Proof. intros H. apply R2_quiet; auto. apply P_Once.frame_upd_scope. exact H. Qed.

  Lemma R2_callback X st has f c start : R2 X st (callback has f c start st).
  Proof.
    apply R2_quiet.
    - apply P_Once.frame_callback.
    - intros n. rewrite get_node_callback. auto.
    - intros d. rewrite get_dec_callback. auto.
    - intros f'. destruct has; [|reflexivity]. unfold callback. rewrite log_add_event. apply nexec_cons_cb.
  Qed.

  Lemma R2_set_called X st n : R2 X st (set_called st n).
  Proof.
    apply R2_quiet; auto.
    - apply P_Once.frame_upd_node. reflexivity.
    - intros m. rewrite onstack_set_called. auto.
  Qed.

  (* pushing never breaks rel2; popping node n is fine when n was not on the stack at st *)
  Lemma R2_push_node X st n : R2 X st (set_onstack st n true).
  Proof.
    apply R2_quiet; auto.
    - apply P_Once.frame_upd_node. reflexivity.
    - intros m H. destruct (Nat.eq_dec m n) as [->|Hne].
      + destruct (Nat.lt_ge_cases n (length (st_nodes st))) as [Hlt|Hge].
        * apply onstack_set_same. exact Hlt.
        * unfold set_onstack. rewrite upd_node_oob by exact Hge. exact H.
      + rewrite onstack_set_other by exact Hne. exact H.
  Qed.

  Lemma R2_pop_node X st Y n :
    c_onstack (get_node st n) = false -> R2 X st Y -> R2 X st (set_onstack Y n false).
  Proof.
    intros Eo [F (A & B & C)]. split; [|split; [|split]].
    - eapply P_Once.frame_trans; [exact F|apply P_Once.frame_upd_node; reflexivity].
    - intros m H. destruct (Nat.eq_dec m n) as [->|Hne]; [rewrite H in Eo; discriminate|].
      rewrite onstack_set_other by exact Hne. apply A. exact H.
    - exact B.
    - exact C.
  Qed.

  Lemma R2_push_dec X st d : R2 X st (set_dstate st d DOnStack).
  Proof.
    apply R2_quiet; auto.
    - apply P_Once.frame_upd_dec. reflexivity.
    - intros d' H. destruct (Nat.eq_dec d' d) as [->|Hne].
      + destruct (Nat.lt_ge_cases d (length (st_decs st))) as [Hlt|Hge].
        * apply dstate_set_same. exact Hlt.
        * unfold set_dstate. rewrite upd_dec_oob by exact Hge. exact H.
      + rewrite dstate_set_other by exact Hne. exact H.
  Qed.

  Lemma R2_set_dec X st Y d x :
    d_state (get_dec st d) <> DOnStack -> R2 X st Y -> R2 X st (set_dstate Y d x).
  Proof.
    intros Eo [F (A & B & C)]. split; [|split; [|split]].
    - eapply P_Once.frame_trans; [exact F|apply P_Once.frame_upd_dec; reflexivity].
    - exact A.
    - intros d' H. destruct (Nat.eq_dec d' d) as [->|Hne]; [contradiction|].
      rewrite dstate_set_other by exact Hne. apply B. exact H.
    - exact C.
  Qed.
End Rel.

(* ====================================================================== *)
(* 5. The builders of Resolve.v for an invariant that is only guaranteed   *)
(*    when nothing aborts (an Abort always propagates to the operation)    *)
(* ====================================================================== *)

Definition nonabort {A} (r : res A) : Prop := forall a, r <> Abort a.
Definition lnonabort (r : lres) : Prop := forall a, r <> LAbort a.

Section GenericCond.
  Variable Inv : state -> Prop.
  Variable R : state -> state -> Prop.
  Hypothesis R_refl : forall st, R st st.
  Hypothesis R_trans : forall x y z, R x y -> R y z -> R x z.
  Hypothesis R_frame : forall st st', R st st' -> P_Once.frame st st'.
  Variable rec : task -> state -> out.
  Hypothesis IH : forall t st, refs_ok st -> P_Once.pre t st -> Inv st -> nonabort (fst (rec t st)) ->
                               Inv (snd (rec t st)) /\ R st (snd (rec t st)).

  Lemma gc_call_ctors ns : forall st,
    refs_ok st -> (forall n, In n ns -> n < length (st_nodes st)) -> Inv st ->
    lnonabort (fst (call_ctors rec ns st)) ->
    Inv (snd (call_ctors rec ns st)) /\ R st (snd (call_ctors rec ns st)).
  Proof.
    induction ns as [|n t IHn]; intros st Hr Hns Hi Hna; cbn [call_ctors] in *; [split; [exact Hi|apply R_refl]|].
    pose proof (IH (TCallCtor n) st Hr (Hns n (or_introl eq_refl)) Hi) as H1.
    destruct (rec (TCallCtor n) st) as [[a|e|a] st1]; cbn [fst snd] in *.
    - destruct H1 as [I1 R1]; [intros a' X; discriminate X|].
      pose proof (R_frame _ _ R1) as F1.
      destruct (IHn st1) as [I2 R2]; auto.
      + eapply refs_ok_frame; eauto.
      + intros n' Hn'. rewrite (frame_nodes_len _ _ F1). apply Hns. right. exact Hn'.
      + split; [exact I2|eapply R_trans; eauto].
    - apply H1. intros a' X; discriminate X.
    - exfalso. exact (Hna a eq_refl).
  Qed.

  Lemma gc_call_group_decs k bs : forall st,
    refs_ok st -> Inv st -> lnonabort (fst (call_group_decs rec k bs st)) ->
    Inv (snd (call_group_decs rec k bs st)) /\ R st (snd (call_group_decs rec k bs st)).
  Proof.
    induction bs as [|s t IHb]; intros st Hr Hi Hna; cbn [call_group_decs] in *; [split; [exact Hi|apply R_refl]|].
    destruct (alookup key_eqb k (s_decorators (get_scope st s))) as [d|] eqn:E; [|apply IHb; auto].
    destruct (dstate_eqb (d_state (get_dec st d)) DOnStack) eqn:E2; [apply IHb; auto|].
    assert (Hpre : P_Once.pre (TCallDec d) st).
    { split; [|apply dstate_eqb_false; exact E2].
      destruct Hr as [_ Hr]. apply (Hr s). apply alookup_dids in E. exact E. }
    pose proof (IH (TCallDec d) st Hr Hpre Hi) as H1.
    destruct (rec (TCallDec d) st) as [[a|e|a] st1]; cbn [fst snd] in *.
    - destruct H1 as [I1 R1]; [intros a' X; discriminate X|].
      destruct (IHb st1) as [I2 R2]; auto.
      + eapply refs_ok_frame; eauto.
      + split; [exact I2|eapply R_trans; eauto].
    - apply H1. intros a' X; discriminate X.
    - exfalso. exact (Hna a eq_refl).
  Qed.

  Lemma gc_build_list v ls : forall st,
    refs_ok st -> Inv st -> nonabort (fst (build_list rec v ls st)) ->
    Inv (snd (build_list rec v ls st)) /\ R st (snd (build_list rec v ls st)).
  Proof.
    induction ls as [|l t IHl]; intros st Hr Hi Hna; cbn [build_list] in *; [split; [exact Hi|apply R_refl]|].
    pose proof (IH (TLeaf v l) st Hr I Hi) as H1.
    destruct (rec (TLeaf v l) st) as [[a|e|a] st1]; cbn [fst snd] in *.
    - destruct H1 as [I1 R1]; [intros a' X; discriminate X|].
      specialize (IHl st1 (refs_ok_frame _ _ (R_frame _ _ R1) Hr) I1).
      destruct (build_list rec v t st1) as [[r|e|a'] st2]; cbn [fst snd] in *.
      + destruct IHl as [I2 R2]; [intros a' X; discriminate X|]. split; [exact I2|eapply R_trans; eauto].
      + destruct IHl as [I2 R2]; [intros a' X; discriminate X|]. split; [exact I2|eapply R_trans; eauto].
      + exfalso. exact (Hna a' eq_refl).
    - apply H1. intros a' X; discriminate X.
    - exfalso. exact (Hna a eq_refl).
  Qed.

  Lemma gc_build_single v k opt st :
    refs_ok st -> Inv st -> nonabort (fst (build_single rec v k opt st)) ->
    Inv (snd (build_single rec v k opt st)) /\ R st (snd (build_single rec v k opt st)).
  Proof.
    intros Hr Hi Hna. unfold build_single in *.
    destruct (find_dec st v k) as [[d bsc]|] eqn:Ef.
    - apply find_dec_some in Ef as [[s Hs] Hns].
      assert (Hpre : P_Once.pre (TCallDec d) st).
      { split; [|exact Hns]. destruct Hr as [_ Hr]. apply (Hr s). exact Hs. }
      pose proof (IH (TCallDec d) st Hr Hpre Hi) as H1.
      destruct (rec (TCallDec d) st) as [[a|e|a] st1]; cbn [fst snd] in *.
      + destruct H1 as [I1 R1]; [intros a' X; discriminate X|].
        destruct (alookup key_eqb k (s_dvalues (get_scope st1 bsc))); cbn [fst snd]; auto.
      + apply H1. intros a' X; discriminate X.
      + exfalso. exact (Hna a eq_refl).
    - destruct (find_map _ (path st v)); [split; [exact Hi|apply R_refl]|].
      destruct (find_provider st (path st v) k) as [a|bsc ns|] eqn:Ep;
        [split; [exact Hi|apply R_refl]| |destruct opt; (split; [exact Hi|apply R_refl])].
      pose proof (gc_call_ctors ns st Hr) as H1.
      assert (Hns : forall n, In n ns -> n < length (st_nodes st)).
      { intros n Hn. destruct Hr as [Hr _]. apply (Hr bsc). eapply find_provider_prov; eauto. }
      specialize (H1 Hns Hi).
      destruct (call_ctors rec ns st) as [[|c e|a] st1]; cbn [fst snd] in *.
      + destruct H1 as [I1 R1]; [intros a' X; discriminate X|].
        destruct (alookup key_eqb k (s_values (get_scope st1 bsc))); cbn [fst snd]; auto.
      + destruct H1 as [I1 R1]; [intros a' X; discriminate X|].
        destruct (opt && has_missingdeps e); cbn [fst snd]; auto.
      + exfalso. exact (Hna a eq_refl).
  Qed.

  Lemma gc_build_group v k soft st :
    refs_ok st -> Inv st -> nonabort (fst (build_group rec v k soft st)) ->
    Inv (snd (build_group rec v k soft st)) /\ R st (snd (build_group rec v k soft st)).
  Proof.
    intros Hr Hi Hna. unfold build_group in *.
    pose proof (gc_call_group_decs k (rev (path st v)) st Hr Hi) as H1.
    destruct (call_group_decs rec k (rev (path st v)) st) as [[|c e|a] st1]; cbn [fst snd] in *.
    - destruct H1 as [I1 R1]; [intros a' X; discriminate X|].
      destruct (find_map _ (path st1 v)); [cbn [fst snd]; auto|].
      destruct soft; [cbn [fst snd]; auto|].
      assert (Hr1 : refs_ok st1) by (eapply refs_ok_frame; eauto).
      pose proof (gc_call_ctors (providers_on_path st1 v k) st1 Hr1) as H2.
      assert (Hns : forall n, In n (providers_on_path st1 v k) -> n < length (st_nodes st1)).
      { intros n Hn. apply providers_on_path_pids in Hn as [bsc Hn]. destruct Hr1 as [Hr1 _]. eapply Hr1; eauto. }
      specialize (H2 Hns I1).
      destruct (call_ctors rec (providers_on_path st1 v k) st1) as [[|c e|a] st2]; cbn [fst snd] in *.
      + destruct H2 as [I2 R2']; [intros a' X; discriminate X|]. split; [exact I2|eapply R_trans; eauto].
      + destruct H2 as [I2 R2']; [intros a' X; discriminate X|]. split; [exact I2|eapply R_trans; eauto].
      + exfalso. exact (Hna a eq_refl).
    - apply H1. intros a' X; discriminate X.
    - exfalso. exact (Hna a eq_refl).
  Qed.
End GenericCond.

(* ====================================================================== *)
(* 6. The invariant on states: the primitive updates                       *)
(* ====================================================================== *)

Section InvState.
  Variable nest : nestor.

  Lemma inv2_push st n : inv2 nest st -> inv2 nest (set_onstack st n true).
  Proof.
    intros [H C]. split; [|apply (inv_count_eq st); auto].
    unfold set_onstack, upd_node. cbn [st_nodes st_decs st_log set_nodes]. apply IO2_onstack_true. exact H.
  Qed.

  Lemma inv2_pop st n :
    (n < length (st_nodes st) -> succb (c_fn (get_node st n)) (st_log st) = true -> c_called (get_node st n) = true) ->
    inv2 nest st -> inv2 nest (set_onstack st n false).
  Proof.
    intros Hn [H C]. split; [|apply (inv_count_eq st); auto].
    unfold set_onstack, upd_node. cbn [st_nodes st_decs st_log set_nodes]. apply IO2_onstack_false; assumption.
  Qed.

  Lemma inv2_called st n :
    (n < length (st_nodes st) -> succb (c_fn (get_node st n)) (st_log st) = true) ->
    inv2 nest st -> inv2 nest (set_called st n).
  Proof.
    intros Hn [H C]. split; [|apply (inv_count_eq st); auto].
    unfold set_called, upd_node. cbn [st_nodes st_decs st_log set_nodes]. apply IO2_called; assumption.
  Qed.

  Lemma inv2_dstate st d x :
    (d < length (st_decs st) -> x = DCalled -> succb (d_fn (get_dec st d)) (st_log st) = true) ->
    (d < length (st_decs st) -> x = DReady -> succb (d_fn (get_dec st d)) (st_log st) = false) ->
    inv2 nest st -> inv2 nest (set_dstate st d x).
  Proof.
    intros H1 H2 [H C]. split; [|apply (inv_count_eq st); auto].
    unfold set_dstate, upd_dec. cbn [st_nodes st_decs st_log set_decs]. apply IO2_dstate; assumption.
  Qed.

  Lemma inv2_upd_scope st s g : inv2 nest st -> inv2 nest (upd_scope st s g).
  Proof. intros [H C]. split; [exact H|apply (inv_count_eq st); auto]. Qed.

  Lemma inv2_callback st has f c start : inv2 nest st -> inv2 nest (callback has f c start st).
  Proof.
    intros [H C]. split; [|apply inv_count_callback; exact C].
    rewrite nodes_callback, decs_callback, log_callback. apply IO2_cb_opt. exact H.
  Qed.

  Lemma succb_callback g st has f c start :
    succb g (st_log (callback has f c start st)) = succb g (st_log st).
  Proof. rewrite log_callback. destruct has; reflexivity. Qed.
End InvState.

Lemma run_fn_nondry_e cfg b du r f args st o e st2 :
  cfg_dry cfg = false -> run_fn cfg b du r f args st = (o, e, st2) -> e = get_count st f /\ o = b f e.
Proof. unfold run_fn. intros ->. intros [= <- <- <-]. split; reflexivity. Qed.

Lemma R2_drop nest (X : fnid -> Prop) st st' :
  (forall g, Fz nest st g -> ~ X g) -> R2 nest X st st' -> R2 nest XN st st'.
Proof.
  intros H [F (A & B & C)]. split; [exact F|]. split; [exact A|]. split; [exact B|].
  intros g Hg _. apply C; [exact Hg|apply H; exact Hg].
Qed.

(* ====================================================================== *)
(* 7. One unfolding of evalF_re                                            *)
(* ====================================================================== *)

Section Once2.
  Variables (cfg : config) (b : beh) (nest : nestor) (du : dur).
  Hypothesis Hdry : cfg_dry cfg = false.
  Hypothesis Hnd : forall f e, NoDup (map fnof (nest f e)).
  Hypothesis Hhost : forall f e f' e' s p s' p',
      In (s, p) (nest f e) -> In (s', p') (nest f' e') -> ii_fn p = ii_fn p' -> f = f' /\ e = e'.

  Definition Xt (t : rtask) : fnid -> Prop :=
    match t with TInvoke _ p => fun f => f = ii_fn p | TOld _ => XN end.

  (* an Invoke called from a body (or by the user): its function has never run,
     is not registered, and every execution that asks for it has begun *)
  Definition pre2 (t : rtask) (st : state) : Prop :=
    match t with
    | TOld t => P_Once.pre t st
    | TInvoke s p => nexec (ii_fn p) (st_log st) = 0 /\ ~ In (ii_fn p) (regfns st) /\
                     hosts_started nest (st_log st) (ii_fn p)
    end.

  Definition PB2 (t : rtask) (st : state) (o : out) : Prop :=
    refs_ok st -> pre2 t st -> inv2 nest st -> nonabort (fst o) ->
    inv2 nest (snd o) /\ rel2 nest (Xt t) st (snd o).

  Section Step.
    Variable rec : rtask -> state -> out.
    Hypothesis IHf : forall t st, P_Once.frame st (snd (rec t st)).
    Hypothesis IH : forall t st, PB2 t st (rec t st).

    Let IHo : forall t st, refs_ok st -> P_Once.pre t st -> inv2 nest st -> nonabort (fst (recO rec t st)) ->
                           inv2 nest (snd (recO rec t st)) /\ R2 nest XN st (snd (recO rec t st)).
    Proof.
      intros t st Hr Hp Hi Hna. destruct (IH (TOld t) st Hr Hp Hi Hna) as [A B].
      split; [exact A|]. split; [apply IHf|exact B].
    Qed.

    Lemma frame_run_nested reqs st : P_Once.frame st (snd (run_nested rec reqs st)).
    Proof. apply (grr_run_nested P_Once.frame P_Once.frame_refl P_Once.frame_trans rec IHf). Qed.

    (* the requests of one body, in order: none has run yet; each is run by its own Invoke only *)
    Lemma o2_run_nested : forall reqs st,
      refs_ok st -> inv2 nest st ->
      (forall s p, In (s, p) reqs -> ~ In (ii_fn p) (regfns st) /\ hosts_started nest (st_log st) (ii_fn p)) ->
      NoDup (map fnof reqs) ->
      (forall s p, In (s, p) reqs -> nexec (ii_fn p) (st_log st) = 0) ->
      fst (run_nested rec reqs st) = None ->
      inv2 nest (snd (run_nested rec reqs st)) /\
      rel2 nest (fun f => In f (map fnof reqs)) st (snd (run_nested rec reqs st)).
    Proof.
      induction reqs as [|[s p] t IHr]; intros st Hr Hi Hq Hnodup Hz Hnone; cbn [run_nested] in *.
      { split; [exact Hi|apply R2_refl]. }
      cbn [map] in Hnodup. inversion Hnodup as [|? ? Hnotin Hnodup']; subst.
      assert (Hq' : forall s0 p0, In (s0, p0) t -> ~ In (ii_fn p0) (regfns st) /\ hosts_started nest (st_log st) (ii_fn p0))
        by (intros s0 p0 H0; apply (Hq s0 p0); right; exact H0).
      assert (Hz' : forall s0 p0, In (s0, p0) t -> nexec (ii_fn p0) (st_log st) = 0)
        by (intros s0 p0 H0; apply (Hz s0 p0); right; exact H0).
      destruct (Nat.ltb s (length (st_scopes st))).
      2:{ destruct (IHr st Hr Hi Hq' Hnodup' Hz' Hnone) as [I2 R2'].
          split; [exact I2|].
          apply (R2_weaken nest (fun f => In f (map fnof t))); [intros f Hf; right; exact Hf|].
          split; [apply frame_run_nested|exact R2']. }
      destruct (Hq s p (or_introl eq_refl)) as [Hg1 Hg2].
      pose proof (IH (TInvoke s p) st Hr (conj (Hz s p (or_introl eq_refl)) (conj Hg1 Hg2)) Hi) as H1.
      pose proof (IHf (TInvoke s p) st) as F1.
      assert (GO : forall x st1, rec (TInvoke s p) st = (x, st1) -> nonabort x ->
                 fst (run_nested rec t st1) = None ->
                 inv2 nest (snd (run_nested rec t st1)) /\
                 rel2 nest (fun f => In f (map fnof ((s, p) :: t))) st (snd (run_nested rec t st1))).
      { intros x st1 E Hx Hn1. rewrite E in H1, F1. cbn [fst snd] in H1, F1.
        destruct (H1 Hx) as [I1 R1].
        assert (R1' : R2 nest (Xt (TInvoke s p)) st st1) by (split; assumption).
        assert (Hr1 : refs_ok st1) by (eapply refs_ok_frame; eauto).
        destruct (frame_log _ _ F1) as [new L1].
        destruct (IHr st1 Hr1 I1) as [I2 R2']; auto.
        - intros s0 p0 H0. destruct (Hq' s0 p0 H0) as [Q1 Q2]. split.
          + rewrite (frame_regfns _ _ F1). exact Q1.
          + rewrite L1. apply hosts_started_mono. exact Q2.
        - intros s0 p0 H0. destruct R1 as (_ & _ & C1). rewrite C1; [apply (Hz' s0 p0); exact H0| |].
          + right. right. apply (Hq' s0 p0). exact H0.
          + cbn [Xt]. intros Heq. apply Hnotin. unfold fnof at 1. cbn [snd]. rewrite <- Heq.
            change (ii_fn p0) with (fnof (s0, p0)). apply in_map. exact H0.
        - split; [exact I2|].
          assert (RA : R2 nest (fun f => In f (map fnof ((s, p) :: t))) st st1).
          { apply (R2_weaken nest (Xt (TInvoke s p))); [|exact R1'].
            cbn [Xt]. intros f ->. left. reflexivity. }
          assert (RB : R2 nest (fun f => In f (map fnof ((s, p) :: t))) st1 (snd (run_nested rec t st1))).
          { apply (R2_weaken nest (fun f => In f (map fnof t))); [intros f Hf; right; exact Hf|].
            split; [apply frame_run_nested|exact R2']. }
          exact (proj2 (R2_trans nest _ _ _ _ RA RB)). }
      destruct (rec (TInvoke s p) st) as [[x|e|a] st1] eqn:E; cbn [fst snd] in *.
      - apply (GO (Done x) st1 eq_refl); [intros a X; discriminate X|exact Hnone].
      - apply (GO (Fail e) st1 eq_refl); [intros a X; discriminate X|exact Hnone].
      - discriminate Hnone.
    Qed.

    Lemma R2_run_fn r f args st : R2 nest (fun x => x = f) st (snd (run_fn cfg b du r f args st)).
    Proof.
      split; [apply P_Once.frame_run_fn|].
      unfold run_fn. rewrite Hdry. cbn [snd]. split; [|split]; auto.
      intros g _ Hg. rewrite log_add_event. apply nexec_cons_other. intros E. apply Hg. symmetry. exact E.
    Qed.

    (* running a body: its exec event, then its requests *)
    Lemma o2_body r f args st1 :
      refs_ok st1 -> inv2 nest st1 ->
      succb f (st_log st1) = false ->
      (forall n, n < length (st_nodes st1) -> c_fn (get_node st1 n) = f -> c_onstack (get_node st1 n) = true) ->
      (forall d, d < length (st_decs st1) -> d_fn (get_dec st1 d) = f -> d_state (get_dec st1 d) = DOnStack) ->
      hosts_started nest (st_log st1) f ->
      Fz nest st1 f ->
      (forall e s p, In (s, p) (nest f e) -> ii_fn p <> f) ->
      forall o e st2, run_fn_re cfg b nest du rec r f args st1 = (FOut o, e, st2) ->
      inv2 nest st2 /\ R2 nest (fun x => x = f) st1 st2 /\ succb f (st_log st2) = is_ok o.
    Proof.
      intros Hr [HIO HC] Hf Hn Hd Hh Hz Hself o e st2. unfold run_fn_re.
      pose proof (R2_run_fn r f args st1) as RF.
      pose proof (inv_count_run_fn cfg b du st1 r f args HC) as HC1.
      destruct (run_fn cfg b du r f args st1) as [[o1 e1] st1'] eqn:ER. cbn [snd] in RF, HC1.
      destruct (run_fn_nondry_inv _ _ _ _ _ _ _ _ _ _ Hdry ER) as (N1 & D1 & L1).
      destruct (run_fn_nondry_e _ _ _ _ _ _ _ _ _ _ Hdry ER) as (Ee & _).
      assert (Ee' : e1 = nexec f (st_log st1)) by (rewrite Ee; apply HC).
      rewrite Hdry.
      assert (I1 : inv2 nest st1').
      { split; [|exact HC1]. rewrite N1, D1, L1. apply IO2_exec; auto. }
      assert (Hr1 : refs_ok st1') by (eapply refs_ok_frame; [apply RF|exact Hr]).
      assert (Reg1 : regfns st1' = regfns st1) by (unfold regfns; rewrite N1, D1; reflexivity).
      pose proof (Fz_keep nest _ _ _ f RF Hz) as Hz1.
      pose proof (frame_run_nested (nest f e1) st1') as FN.
      pose proof (o2_run_nested (nest f e1) st1' Hr1 I1) as HN.
      destruct (run_nested rec (nest f e1) st1') as [[a|] st2'] eqn:EN; intros [= <- <- <-].
      cbn [fst snd] in HN, FN.
      destruct HN as [I2 R2']; auto.
      { intros s p Hin. split.
        - rewrite Reg1. apply (io_nf _ _ _ _ HIO). exists f, e1, s, p. auto.
        - intros f' e' s' p' Hin' Heq. destruct (Hhost _ _ _ _ _ _ _ _ Hin' Hin Heq) as [-> ->].
          rewrite L1, nexec_cons. unfold exec_of. rewrite Nat.eqb_refl. lia. }
      { intros s p Hin. rewrite L1. rewrite nexec_cons_other by (intros X; exact (Hself _ _ _ Hin (eq_sym X))).
        destruct (nexec (ii_fn p) (st_log st1)) eqn:Ez; [reflexivity|exfalso].
        assert (Hpos : 0 < nexec (ii_fn p) (st_log st1)) by lia.
        pose proof (io_host _ _ _ _ HIO _ Hpos f e1 s p Hin eq_refl) as Hlt. lia. }
      (* a function frozen before the body is not one of its requests *)
      assert (NOTREQ : forall g, Fz nest st1 g -> ~ In g (map fnof (nest f e1))).
      { intros g Hg Hin. apply in_map_iff in Hin as ([s p] & Hgp & Hin). unfold fnof in Hgp. cbn [snd] in Hgp.
        assert (HNF : NF nest g) by (exists f, e1, s, p; auto).
        destruct Hg as [(n & Hlt & Hc & _)|[(d & Hlt & Hc & _)|[_ Hs]]].
        - apply (io_nf _ _ _ _ HIO g HNF). rewrite <- Hc. apply fns_nd_in. exact Hlt.
        - apply (io_nf _ _ _ _ HIO g HNF). rewrite <- Hc. apply fns_dd_in. exact Hlt.
        - specialize (Hs f e1 s p Hin Hgp). lia. }
      assert (RN : R2 nest (fun x => In x (map fnof (nest f e1))) st1' st2') by (split; assumption).
      split; [exact I2|]. split.
      - split; [eapply P_Once.frame_trans; [apply RF|exact FN]|].
        destruct RF as [FF (A1 & B1 & C1)]. destruct R2' as (A2 & B2 & C2).
        split; [|split].
        + intros n H. apply A2, A1, H.
        + intros d H. apply B2, B1, H.
        + intros g Hg Hne. rewrite C2; [apply C1; assumption| |apply NOTREQ; exact Hg].
          apply (Fz_keep nest (fun x => x = f) st1 st1'); [|exact Hg]. split; [exact FF|]. repeat split; assumption.
      - destruct (frame_log _ _ FN) as [new L2]. rewrite L2.
        rewrite succb_same.
        + rewrite L1, succb_cons_exec, Hf. apply orb_false_r.
        + rewrite <- L2. destruct R2' as (_ & _ & C2). apply C2; [exact Hz1|].
          intros Hin. apply in_map_iff in Hin as ([s p] & Hgp & Hin). exact (Hself _ _ _ Hin Hgp).
    Qed.

    Lemma o2_call_ctor_re n st : PB2 (TOld (TCallCtor n)) st (call_ctor_re cfg b nest du rec n st).
    Proof.
      intros Hr Hn Hi Hna. cbn [pre2 P_Once.pre] in Hn. cbn [Xt]. unfold call_ctor_re in *.
      destruct (c_called (get_node st n)) eqn:Ec; [split; [exact Hi|apply R2_refl]|].
      destruct (c_onstack (get_node st n)) eqn:Eo; [split; [exact Hi|apply R2_refl]|].
      set (c := get_node st n) in *. set (f := c_fn c) in *.
      pose proof Hi as [HIO HC].
      (* f has not succeeded: n is neither called nor on the stack *)
      assert (Hf0 : succb f (st_log st) = false).
      { destruct (succb f (st_log st)) eqn:E; [|reflexivity].
        destruct (io_succ _ _ _ _ HIO n Hn E) as [H|H];
          change (nd n (st_nodes st)) with (get_node st n) in H; fold c in H; congruence. }
      assert (Hfreg : In f (regfns st)) by (apply fns_nd_in; exact Hn).
      assert (HnotNF : ~ NF nest f) by (intros H; exact (io_nf _ _ _ _ HIO f H Hfreg)).
      set (st0 := set_onstack st n true) in *.
      assert (I0 : inv2 nest st0) by (apply inv2_push; exact Hi).
      assert (R0 : R2 nest XN st st0) by apply R2_push_node.
      assert (Hr0 : refs_ok st0) by (eapply refs_ok_frame; [apply R0|exact Hr]).
      (* every exit pops the frame *)
      assert (EXIT : forall Y, inv2 nest Y -> R2 nest XN st Y ->
                (succb f (st_log Y) = true -> c_called (get_node Y n) = true) ->
                inv2 nest (set_onstack Y n false) /\ rel2 nest XN st (set_onstack Y n false)).
      { intros Y IY RY HY. split.
        - apply inv2_pop; [|exact IY]. intros _. rewrite (frame_c_fn _ _ n (R2_frame _ _ _ _ RY)). exact HY.
        - apply (R2_pop_node nest XN st Y n Eo RY). }
      destruct (shallow_missing st0 (c_orig c) (sig_leaves (c_sig c))).
      2:{ cbn [fst snd]. apply EXIT; [exact I0|exact R0|]. change (st_log st0) with (st_log st). rewrite Hf0. discriminate. }
      pose proof (IH (TOld (TLeaves (c_orig c) (sig_build_seq (c_sig c)))) st0 Hr0 I I0) as H1.
      pose proof (IHf (TOld (TLeaves (c_orig c) (sig_build_seq (c_sig c)))) st0) as F1.
      destruct (rec (TOld (TLeaves (c_orig c) (sig_build_seq (c_sig c)))) st0) as [[built|e|a] st1] eqn:E1;
        cbn [fst snd] in *.
      3:{ exfalso. exact (Hna a eq_refl). }
      all: destruct H1 as [I1 R1]; [intros a' X; discriminate X|].
      all: assert (R01 : R2 nest XN st st1) by (eapply R2_trans; [exact R0|split; assumption]).
      all: assert (Hn0 : n < length (st_nodes st0)) by (unfold st0, set_onstack; rewrite nodes_len_upd_node; exact Hn).
      all: assert (Z0 : Fz nest st0 f)
        by (left; exists n; split; [exact Hn0|]; split;
            [rewrite (frame_c_fn _ _ n (R2_frame _ _ _ _ R0)); reflexivity|apply onstack_set_same; exact Hn]).
      all: assert (Hf1 : succb f (st_log st1) = false)
        by (destruct (frame_log _ _ F1) as [new L]; rewrite L; rewrite succb_same;
            [exact Hf0|rewrite <- L; destruct R1 as (_ & _ & C1); apply C1; [exact Z0|intros []]]).
      2:{ apply EXIT; [exact I1|exact R01|]. rewrite Hf1. discriminate. }
      assert (Hr1 : refs_ok st1) by (eapply refs_ok_frame; [apply R01|exact Hr]).
      assert (F01 : P_Once.frame st st1) by apply R01.
      assert (Hn1 : n < length (st_nodes st1)) by (rewrite (frame_nodes_len _ _ F01); exact Hn).
      assert (Ef1 : c_fn (get_node st1 n) = f) by apply (frame_c_fn _ _ n F01).
      assert (On1 : c_onstack (get_node st1 n) = true).
      { destruct R1 as (A1 & _). apply A1. apply onstack_set_same. exact Hn. }
      pose proof I1 as [HIO1 HC1].
      assert (Z1 : Fz nest st1 f) by (left; exists n; auto).
      destruct (run_fn_re cfg b nest du rec RoleCtor f (place (sig_order (c_sig c)) built) st1) as [[o e] st2] eqn:ER.
      destruct o as [o|a]; [|exfalso; exact (Hna a eq_refl)].
      destruct (o2_body RoleCtor f (place (sig_order (c_sig c)) built) st1 Hr1 I1 Hf1) with (o := o) (e := e) (st2 := st2)
        as (I2 & R12 & S2); auto.
      { intros m Hm Hc. assert (m = n); [|subst m; exact On1].
        eapply nodup_nd; [apply (io_nodup _ _ _ _ HIO1)|exact Hm|exact Hn1|].
        change (c_fn (get_node st1 m) = c_fn (get_node st1 n)). congruence. }
      { intros d Hd Hc. exfalso.
        apply (nodup_nd_dd _ _ n d (io_nodup _ _ _ _ HIO1) Hn1 Hd).
        change (c_fn (get_node st1 n) = d_fn (get_dec st1 d)). congruence. }
      { apply hosts_started_notNF. exact HnotNF. }
      { intros e' s p Hin Heq. apply HnotNF. exists f, e', s, p. auto. }
      (* nothing frozen at st is f *)
      assert (NOTF : forall g, Fz nest st g -> ~ (fun x => x = f) g).
      { intros g Hg ->. destruct Hg as [(m & Hm & Hc & Ho)|[(d & Hd & Hc & _)|[Hnot _]]].
        - assert (m = n); [|subst m; fold c in Ho; congruence].
          eapply nodup_nd; [apply (io_nodup _ _ _ _ HIO)|exact Hm|exact Hn|exact Hc].
        - apply (nodup_nd_dd _ _ n d (io_nodup _ _ _ _ HIO) Hn Hd). symmetry. exact Hc.
        - exact (Hnot Hfreg). }
      assert (R02 : R2 nest XN st st2).
      { apply (R2_drop nest (fun x => x = f)); [exact NOTF|].
        eapply R2_trans; [apply (R2_weaken nest XN); [intros g []|exact R01]|exact R12]. }
      assert (F02 : P_Once.frame st st2) by apply R02.
      assert (Hn2 : n < length (st_nodes st2)) by (rewrite (frame_nodes_len _ _ F02); exact Hn).
      assert (FAILX : forall has g cl start, is_ok o = false ->
                inv2 nest (set_onstack (callback has g cl start st2) n false) /\
                rel2 nest XN st (set_onstack (callback has g cl start st2) n false)).
      { intros has g cl start Ho. apply EXIT.
        - apply inv2_callback. exact I2.
        - eapply R2_trans; [exact R02|apply R2_callback].
        - rewrite succb_callback, S2, Ho. discriminate. }
      destruct o as [lens| |]; [| |destruct (cfg_recover cfg)]; cbn [fst snd].
      - (* success: commit, mark called, pop *)
        set (st3 := upd_scope st2 (c_home c) (commit_results (cfg_dry cfg) f e lens 0 (sig_rleaves (c_sig c)))).
        apply EXIT.
        + apply inv2_callback. apply inv2_called; [|apply inv2_upd_scope; exact I2].
          intros _. change (get_node st3 n) with (get_node st2 n). change (st_log st3) with (st_log st2).
          rewrite (frame_c_fn _ _ n F02). exact S2.
        + eapply R2_trans; [exact R02|].
          eapply R2_trans; [apply R2_upd_scope; intros c0; apply P_Once.providers_commit_results|].
          eapply R2_trans; [apply R2_set_called|apply R2_callback].
        + intros _. rewrite get_node_callback. apply called_set_same.
          unfold st3. rewrite nodes_upd_scope. exact Hn2.
      - apply FAILX. reflexivity.
      - apply FAILX. reflexivity.
      - exfalso. exact (Hna _ eq_refl).
    Qed.

    Lemma o2_call_dec_re d st : PB2 (TOld (TCallDec d)) st (call_dec_re cfg b nest du rec d st).
    Proof.
      intros Hr [Hd Hns] Hi Hna. cbn [Xt]. unfold call_dec_re in *.
      destruct (dstate_eqb (d_state (get_dec st d)) DCalled) eqn:Ec; [split; [exact Hi|apply R2_refl]|].
      apply dstate_eqb_false in Ec.
      set (dn := get_dec st d) in *. set (f := d_fn dn) in *.
      pose proof Hi as [HIO HC].
      assert (Hf0 : succb f (st_log st) = false).
      { destruct (succb f (st_log st)) eqn:E; [|reflexivity].
        destruct (io_dsucc _ _ _ _ HIO d Hd E) as [H|H];
          change (dd d (st_decs st)) with (get_dec st d) in H; fold dn in H; congruence. }
      assert (Hfreg : In f (regfns st)) by (apply fns_dd_in; exact Hd).
      assert (HnotNF : ~ NF nest f) by (intros H; exact (io_nf _ _ _ _ HIO f H Hfreg)).
      set (st0 := set_dstate st d DOnStack) in *.
      assert (I0 : inv2 nest st0) by (apply inv2_dstate; [discriminate|discriminate|exact Hi]).
      assert (R0 : R2 nest XN st st0) by apply R2_push_dec.
      assert (Hr0 : refs_ok st0) by (eapply refs_ok_frame; [apply R0|exact Hr]).
      (* exits that reset the decorator to ready: f must not have succeeded *)
      assert (EXIT : forall Y, inv2 nest Y -> R2 nest XN st Y -> succb f (st_log Y) = false ->
                inv2 nest (set_dstate Y d DReady) /\ R2 nest XN st (set_dstate Y d DReady)).
      { intros Y IY RY HY. split.
        - apply inv2_dstate; [discriminate| |exact IY]. intros _ _.
          rewrite (frame_d_fn _ _ d (R2_frame _ _ _ _ RY)). exact HY.
        - apply (R2_set_dec nest XN st Y d DReady Hns RY). }
      destruct (shallow_missing st0 (d_home dn) (sig_leaves (d_sig dn))).
      2:{ cbn [fst snd]. destruct (EXIT st0 I0 R0 Hf0) as [A B]. split; [exact A|apply B]. }
      pose proof (IH (TOld (TLeaves (d_home dn) (sig_build_seq (d_sig dn)))) st0 Hr0 I I0) as H1.
      pose proof (IHf (TOld (TLeaves (d_home dn) (sig_build_seq (d_sig dn)))) st0) as F1.
      destruct (rec (TOld (TLeaves (d_home dn) (sig_build_seq (d_sig dn)))) st0) as [[built|e|a] st1] eqn:E1;
        cbn [fst snd] in *.
      3:{ exfalso. exact (Hna a eq_refl). }
      all: destruct H1 as [I1 R1]; [intros a' X; discriminate X|].
      all: assert (R01 : R2 nest XN st st1) by (eapply R2_trans; [exact R0|split; assumption]).
      all: assert (Hd0 : d < length (st_decs st0)) by (unfold st0, set_dstate; rewrite decs_len_upd_dec; exact Hd).
      all: assert (Z0 : Fz nest st0 f)
        by (right; left; exists d; split; [exact Hd0|]; split;
            [rewrite (frame_d_fn _ _ d (R2_frame _ _ _ _ R0)); reflexivity|apply dstate_set_same; exact Hd]).
      all: assert (Hf1 : succb f (st_log st1) = false)
        by (destruct (frame_log _ _ F1) as [new L]; rewrite L; rewrite succb_same;
            [exact Hf0|rewrite <- L; destruct R1 as (_ & _ & C1); apply C1; [exact Z0|intros []]]).
      2:{ destruct (EXIT st1 I1 R01 Hf1) as [A B]. split; [exact A|apply B]. }
      assert (Hr1 : refs_ok st1) by (eapply refs_ok_frame; [apply R01|exact Hr]).
      assert (F01 : P_Once.frame st st1) by apply R01.
      assert (Hd1 : d < length (st_decs st1)) by (rewrite (frame_decs_len _ _ F01); exact Hd).
      assert (Ef1 : d_fn (get_dec st1 d) = f) by apply (frame_d_fn _ _ d F01).
      assert (On1 : d_state (get_dec st1 d) = DOnStack).
      { destruct R1 as (_ & B1 & _). apply B1. apply dstate_set_same. exact Hd. }
      pose proof I1 as [HIO1 HC1].
      assert (Z1 : Fz nest st1 f) by (right; left; exists d; auto).
      destruct (run_fn_re cfg b nest du rec RoleDec f (place (sig_order (d_sig dn)) built) st1) as [[o e] st2] eqn:ER.
      destruct o as [o|a]; [|exfalso; exact (Hna a eq_refl)].
      destruct (o2_body RoleDec f (place (sig_order (d_sig dn)) built) st1 Hr1 I1 Hf1) with (o := o) (e := e) (st2 := st2)
        as (I2 & R12 & S2); auto.
      { intros m Hm Hc. exfalso.
        apply (nodup_nd_dd _ _ m d (io_nodup _ _ _ _ HIO1) Hm Hd1).
        change (c_fn (get_node st1 m) = d_fn (get_dec st1 d)). congruence. }
      { intros d' Hd' Hc. assert (d' = d); [|subst d'; exact On1].
        eapply nodup_dd; [apply (io_nodup _ _ _ _ HIO1)|exact Hd'|exact Hd1|].
        change (d_fn (get_dec st1 d') = d_fn (get_dec st1 d)). congruence. }
      { apply hosts_started_notNF. exact HnotNF. }
      { intros e' s p Hin Heq. apply HnotNF. exists f, e', s, p. auto. }
      assert (NOTF : forall g, Fz nest st g -> ~ (fun x => x = f) g).
      { intros g Hg ->. destruct Hg as [(m & Hm & Hc & _)|[(d' & Hd' & Hc & Ho)|[Hnot _]]].
        - apply (nodup_nd_dd _ _ m d (io_nodup _ _ _ _ HIO) Hm Hd). exact Hc.
        - assert (d' = d); [|subst d'; fold dn in Ho; congruence].
          eapply nodup_dd; [apply (io_nodup _ _ _ _ HIO)|exact Hd'|exact Hd|exact Hc].
        - exact (Hnot Hfreg). }
      assert (R02 : R2 nest XN st st2).
      { apply (R2_drop nest (fun x => x = f)); [exact NOTF|].
        eapply R2_trans; [apply (R2_weaken nest XN); [intros g []|exact R01]|exact R12]. }
      assert (F02 : P_Once.frame st st2) by apply R02.
      assert (Hd2 : d < length (st_decs st2)) by (rewrite (frame_decs_len _ _ F02); exact Hd).
      assert (FAILX : forall has g cl start, is_ok o = false ->
                inv2 nest (callback has g cl start (set_dstate st2 d DReady)) /\
                rel2 nest XN st (callback has g cl start (set_dstate st2 d DReady))).
      { intros has g cl start Ho.
        destruct (EXIT st2 I2 R02) as [A B]; [rewrite S2; exact Ho|].
        split; [apply inv2_callback; exact A|].
        apply (R2_trans nest XN st _ _ B). apply R2_callback. }
      destruct o as [lens| |]; [| |destruct (cfg_recover cfg)]; cbn [fst snd].
      - set (st3 := upd_scope st2 (d_home dn) (commit_decorated (cfg_dry cfg) f e lens 0 (sig_rleaves (d_sig dn)))).
        split.
        + apply inv2_callback. apply inv2_dstate; [|discriminate|apply inv2_upd_scope; exact I2].
          intros _ _. change (get_dec st3 d) with (get_dec st2 d). change (st_log st3) with (st_log st2).
          rewrite (frame_d_fn _ _ d F02). exact S2.
        + assert (RR : R2 nest XN st (callback (d_cb dn) f ENone (st_clock st1) (set_dstate st3 d DCalled))).
          { eapply R2_trans; [|apply R2_callback].
            apply (R2_set_dec nest XN st st3 d DCalled Hns).
            eapply R2_trans; [exact R02|]. apply R2_upd_scope. intros c0. apply P_Once.providers_commit_decorated. }
          apply RR.
      - apply FAILX. reflexivity.
      - apply FAILX. reflexivity.
      - exfalso. exact (Hna _ eq_refl).
    Qed.

    Lemma o2_invoke_tail_re s p st1 :
      refs_ok st1 -> inv2 nest st1 ->
      nexec (ii_fn p) (st_log st1) = 0 -> ~ In (ii_fn p) (regfns st1) -> hosts_started nest (st_log st1) (ii_fn p) ->
      nonabort (fst (invoke_tail_re cfg b nest du rec s p st1)) ->
      inv2 nest (snd (invoke_tail_re cfg b nest du rec s p st1)) /\
      R2 nest (fun x => x = ii_fn p) st1 (snd (invoke_tail_re cfg b nest du rec s p st1)).
    Proof.
      intros Hr1 I1 Hz Hnr Hh Hna. unfold invoke_tail_re in *. set (g := ii_fn p) in *.
      pose proof (IH (TOld (TLeaves s (sig_build_seq (ii_sig p)))) st1 Hr1 I I1) as H2.
      pose proof (IHf (TOld (TLeaves s (sig_build_seq (ii_sig p)))) st1) as F2.
      destruct (rec (TOld (TLeaves s (sig_build_seq (ii_sig p)))) st1) as [[built|e|a] st2] eqn:E2;
        cbn [fst snd] in *.
      3:{ exfalso. exact (Hna a eq_refl). }
      all: destruct H2 as [I2 R12]; [intros a' X; discriminate X|].
      all: assert (R12' : R2 nest (fun x => x = g) st1 st2)
        by (apply (R2_weaken nest XN); [intros x []|split; assumption]).
      2:{ split; assumption. }
      assert (Z1 : Fz nest st1 g) by (right; right; split; assumption).
      assert (Hz2 : nexec g (st_log st2) = 0).
      { destruct R12 as (_ & _ & C). rewrite C; [exact Hz|exact Z1|intros []]. }
      assert (Hr2 : refs_ok st2) by (eapply refs_ok_frame; eauto).
      assert (Hnr2 : ~ In g (regfns st2)) by (rewrite (frame_regfns _ _ F2); exact Hnr).
      assert (Hh2 : hosts_started nest (st_log st2) g).
      { destruct (frame_log _ _ F2) as [new ->]. apply hosts_started_mono. exact Hh. }
      destruct (run_fn_re cfg b nest du rec RoleInv g (place (sig_order (ii_sig p)) built) st2) as [[o e] st3] eqn:ER.
      destruct o as [o|a]; [|exfalso; exact (Hna a eq_refl)].
      destruct (o2_body RoleInv g (place (sig_order (ii_sig p)) built) st2 Hr2 I2) with (o := o) (e := e) (st2 := st3)
        as (I3 & R23 & _); auto.
      { apply succb_nexec. exact Hz2. }
      { intros m Hm Hc. exfalso. apply Hnr2. rewrite <- Hc. apply fns_nd_in. exact Hm. }
      { intros d Hd Hc. exfalso. apply Hnr2. rewrite <- Hc. apply fns_dd_in. exact Hd. }
      { right. right. split; assumption. }
      { intros e' s' p' Hin Heq. specialize (Hh g e' s' p' Hin Heq). lia. }
      assert (R13 : R2 nest (fun x => x = g) st1 st3) by (eapply R2_trans; eauto).
      destruct o as [lens| |]; [| |destruct (cfg_recover cfg)]; cbn [fst snd] in *; split; assumption.
    Qed.

    Lemma o2_invoke_body s p st : PB2 (TInvoke s p) st (invoke_body cfg b nest du rec s p st).
    Proof.
      intros Hr (Hz & Hnr & Hh) Hi Hna. cbn [Xt]. unfold invoke_body in *.
      destruct (shallow_missing st s (sig_leaves (ii_sig p))); [|split; [exact Hi|apply R2_refl]].
      destruct (s_verified (get_scope st s)).
      - destruct (o2_invoke_tail_re s p st Hr Hi Hz Hnr Hh Hna) as [A B]. split; [exact A|apply B].
      - destruct (is_acyclic (scope_graph st s)) as [[[|] pth]|]; cbn [fst snd] in *.
        + set (st1 := upd_scope st s (sc_set_verified true)) in *.
          assert (R0 : R2 nest (fun x => x = ii_fn p) st st1)
            by (apply R2_upd_scope; intros c0; split; reflexivity).
          destruct (o2_invoke_tail_re s p st1) as [A B]; auto.
          * eapply refs_ok_frame; [apply R0|exact Hr].
          * split; [exact A|]. apply (R2_trans nest _ _ _ _ R0 B).
        + split; [exact Hi|apply R2_refl].
        + exfalso. exact (Hna _ eq_refl).
    Qed.

    Lemma o2_evalF_re t st : PB2 t st (evalF_re cfg b nest du rec t st).
    Proof.
      destruct t as [[v [k opt|k soft]|v ls|n|d]|s p]; cbn [evalF_re].
      - intros Hr _ Hi Hna. cbn [Xt].
        destruct (gc_build_single (inv2 nest) (R2 nest XN) (R2_refl nest XN) (R2_trans nest XN) (R2_frame nest XN)
                    (recO rec) IHo v k opt st Hr Hi Hna) as [A B]. split; [exact A|apply B].
      - intros Hr _ Hi Hna. cbn [Xt].
        destruct (gc_build_group (inv2 nest) (R2 nest XN) (R2_refl nest XN) (R2_trans nest XN) (R2_frame nest XN)
                    (recO rec) IHo v k soft st Hr Hi Hna) as [A B]. split; [exact A|apply B].
      - intros Hr _ Hi Hna. cbn [Xt].
        destruct (gc_build_list (inv2 nest) (R2 nest XN) (R2_refl nest XN) (R2_trans nest XN) (R2_frame nest XN)
                    (recO rec) IHo v ls st Hr Hi Hna) as [A B]. split; [exact A|apply B].
      - apply o2_call_ctor_re.
      - apply o2_call_dec_re.
      - apply o2_invoke_body.
    Qed.
  End Step.

  (* ---- the knot ---- *)

  Definition FPB (t : rtask) (st : state) (o : out) : Prop := P_Once.frame st (snd o) /\ PB2 t st o.

  Lemma FPB_fuel t st : FPB t st (Abort AFuel, st).
  Proof. split; [apply P_Once.frame_refl|]. intros _ _ _ Hna. exfalso. exact (Hna _ eq_refl). Qed.

  Lemma eval_lvl_FPB inv :
    (forall s p st, FPB (TInvoke s p) st (inv s p st)) ->
    forall fuel t st, FPB t st (eval_lvl cfg b nest du inv fuel t st).
  Proof.
    intros Hinv. induction fuel as [|k IHk]; intros t st; cbn [eval_lvl]; [apply FPB_fuel|].
    assert (RR : forall t' st', FPB t' st' (dispatch inv (eval_lvl cfg b nest du inv k) t' st')).
    { intros [t'|s p] st'; cbn [dispatch]; [apply IHk|apply Hinv]. }
    split.
    - apply grr_evalF_re; try frame_re_hyps. intros t' st'. apply RR.
    - apply o2_evalF_re; intros t' st'; apply RR.
  Qed.

  Lemma invoke_lvl_FPB : forall depth s p st, FPB (TInvoke s p) st (invoke_lvl cfg b nest du depth s p st).
  Proof.
    induction depth as [|d IHd]; intros s p st; cbn [invoke_lvl]; [apply FPB_fuel|].
    apply eval_lvl_FPB. exact IHd.
  Qed.
End Once2.

(* ====================================================================== *)
(* 8. Operations and runs                                                  *)
(* ====================================================================== *)

Section App.
  Variable nest : nestor.

  Lemma IO2_app_node ns ds log c :
    ~ In (c_fn c) (fnsl ns ds) -> ~ NF nest (c_fn c) -> succb (c_fn c) log = false -> c_called c = false ->
    IO2 nest ns ds log -> IO2 nest (ns ++ [c]) ds log.
  Proof.
    intros Hf Hnf Hs Hc [A A' B B' C C' E H].
    assert (EF : forall g, In g (fnsl (ns ++ [c]) ds) -> In g (fnsl ns ds) \/ g = c_fn c).
    { intros g. unfold fnsl. rewrite map_app. cbn [map]. rewrite <- app_assoc. cbn [app].
      intros Hin. apply in_app_or in Hin as [Hin|[Hin|Hin]]; [left; apply in_or_app; auto|right; auto|left; apply in_or_app; auto]. }
    constructor; auto.
    - unfold fnsl. rewrite map_app. cbn [map]. rewrite <- app_assoc. cbn [app]. apply NoDup_insert; auto.
    - intros g Hg Hin. destruct (EF g Hin) as [Hin'| ->]; [exact (A' g Hg Hin')|exact (Hnf Hg)].
    - intros n Hn. rewrite app_length in Hn. cbn in Hn. unfold nd.
      destruct (Nat.lt_ge_cases n (length ns)) as [Hlt|Hge].
      + rewrite app_nth1 by exact Hlt. apply B. exact Hlt.
      + assert (n = length ns) by lia. subst n. rewrite nth_middle. rewrite Hc. discriminate.
    - intros n Hn. rewrite app_length in Hn. cbn in Hn. unfold nd.
      destruct (Nat.lt_ge_cases n (length ns)) as [Hlt|Hge].
      + rewrite app_nth1 by exact Hlt. apply B'. exact Hlt.
      + assert (n = length ns) by lia. subst n. rewrite nth_middle. rewrite Hs. discriminate.
  Qed.

  Lemma IO2_app_dec ns ds log c :
    ~ In (d_fn c) (fnsl ns ds) -> ~ NF nest (d_fn c) -> succb (d_fn c) log = false -> d_state c = DReady ->
    IO2 nest ns ds log -> IO2 nest ns (ds ++ [c]) log.
  Proof.
    intros Hf Hnf Hs Hc [A A' B B' C C' E H].
    assert (EF : forall g, In g (fnsl ns (ds ++ [c])) -> In g (fnsl ns ds) \/ g = d_fn c).
    { intros g. unfold fnsl. rewrite map_app. cbn [map]. rewrite app_assoc.
      intros Hin. apply in_app_or in Hin as [Hin|[Hin|[]]]; [left; exact Hin|right; auto]. }
    constructor; auto.
    - unfold fnsl. rewrite map_app. cbn [map]. rewrite app_assoc.
      replace ((map c_fn ns ++ map d_fn ds) ++ [d_fn c]) with ((map c_fn ns ++ map d_fn ds) ++ d_fn c :: [])
        by reflexivity.
      apply NoDup_insert; rewrite app_nil_r; auto.
    - intros g Hg Hin. destruct (EF g Hin) as [Hin'| ->]; [exact (A' g Hg Hin')|exact (Hnf Hg)].
    - intros n Hn. rewrite app_length in Hn. cbn in Hn. unfold dd.
      destruct (Nat.lt_ge_cases n (length ds)) as [Hlt|Hge].
      + rewrite app_nth1 by exact Hlt. apply C. exact Hlt.
      + assert (n = length ds) by lia. subst n. rewrite nth_middle. rewrite Hc. discriminate.
    - intros n Hn. rewrite app_length in Hn. cbn in Hn. unfold dd.
      destruct (Nat.lt_ge_cases n (length ds)) as [Hlt|Hge].
      + rewrite app_nth1 by exact Hlt. apply C'. exact Hlt.
      + assert (n = length ds) by lia. subst n. rewrite nth_middle. rewrite Hs. discriminate.
  Qed.
End App.

Definition vnonabort (v : verdict) : Prop := forall a, v <> VAbort a.

Section Ops2.
  Variables (cfg : config) (b : beh) (nest : nestor) (du : dur) (depth : nat).
  Hypothesis Hdry : cfg_dry cfg = false.
  Hypothesis Hnd : forall f e, NoDup (map fnof (nest f e)).
  Hypothesis Hhost : forall f e f' e' s p s' p',
      In (s, p) (nest f e) -> In (s', p') (nest f' e') -> ii_fn p = ii_fn p' -> f = f' /\ e = e'.

  Lemma step_re_once st o h :
    refs_ok st -> IO2 nest (st_nodes st) (st_decs st) (st_log st) -> inv_count st ->
    NoDup (op_fns (o :: h)) ->
    (forall f, In f (op_fns (o :: h)) -> fresh st f /\ ~ NF nest f) ->
    vnonabort (fst (step_re cfg b nest du depth st o)) ->
    let st' := snd (step_re cfg b nest du depth st o) in
    refs_ok st' /\ IO2 nest (st_nodes st') (st_decs st') (st_log st') /\
    (forall f, In f (op_fns h) -> fresh st' f /\ ~ NF nest f).
  Proof.
    intros Hr Hi HC Hnodup Hfr Hna.
    destruct o as [p|s p|s p|s p|k s f]; cbn [step_re snd] in *; cbn zeta.
    - (* Scope *)
      destruct (new_scope_spec st p) as (N & Dc & _ & L & S).
      split; [|split].
      + destruct Hr as [Hr1 Hr2]. split.
        * intros i n. unfold pids. destruct (S i) as [_ ->]. rewrite N. apply Hr1.
        * intros i d. unfold dids. destruct (S i) as [S1 _]. rewrite (score_decorators _ _ S1), Dc. apply Hr2.
      + rewrite N, Dc, L. exact Hi.
      + intros f Hf. destruct (Hfr f Hf) as [A B]. split; [|exact B]. unfold fresh. rewrite N, Dc, L. exact A.
    - (* Provide *)
      cbn [op_fns flat_map op_fn app] in Hnodup, Hfr.
      destruct (Hfr (pi_fn p) (or_introl eq_refl)) as [Hfp Hnfp].
      inversion Hnodup as [|? ? Hnotin Hnd']; subst.
      destruct (provide_spec cfg st s p) as ((Dc & _ & L & _ & S) & Hcase & _).
      set (st' := snd (provide cfg st s p)) in *.
      destruct Hr as [Hr1 Hr2].
      assert (Hr2' : forall i d, In d (dids (get_scope st' i)) -> d < length (st_decs st')).
      { intros i d. unfold dids. rewrite (score_decorators _ _ (S i)), Dc. apply Hr2. }
      destruct Hcase as [[N Pr]|[N Pr]].
      + split; [|split].
        * split; [|exact Hr2']. intros i n. unfold pids. rewrite Pr, N. apply Hr1.
        * rewrite N, Dc, L. exact Hi.
        * intros f Hf. destruct (Hfr f (or_intror Hf)) as [A B]. split; [|exact B].
          unfold fresh. rewrite N, Dc, L. exact A.
      + split; [|split].
        * split; [|exact Hr2']. intros i n Hn. rewrite N, app_length. cbn.
          apply Pr in Hn as [Hn| ->]; [|lia]. apply Hr1 in Hn. lia.
        * rewrite N, Dc, L. destruct Hfp as [Hf1 Hf2].
          apply IO2_app_node; auto. apply succb_nexec. exact Hf2.
        * intros f Hf. destruct (Hfr f (or_intror Hf)) as [[Hf1 Hf2] B]. split; [|exact B].
          unfold fresh. rewrite N, Dc, L. split; [|exact Hf2].
          unfold fnsl. rewrite map_app, <- app_assoc. cbn [map app new_node c_fn].
          intros Hin. apply in_app_or in Hin as [Hin|[Heq|Hin]].
          -- apply Hf1. apply in_or_app. auto.
          -- apply Hnotin. rewrite Heq. exact Hf.
          -- apply Hf1. apply in_or_app. auto.
    - (* Decorate *)
      cbn [op_fns flat_map op_fn app] in Hnodup, Hfr.
      destruct (Hfr (di_fn p) (or_introl eq_refl)) as [Hfp Hnfp].
      inversion Hnodup as [|? ? Hnotin Hnd']; subst.
      destruct (decorate_spec st s p) as (N & _ & L & S & Hcase & _).
      set (st' := snd (decorate st s p)) in *.
      destruct Hcase as [E|[Dc Dd]].
      + rewrite E. split; [exact Hr|]. split; [exact Hi|]. intros f Hf. apply Hfr. right. exact Hf.
      + destruct Hr as [Hr1 Hr2]. split; [|split].
        * split.
          -- intros i n. unfold pids. destruct (S i) as [_ ->]. rewrite N. apply Hr1.
          -- intros i d Hd. rewrite Dc, app_length. cbn.
             apply Dd in Hd as [Hd| ->]; [|lia]. apply Hr2 in Hd. lia.
        * rewrite N, Dc, L. destruct Hfp as [Hf1 Hf2].
          apply IO2_app_dec; auto. apply succb_nexec. exact Hf2.
        * intros f Hf. destruct (Hfr f (or_intror Hf)) as [[Hf1 Hf2] B]. split; [|exact B].
          unfold fresh. rewrite N, Dc, L. split; [|exact Hf2].
          unfold fnsl. rewrite map_app. cbn [map d_fn].
          intros Hin. apply in_app_or in Hin as [Hin|Hin]; [apply Hf1; apply in_or_app; auto|].
          apply in_app_or in Hin as [Hin|[Heq|[]]]; [apply Hf1; apply in_or_app; auto|].
          apply Hnotin. rewrite Heq. exact Hf.
    - (* Invoke *)
      cbn [op_fns flat_map op_fn app] in Hnodup, Hfr.
      destruct (Hfr (ii_fn p) (or_introl eq_refl)) as [[Hp1 Hp2] Hnfp].
      inversion Hnodup as [|? ? Hnotin Hnd']; subst.
      unfold invoke_re in *. cbn [fst snd] in *.
      destruct (invoke_lvl_FPB cfg b nest du Hdry Hnd Hhost (S depth) s p st) as [F H].
      destruct (H Hr) as [[I2 _] R2'].
      { split; [exact Hp2|]. split; [exact Hp1|]. apply hosts_started_notNF. exact Hnfp. }
      { split; assumption. }
      { intros a E. apply (Hna a). rewrite E. reflexivity. }
      split; [eapply refs_ok_frame; eauto|]. split; [exact I2|].
      intros f Hf. destruct (Hfr f (or_intror Hf)) as [[Hf1 Hf2] B]. split; [|exact B].
      split; [unfold regfns in *; rewrite (frame_fnsl _ _ F); exact Hf1|].
      destruct R2' as (_ & _ & C). rewrite C; [exact Hf2| |].
      + right. right. split; [exact Hf1|]. apply hosts_started_notNF. exact B.
      + cbn [Xt]. intros ->. exact (Hnotin Hf).
    - (* Bad *)
      split; [exact Hr|]. split; [exact Hi|]. intros f' Hf. apply Hfr. exact Hf.
  Qed.

  (* the invariant of the states reached along a run none of whose remaining operations aborts *)
  Definition GH2 (st : state) (h : history) : Prop :=
    refs_ok st /\ IO2 nest (st_nodes st) (st_decs st) (st_log st) /\ inv_count st /\ inv_cache st /\
    NoDup (op_fns h) /\ (forall f, In f (op_fns h) -> fresh st f /\ ~ NF nest f) /\
    (forall o, In o (fst (run_from_re cfg b nest du depth st h)) -> vnonabort (so_verdict o)).

  Lemma GH2_step st o h :
    GH2 st (o :: h) ->
    GH2 (snd (step_re cfg b nest du depth st o)) h /\ vnonabort (fst (step_re cfg b nest du depth st o)).
  Proof.
    intros (Hr & Hi & Hc & Hk & Hnodup & Hfr & Hna).
    cbn [run_from_re fst] in Hna.
    assert (Hna0 : vnonabort (fst (step_re cfg b nest du depth st o))) by (apply (Hna _ (or_introl eq_refl))).
    destruct (step_re_once st o h Hr Hi Hc Hnodup Hfr Hna0) as (Hr' & Hi' & Hfr').
    split; [|exact Hna0].
    split; [exact Hr'|]. split; [exact Hi'|]. split; [apply step_re_count; exact Hc|].
    split; [apply step_re_cache; exact Hk|]. split.
    - change (op_fns (o :: h)) with (op_fn o ++ op_fns h) in Hnodup. eapply NoDup_app_r; eauto.
    - split; [exact Hfr'|]. intros o' Hin. apply Hna. right. exact Hin.
  Qed.
End Ops2.

(* ====================================================================== *)
(* 9. The checker of C02 on re-entrant runs in which nothing aborts        *)
(* ====================================================================== *)

(* the general form: the only hypothesis about the run is that no operation
   ends in VAbort (an abort is exactly what unwinds through a running body) *)
Theorem chk_C02_re_nil_noabort depth cfg b nest du h :
  wf_fns h = true -> cfg_dry cfg = false -> wf_nest_fns nest h ->
  (forall o, In o (run_re_d depth cfg b nest du h) -> forall a, so_verdict o <> VAbort a) ->
  chk_C02 h (map obs_of (run_re_d depth cfg b nest du h)) = [].
Proof.
  intros Hwf Hdry [Hnd Hhost Hfresh] Hna. apply viols_nil. intros i c. unfold chk_C02, run_re_d.
  change (@nil lentry) with (log_of_events (rev (st_log init_state))).
  apply (walk_run_from_re cfg b nest du depth (GH2 cfg b nest du depth) _ (fun _ => False)).
  - intros st o h' H. apply (GH2_step cfg b nest du depth Hdry Hnd Hhost st o h' H).
  - intros st o h' r new H L c' Hc.
    destruct (GH2_step cfg b nest du depth Hdry Hnd Hhost st o h' H) as [(_ & HI & (_ & A) & (_ & C) & _) Hv].
    apply in_app_or in Hc as [Hc|Hc].
    + pose proof (io_once _ _ _ _ HI) as B. rewrite L in A, B, C.
      rewrite (walk_events_nil _ (fun l ev => idx_ev l ev /\ once_ev l ev /\ args_ev l ev))
        with (old := st_log st) in Hc; [destruct Hc|apply chk_once_event_nil|].
      cbn [oo_events]. rewrite rev_involutive.
      apply log_all_and; [exact A|]. apply log_all_and; assumption.
    + unfold chk_no_crash in Hc. cbn [oo_verdict] in Hc.
      destruct (fst (step_re cfg b nest du depth st o)) as [|e|a]; cbn in Hc; [destruct Hc|destruct Hc|].
      exact (Hv a eq_refl).
  - split; [split; intros i0 x; unfold get_scope, init_state; cbn; destruct i0 as [|[|i0]]; intros []|].
    split.
    { constructor.
      - constructor.
      - intros g _ [].
      - intros n Hn. inversion Hn.
      - intros n Hn. inversion Hn.
      - intros d Hd. inversion Hd.
      - intros d Hd. inversion Hd.
      - exact I.
      - intros g Hg. cbn in Hg. lia. }
    split; [split; [reflexivity|exact I]|].
    split.
    { split; [|exact I]. intros i0. unfold get_scope, init_state. cbn.
      destruct i0 as [|[|i0]]; apply cache_ok_empty. }
    split; [apply nodupb_NoDup; exact Hwf|].
    split.
    { intros f Hf. split; [split; [intros []|reflexivity]|]. intros HNF. exact (Hfresh f HNF Hf). }
    exact Hna.
Qed.
Print Assumptions chk_C02_re_nil_noabort.

(* ====================================================================== *)
(* 10. With RecoverFromPanics no user panic unwinds through anything       *)
(* ====================================================================== *)

Definition notpanic (a : abort) : Prop := match a with APanicked _ _ => False | _ => True end.

Section NoPanicOld.
  Variable rec : task -> state -> out.
  Hypothesis IH : forall t st a, fst (rec t st) = Abort a -> notpanic a.

  Lemma np_call_ctors ns : forall st a, fst (call_ctors rec ns st) = LAbort a -> notpanic a.
  Proof.
    induction ns as [|n t IHn]; intros st a; cbn [call_ctors]; [discriminate|].
    pose proof (IH (TCallCtor n) st) as H.
    destruct (rec (TCallCtor n) st) as [[x|e|a'] st1]; cbn [fst] in *; [apply IHn|discriminate|].
    intros [= <-]. apply H. reflexivity.
  Qed.

  Lemma np_call_group_decs k bs : forall st a, fst (call_group_decs rec k bs st) = LAbort a -> notpanic a.
  Proof.
    induction bs as [|s t IHb]; intros st a; cbn [call_group_decs]; [discriminate|].
    destruct (alookup key_eqb k (s_decorators (get_scope st s))) as [d|]; [|apply IHb].
    destruct (dstate_eqb (d_state (get_dec st d)) DOnStack); [apply IHb|].
    pose proof (IH (TCallDec d) st) as H.
    destruct (rec (TCallDec d) st) as [[x|e|a'] st1]; cbn [fst] in *; [apply IHb|discriminate|].
    intros [= <-]. apply H. reflexivity.
  Qed.

  Lemma np_build_list v ls : forall st a, fst (build_list rec v ls st) = Abort a -> notpanic a.
  Proof.
    induction ls as [|l t IHl]; intros st a; cbn [build_list]; [discriminate|].
    pose proof (IH (TLeaf v l) st) as H.
    destruct (rec (TLeaf v l) st) as [[x|e|a'] st1]; cbn [fst] in *; [|discriminate|intros [= <-]; apply H; reflexivity].
    specialize (IHl st1 a).
    destruct (build_list rec v t st1) as [[r|e|a'] st2]; cbn [fst] in *; [discriminate|discriminate|exact IHl].
  Qed.

  Lemma np_build_single v k opt st a : fst (build_single rec v k opt st) = Abort a -> notpanic a.
  Proof.
    unfold build_single.
    destruct (find_dec st v k) as [[d bsc]|].
    - pose proof (IH (TCallDec d) st) as H.
      destruct (rec (TCallDec d) st) as [[x|e|a'] st1]; cbn [fst] in *.
      + destruct (alookup key_eqb k (s_dvalues (get_scope st1 bsc))); cbn [fst]; [discriminate|].
        intros [= <-]. exact I.
      + discriminate.
      + intros [= <-]. apply H. reflexivity.
    - destruct (find_map _ (path st v)); [discriminate|].
      destruct (find_provider st (path st v) k) as [x|bsc ns|]; [discriminate| |destruct opt; discriminate].
      pose proof (np_call_ctors ns st) as H.
      destruct (call_ctors rec ns st) as [[|c e|a'] st1]; cbn [fst] in *.
      + destruct (alookup key_eqb k (s_values (get_scope st1 bsc))); cbn [fst]; [discriminate|].
        intros [= <-]. exact I.
      + destruct (opt && has_missingdeps e); discriminate.
      + intros [= <-]. apply H. reflexivity.
  Qed.

  Lemma np_build_group v k soft st a : fst (build_group rec v k soft st) = Abort a -> notpanic a.
  Proof.
    unfold build_group.
    pose proof (np_call_group_decs k (rev (path st v)) st) as H.
    destruct (call_group_decs rec k (rev (path st v)) st) as [[|c e|a'] st1]; cbn [fst] in *;
      [|discriminate|intros [= <-]; apply H; reflexivity].
    destruct (find_map _ (path st1 v)); [discriminate|].
    destruct soft; [discriminate|].
    pose proof (np_call_ctors (providers_on_path st1 v k) st1) as H2.
    destruct (call_ctors rec (providers_on_path st1 v k) st1) as [[|c e|a'] st2]; cbn [fst] in *;
      [discriminate|discriminate|intros [= <-]; apply H2; reflexivity].
  Qed.
End NoPanicOld.

Section NoPanicRe.
  Variables (cfg : config) (b : beh) (nest : nestor) (du : dur).
  Hypothesis Hrec : cfg_recover cfg = true.

  Section Step.
    Variable rec : rtask -> state -> out.
    Hypothesis IH : forall t st a, fst (rec t st) = Abort a -> notpanic a.

    Let IHo : forall t st a, fst (recO rec t st) = Abort a -> notpanic a := fun t st a => IH (TOld t) st a.

    Lemma np_run_nested reqs : forall st a, fst (run_nested rec reqs st) = Some a -> notpanic a.
    Proof.
      induction reqs as [|[s p] t IHr]; intros st a; cbn [run_nested]; [discriminate|].
      destruct (Nat.ltb s (length (st_scopes st))); [|apply IHr].
      pose proof (IH (TInvoke s p) st) as H.
      destruct (rec (TInvoke s p) st) as [[x|e|a'] st1]; cbn [fst] in *; [apply IHr|apply IHr|].
      intros [= <-]. apply H. reflexivity.
    Qed.

    Lemma np_run_fn_re r f args st a :
      fst (fst (run_fn_re cfg b nest du rec r f args st)) = FAbort a -> notpanic a.
    Proof.
      unfold run_fn_re. destruct (run_fn cfg b du r f args st) as [[o e] st1].
      destruct (cfg_dry cfg); [discriminate|].
      pose proof (np_run_nested (nest f e) st1) as H.
      destruct (run_nested rec (nest f e) st1) as [[a'|] st2]; cbn [fst] in *; [|discriminate].
      intros [= <-]. apply H. reflexivity.
    Qed.

    Lemma np_call_ctor_re n st a : fst (call_ctor_re cfg b nest du rec n st) = Abort a -> notpanic a.
    Proof.
      unfold call_ctor_re.
      destruct (c_called (get_node st n)); [discriminate|].
      destruct (c_onstack (get_node st n)); [discriminate|].
      destruct (shallow_missing _ _ _); [|discriminate].
      pose proof (IH (TOld (TLeaves (c_orig (get_node st n)) (sig_build_seq (c_sig (get_node st n)))))
                     (set_onstack st n true)) as H.
      destruct (rec _ (set_onstack st n true)) as [[built|e|a'] st1]; cbn [fst] in *;
        [|discriminate|intros [= <-]; apply H; reflexivity].
      pose proof (np_run_fn_re RoleCtor (c_fn (get_node st n)) (place (sig_order (c_sig (get_node st n))) built) st1) as H2.
      destruct (run_fn_re cfg b nest du rec RoleCtor _ _ st1) as [[o e] st2]; cbn [fst] in *.
      destruct o as [[lens| |]|a']; [discriminate|discriminate|rewrite Hrec; discriminate|].
      intros [= <-]. apply H2. reflexivity.
    Qed.

    Lemma np_call_dec_re d st a : fst (call_dec_re cfg b nest du rec d st) = Abort a -> notpanic a.
    Proof.
      unfold call_dec_re.
      destruct (dstate_eqb (d_state (get_dec st d)) DCalled); [discriminate|].
      destruct (shallow_missing _ _ _); [|discriminate].
      pose proof (IH (TOld (TLeaves (d_home (get_dec st d)) (sig_build_seq (d_sig (get_dec st d)))))
                     (set_dstate st d DOnStack)) as H.
      destruct (rec _ (set_dstate st d DOnStack)) as [[built|e|a'] st1]; cbn [fst] in *;
        [|discriminate|intros [= <-]; apply H; reflexivity].
      pose proof (np_run_fn_re RoleDec (d_fn (get_dec st d)) (place (sig_order (d_sig (get_dec st d))) built) st1) as H2.
      destruct (run_fn_re cfg b nest du rec RoleDec _ _ st1) as [[o e] st2]; cbn [fst] in *.
      destruct o as [[lens| |]|a']; [discriminate|discriminate|rewrite Hrec; discriminate|].
      intros [= <-]. apply H2. reflexivity.
    Qed.

    Lemma np_invoke_tail_re s p st1 a : fst (invoke_tail_re cfg b nest du rec s p st1) = Abort a -> notpanic a.
    Proof.
      unfold invoke_tail_re.
      pose proof (IH (TOld (TLeaves s (sig_build_seq (ii_sig p)))) st1) as H.
      destruct (rec _ st1) as [[built|e|a'] st2]; cbn [fst] in *;
        [|discriminate|intros [= <-]; apply H; reflexivity].
      pose proof (np_run_fn_re RoleInv (ii_fn p) (place (sig_order (ii_sig p)) built) st2) as H2.
      destruct (run_fn_re cfg b nest du rec RoleInv _ _ st2) as [[o e] st3]; cbn [fst] in *.
      destruct o as [[lens| |]|a']; [discriminate|discriminate|rewrite Hrec; discriminate|].
      intros [= <-]. apply H2. reflexivity.
    Qed.

    Lemma np_invoke_body s p st a : fst (invoke_body cfg b nest du rec s p st) = Abort a -> notpanic a.
    Proof.
      unfold invoke_body.
      destruct (shallow_missing st s (sig_leaves (ii_sig p))); [|discriminate].
      destruct (s_verified (get_scope st s)); [apply np_invoke_tail_re|].
      destruct (is_acyclic (scope_graph st s)) as [[[|] pth]|]; [apply np_invoke_tail_re|discriminate|].
      cbn [fst]. intros [= <-]. exact I.
    Qed.

    Lemma np_evalF_re t st a : fst (evalF_re cfg b nest du rec t st) = Abort a -> notpanic a.
    Proof.
      destruct t as [[v [k opt|k soft]|v ls|n|d]|s p]; cbn [evalF_re].
      - apply (np_build_single _ IHo).
      - apply (np_build_group _ IHo).
      - apply (np_build_list _ IHo).
      - apply np_call_ctor_re.
      - apply np_call_dec_re.
      - apply np_invoke_body.
    Qed.
  End Step.

  Lemma np_eval_lvl inv :
    (forall s p st a, fst (inv s p st) = Abort a -> notpanic a) ->
    forall fuel t st a, fst (eval_lvl cfg b nest du inv fuel t st) = Abort a -> notpanic a.
  Proof.
    intros Hinv. induction fuel as [|k IHk]; intros t st a; cbn [eval_lvl].
    - cbn [fst]. intros [= <-]. exact I.
    - apply np_evalF_re. intros [t'|s p] st' a'; cbn [dispatch]; [apply IHk|apply Hinv].
  Qed.

  Lemma np_invoke_lvl : forall depth s p st a,
    fst (invoke_lvl cfg b nest du depth s p st) = Abort a -> notpanic a.
  Proof.
    induction depth as [|d IHd]; intros s p st a; cbn [invoke_lvl].
    - cbn [fst]. intros [= <-]. exact I.
    - apply np_eval_lvl. exact IHd.
  Qed.

  Lemma np_step_re depth st o f e : fst (step_re cfg b nest du depth st o) <> VAbort (APanicked f e).
  Proof.
    destruct o as [p|s p|s p|s p|k s f0]; cbn [step_re fst]; try discriminate.
    - intros E. pose proof (provide_spec cfg st s p) as (_ & _ & H). rewrite E in H. exact H.
    - intros E. destruct (decorate st s p) as [v st'] eqn:ED. cbn [fst] in E. subst v.
      exact (decorate_never_aborts _ _ _ _ _ ED).
    - unfold invoke_re. cbn [fst].
      pose proof (np_invoke_lvl (S depth) s p st) as H.
      destruct (fst (invoke_lvl cfg b nest du (S depth) s p st)) as [x|x|a]; cbn; try discriminate.
      intros [= ->]. exact (H _ eq_refl).
  Qed.

  Lemma np_run_from_re depth h : forall st o f e,
    In o (fst (run_from_re cfg b nest du depth st h)) -> so_verdict o <> VAbort (APanicked f e).
  Proof.
    induction h as [|o0 h IHh]; intros st o f e; cbn [run_from_re fst]; [intros []|].
    intros [<-|Hin]; [cbn [so_verdict]; apply np_step_re|eapply IHh; eauto].
  Qed.
End NoPanicRe.

(* ====================================================================== *)
(* 11. The theorem                                                         *)
(* ====================================================================== *)

(* Hypotheses, and why each is there:
   - wf_scopes, wf_keys, wf_nest: dig does not crash on its own (P_Re.run_re_never_bug);
   - wf_fns h, wf_nest_fns nest h: function ids identify functions (registered,
     invoked by the history, invoked by bodies: pairwise distinct; a function
     named by the oracle is asked for by one execution of one body only);
   - cfg_dry = false as in P_Term.chk_C02_nil;
   - cfg_recover = true: every user panic is recovered by the frame that ran
     the function, so none unwinds through a running body (ex_unwound_202 in
     P_Re.v is what happens otherwise);
   - no operation ends in VAbort AFuel: taken as a HYPOTHESIS (fuel / nesting
     depth sufficiency for re-entrant runs is not proved). *)
Theorem chk_C02_re_nil depth cfg b nest du h :
  wf_scopes h = true -> wf_keys h = true -> wf_nest nest ->
  wf_fns h = true -> wf_nest_fns nest h ->
  cfg_dry cfg = false -> cfg_recover cfg = true ->
  (forall o, In o (run_re_d depth cfg b nest du h) -> so_verdict o <> VAbort AFuel) ->
  chk_C02 h (map obs_of (run_re_d depth cfg b nest du h)) = [].
Proof.
  intros Hs Hk Hn Hf Hnf Hdry Hrec Hfuel.
  apply chk_C02_re_nil_noabort; auto.
  intros o Hin [f e|c|] E.
  - exact (np_run_from_re cfg b nest du Hrec depth h init_state o f e Hin E).
  - pose proof (run_re_d_never_bug depth cfg b nest du h Hs Hk Hn o Hin) as H. rewrite E in H. exact H.
  - exact (Hfuel o Hin E).
Qed.
Print Assumptions chk_C02_re_nil.

(* code 204 alone: no crash of dig (proved) and no divergence (assumed) *)
Corollary chk_no_crash_re_nil depth cfg b nest du h :
  wf_scopes h = true -> wf_keys h = true -> wf_nest nest ->
  (forall o, In o (run_re_d depth cfg b nest du h) -> so_verdict o <> VAbort AFuel) ->
  forall o, In o (run_re_d depth cfg b nest du h) -> chk_no_crash (obs_of o) = [].
Proof.
  intros Hs Hk Hn Hfuel o Hin. unfold chk_no_crash, obs_of. cbn [oo_verdict].
  pose proof (run_re_d_never_bug depth cfg b nest du h Hs Hk Hn o Hin) as H.
  pose proof (Hfuel o Hin) as H2.
  destruct (so_verdict o) as [|e|[f e|c|]]; cbn; try reflexivity; [destruct H|exfalso; apply H2; reflexivity].
Qed.
Print Assumptions chk_no_crash_re_nil.

(* ====================================================================== *)
(* 12. The wf_fns analogue as a boolean, for finite oracles                *)
(* ====================================================================== *)

Definition row_fns (row : fnid * list (nat * (sid * invoke_in))) : list fnid :=
  map (fun x => ii_fn (snd (snd x))) (snd row).
Definition tbl_fns (tbl : nest_tbl) : list fnid := flat_map row_fns tbl.

(* the functions of the history and the functions invoked by bodies: pairwise distinct *)
Definition wf_fns_re (h : history) (tbl : nest_tbl) : bool := nodupb Nat.eqb (op_fns h ++ tbl_fns tbl).

Lemma alookup_nat_In {V} k (l : list (nat * V)) v : alookup Nat.eqb k l = Some v -> In (k, v) l.
Proof.
  induction l as [|[k' v'] t IH]; cbn; [discriminate|].
  destruct (Nat.eqb k k') eqn:E.
  - intros [= ->]. apply Nat.eqb_eq in E. subst. left. reflexivity.
  - intros H. right. apply IH. exact H.
Qed.

Lemma NoDup_flat_map_in {A B} (F : A -> list B) l r : NoDup (flat_map F l) -> In r l -> NoDup (F r).
Proof.
  induction l as [|x t IH]; cbn; [intros _ []|].
  intros H [->|Hin]; [eapply NoDup_app_l; eauto|apply IH; [eapply NoDup_app_r; eauto|exact Hin]].
Qed.

Lemma NoDup_flat_map_uniq {A B} (F : A -> list B) l r r' y :
  NoDup (flat_map F l) -> In r l -> In r' l -> In y (F r) -> In y (F r') -> r = r'.
Proof.
  induction l as [|x t IH]; cbn; [intros _ []|].
  intros H [->|Hr] [->|Hr'] Hy Hy'; [reflexivity| | |].
  - exfalso. apply (NoDup_app_disj _ _ y H Hy). apply in_flat_map. exists r'. auto.
  - exfalso. apply (NoDup_app_disj _ _ y H Hy'). apply in_flat_map. exists r. auto.
  - apply IH; auto. eapply NoDup_app_r; eauto.
Qed.

Lemma NoDup_map_inj_in {A B} (g : A -> B) l x y :
  NoDup (map g l) -> In x l -> In y l -> g x = g y -> x = y.
Proof.
  induction l as [|a t IH]; cbn; [intros _ []|].
  intros H [->|Hx] [->|Hy] E; [reflexivity| | |].
  - inversion H as [|? ? Hn _]; subst. exfalso. apply Hn. rewrite E. apply in_map. exact Hy.
  - inversion H as [|? ? Hn _]; subst. exfalso. apply Hn. rewrite <- E. apply in_map. exact Hx.
  - inversion H; subst. apply IH; auto.
Qed.

Lemma NoDup_map_filter {A B} (g : A -> B) (q : A -> bool) l : NoDup (map g l) -> NoDup (map g (filter q l)).
Proof.
  induction l as [|a t IH]; cbn; [auto|].
  intros H. inversion H as [|? ? Hn Hr]; subst.
  destruct (q a); cbn; [|apply IH; exact Hr].
  constructor; [|apply IH; exact Hr].
  intros Hin. apply Hn. apply in_map_iff in Hin as (x & E & Hx). apply filter_In in Hx as [Hx _].
  rewrite <- E. apply in_map. exact Hx.
Qed.

(* an entry of the oracle comes from a row of the table *)
Lemma nest_of_In tbl f e s p :
  In (s, p) (nest_of tbl f e) -> exists row, In (f, row) tbl /\ In (e, (s, p)) row.
Proof.
  unfold nest_of, alookup_list. intros H.
  apply in_map_iff in H as ([e' sp] & E & H). cbn [snd] in E. subst sp.
  apply filter_In in H as [H Ee]. cbn [fst] in Ee. apply Nat.eqb_eq in Ee. subst e'.
  destruct (alookup Nat.eqb f tbl) as [row|] eqn:EA; [|destruct H].
  exists row. split; [apply alookup_nat_In; exact EA|exact H].
Qed.

Theorem wf_fns_re_sound h tbl :
  wf_fns_re h tbl = true -> wf_fns h = true /\ wf_nest_fns (nest_of tbl) h.
Proof.
  intros H. apply nodupb_NoDup in H.
  pose proof (NoDup_app_l _ _ H) as H1. pose proof (NoDup_app_r _ _ H) as H2.
  split.
  { unfold wf_fns. clear -H1. induction (op_fns h) as [|x t IH]; [reflexivity|].
    inversion H1 as [|? ? Hn Hr]; subst. cbn [nodupb].
    rewrite (proj2 (memb_not_In x t) Hn). cbn. apply IH. exact Hr. }
  constructor.
  - intros f e. unfold nest_of, alookup_list, fnof. rewrite map_map.
    destruct (alookup Nat.eqb f tbl) as [row|] eqn:EA; [|constructor].
    apply NoDup_map_filter.
    apply (NoDup_flat_map_in row_fns tbl (f, row) H2). apply alookup_nat_In. exact EA.
  - intros f e f' e' s p s' p' Hin Hin' Eg.
    apply nest_of_In in Hin as (row & Hr & Hx). apply nest_of_In in Hin' as (row' & Hr' & Hx').
    assert (Hy : In (ii_fn p) (row_fns (f, row))).
    { unfold row_fns. cbn [snd]. apply in_map_iff. exists (e, (s, p)). auto. }
    assert (Hy' : In (ii_fn p) (row_fns (f', row'))).
    { unfold row_fns. cbn [snd]. apply in_map_iff. exists (e', (s', p')). cbn [snd]. auto. }
    pose proof (NoDup_flat_map_uniq row_fns tbl _ _ _ H2 Hr Hr' Hy Hy') as E. injection E as -> ->.
    split; [reflexivity|].
    pose proof (NoDup_flat_map_in row_fns tbl (f', row') H2 Hr') as Hnd. unfold row_fns in Hnd. cbn [snd] in Hnd.
    pose proof (NoDup_map_inj_in _ _ _ _ Hnd Hx Hx' Eg) as E2. injection E2 as -> _ _. reflexivity.
  - intros g (f & e & s & p & Hin & <-) Hop.
    apply nest_of_In in Hin as (row & Hr & Hx).
    apply (NoDup_app_disj _ _ (ii_fn p) H Hop).
    apply in_flat_map. exists (f, row). split; [exact Hr|].
    unfold row_fns. cbn [snd]. apply in_map_iff. exists (e, (s, p)). auto.
Qed.
Print Assumptions wf_fns_re_sound.

(* nodupb for the existsb-based definition of Base *)

Definition wf_nest_tbl (tbl : nest_tbl) : bool :=
  forallb (fun row => forallb (fun x => forallb leaf_ok (sig_leaves (ii_sig (snd (snd x))))) (snd row)) tbl.

Definition no_fuelb (obs : list step_obs) : bool :=
  forallb (fun o => match so_verdict o with VAbort AFuel => false | _ => true end) obs.

(* everything decidable about a correspondence case with a finite oracle *)
Definition case_re_ok (c : case_re) : bool :=
  let k := cr_case c in
  wf_scopes (cs_hist k) && wf_keys (cs_hist k) && wf_nest_tbl (cr_nest c) && wf_fns_re (cs_hist k) (cr_nest c) &&
  negb (cfg_dry (cs_cfg k)) && cfg_recover (cs_cfg k) &&
  no_fuelb (run_re (cs_cfg k) (beh_of (cs_beh k)) (nest_of (cr_nest c)) (dur_of (cs_dur k)) (cs_hist k)).

Theorem chk_C02_case_re c :
  case_re_ok c = true -> chk_C02 (cs_hist (cr_case c)) (model_obs_re c) = [].
Proof.
  unfold case_re_ok, model_obs_re. cbv zeta. intros H.
  repeat (apply andb_true_iff in H as [H ?]).
  destruct (wf_fns_re_sound _ _ H3) as [Hf Hnf].
  unfold run_re. apply chk_C02_re_nil; auto.
  - apply wf_nest_of. assumption.
  - destruct (cfg_dry (cs_cfg (cr_case c))); [discriminate|reflexivity].
  - intros o Hin E. unfold no_fuelb in H0. rewrite forallb_forall in H0.
    specialize (H0 o Hin). rewrite E in H0. discriminate.
Qed.
Print Assumptions chk_C02_case_re.

(* ====================================================================== *)
(* 13. Non-vacuity: the hypotheses hold of the re-entrant examples of P_Re  *)
(* ====================================================================== *)

Open Scope nat_scope.

Example ok_nested_demand_while_running : case_re_ok ex_nested_demand_while_running = true.
Proof. vm_compute. reflexivity. Qed.
Example ok_decorator_body : case_re_ok ex_decorator_body = true.
Proof. vm_compute. reflexivity. Qed.
Example ok_nested_fills_cache : case_re_ok ex_nested_fills_cache = true.
Proof. vm_compute. reflexivity. Qed.
(* a recovered panic inside a nested Invoke: of its constructor, of the invoked function itself *)
(* the constructor demanded by the nested Invoke panics and is recovered by its own frame; the nested
   Invoke returns a PanicError the body ignores (recorded implementation trace on the right) *)
Definition ex_nested_ctor_panic_recovered_impl : list oobs :=
  [(mkOObs OVOk []);
   (mkOObs OVOk []);
   (mkOObs OVOk [(EExec 0 0 RoleCtor [] (OOk [])); (EExec 1 0 RoleCtor [] OPanic); (ECallback 0 ENone 0%N); (EExec 2 0 RoleInv [(ASingle (AProd 0 0 0 0))] (OOk []))]);
   (mkOObs OVOk [(EExec 20 0 RoleInv [(ASingle (AProd 0 0 0 0))] (OOk []))])].
Definition ex_nested_ctor_panic_recovered : case_re :=
  mkCaseRe (mkCase (mkConfig false true false)
    [(1, [OPanic; OOk []])]
    []
    [OProvide 0 (mkProvideIn 0 (mkSig [] [(RSingle (mkKey 0 0 0) [])] false) false true);
     OProvide 0 (mkProvideIn 1 (mkSig [] [(RSingle (mkKey 1 0 0) [])] false) false false);
     OInvoke 0 (mkInvokeIn 2 (mkSig [(PSingle (mkKey 0 0 0) false)] [] false));
     OInvoke 0 (mkInvokeIn 20 (mkSig [(PSingle (mkKey 0 0 0) false)] [] false))]
    ex_nested_ctor_panic_recovered_impl)
    [(0, [(0, (0, mkInvokeIn 4 (mkSig [(PSingle (mkKey 1 0 0) false)] [] false))); (1, (0, mkInvokeIn 5 (mkSig [(PSingle (mkKey 1 0 0) false)] [] false)))])].
Example ex_nested_ctor_panic_recovered_agrees : model_obs_re ex_nested_ctor_panic_recovered = ex_nested_ctor_panic_recovered_impl.
Proof. vm_compute. reflexivity. Qed.

Example ok_nested_ctor_panic_recovered : case_re_ok ex_nested_ctor_panic_recovered = true.
Proof. vm_compute. reflexivity. Qed.
(* (P_Re.ex_nested_panic_recover names the SAME function in the requests of two executions:
   it is rightly outside wf_fns_re) *)
Example notok_shared_request : wf_fns_re (cs_hist (cr_case ex_nested_panic_recover)) (cr_nest ex_nested_panic_recover) = false.
Proof. vm_compute. reflexivity. Qed.
Example ok_nested_fn_panics_recover : case_re_ok ex_nested_fn_panics_recover = true.
Proof. vm_compute. reflexivity. Qed.

(* hence, by the theorem (not by evaluation of the checker) *)
Example C02_decorator_body : chk_C02 (cs_hist (cr_case ex_decorator_body)) (model_obs_re ex_decorator_body) = [].
Proof. apply chk_C02_case_re. exact ok_decorator_body. Qed.
Example C02_nested_ctor_panic_recovered :
  chk_C02 (cs_hist (cr_case ex_nested_ctor_panic_recovered)) (model_obs_re ex_nested_ctor_panic_recovered) = [].
Proof. apply chk_C02_case_re. exact ok_nested_ctor_panic_recovered. Qed.
Example C02_nested_fn_panics_recover :
  chk_C02 (cs_hist (cr_case ex_nested_fn_panics_recover)) (model_obs_re ex_nested_fn_panics_recover) = [].
Proof. apply chk_C02_case_re. exact ok_nested_fn_panics_recover. Qed.

(* and the hypothesis that matters fails, as it must, on the unwound body *)
Example notok_unwound : case_re_ok ex_nested_fn_panics_norecover = false.
Proof. vm_compute. reflexivity. Qed.
