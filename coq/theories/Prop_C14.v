(* Prop_C14.v — property theorems for C14, and nothing else: each statement is closed
   by `exact <lemma>` and followed by Print Assumptions. *)
From Dig Require Import Base Sig State Graph GraphProofs Register Resolve Run Spec Check
  ErrTable Err ErrTableCheck GoTypes Parse RunRaw P_Frame P_Term P_Parse P_Glue.

(* ---- C14: no Go value, signature, tag or option makes the parse stage panic;
        no history makes the model reach a branch in which dig would panic;
        malformed calls are answered with an error ---- *)
Theorem C14_parse_total : forall fn v o,
  match provide_parse fn v o with PPanic _ => False | _ => True end.
Proof. exact P_Parse.provide_parse_total. Qed.
Print Assumptions C14_parse_total.

Theorem C14_lower_total : forall r, lower_panics r = false.
Proof. exact P_Parse.lower_total. Qed.
Print Assumptions C14_lower_total.

Theorem C14_holds : forall cfg b du h, wf_scopes h = true -> wf_keys h = true ->
  chk_C14 h (map obs_of (run cfg b du h)) = [].
Proof. exact P_Term.chk_C14_nil. Qed.
Print Assumptions C14_holds.

(* ---- the same for every history dig's own parser produces: `raw_only rh` says that
        each operation of rh is a Scope call or a Provide / Decorate / Invoke of an
        arbitrary Go value of the grammar (GoTypes) with arbitrary options;
        `lower_op` parses it (Parse / RunRaw).  No well-formedness premise on keys
        is left: the parser establishes it (P_Glue.lowered_wf) ---- *)
Theorem C14_holds_raw : forall cfg b du rh, raw_only rh ->
  wf_scopes (map lower_op rh) = true ->
  chk_C14 (map lower_op rh) (map obs_of (run cfg b du (map lower_op rh))) = [].
Proof. exact P_Glue.C14_raw. Qed.
Print Assumptions C14_holds_raw.
