(* P_DotText.v — theorems about the text model DotText.v:
   - go_quote (strconv.Quote): go_unquote is a left inverse, the result is one
     double-quoted token, injectivity;
   - html_escape (html.EscapeString): the result is safe text, html_unescape is
     a left inverse; the labels built by Result.Attributes / Group.Attributes
     are well-formed HTML-like label content for EVERY names table (D11), and
     the printer without the escaping is not;
   - render nm g = print_dot (ast_of nm g) and every leaf token of ast_of nm g
     is well formed  (C19_text_wellformed);
   - distinct nodes print distinct quoted IDs, under explicit side conditions on
     the names table, with counterexamples when they are dropped;
   - render reproduces byte for byte texts written by the Go program. *)
From Coq Require Import String Ascii.
From Dig Require Import Base Sig State Graph Register Resolve Run Spec Check Dot RunViz DotText.
Local Open Scope string_scope.
Local Open Scope nat_scope.

(* ------------------------------------------------------------------ *)
(* strings *)

Lemma app_assoc_s : forall a b c : string, ((a ++ b) ++ c = a ++ (b ++ c))%string.
Proof. induction a as [|x a IH]; intros b c; cbn; [reflexivity | now rewrite IH]. Qed.

Lemma app_nil_r_s : forall a : string, (a ++ "" = a)%string.
Proof. induction a as [|x a IH]; cbn; [reflexivity | now rewrite IH]. Qed.

Lemma sconcat_app : forall l1 l2, sconcat (l1 ++ l2)%list = (sconcat l1 ++ sconcat l2)%string.
Proof.
  induction l1 as [|x l1 IH]; intros l2; cbn; [reflexivity|].
  now rewrite IH, app_assoc_s.
Qed.

Lemma sconcat_map_flat_map {A B} (p : B -> string) (f : A -> list B) (l : list A) :
  sconcat (map p (flat_map f l)) = sconcat (map (fun x => sconcat (map p (f x))) l).
Proof.
  induction l as [|x l IH]; cbn; [reflexivity|].
  now rewrite map_app, sconcat_app, IH.
Qed.

Lemma all_chars_app p a b : all_chars p (a ++ b)%string = all_chars p a && all_chars p b.
Proof. induction a as [|x a IH]; cbn; [reflexivity|]. now rewrite IH, andb_assoc. Qed.

Lemma forallb_flat_map {A B} (p : B -> bool) (f : A -> list B) (l : list A) :
  (forall x, forallb p (f x) = true) -> forallb p (flat_map f l) = true.
Proof.
  intros H. induction l as [|x l IH]; cbn; [reflexivity|].
  now rewrite forallb_app, H, IH.
Qed.

(* ------------------------------------------------------------------ *)
(* strconv.Quote *)

Lemma unq_char : forall c r,
  unq_body (quote_char c ++ r)%string = option_map (String c) (unq_body r).
Proof. intros [[] [] [] [] [] [] [] []] r; cbn; reflexivity. Qed.

Lemma unq_quote_body : forall s, unq_body (quote_body s ++ String dq "")%string = Some s.
Proof.
  induction s as [|c s IH]; [reflexivity|].
  cbn [quote_body]. now rewrite app_assoc_s, unq_char, IH.
Qed.

(* go_unquote is a left inverse of go_quote.  No hypothesis is needed for the
   model; it is a statement about strconv.Quote for [ascii7 s = true]. *)
Theorem go_unquote_quote : forall s, go_unquote (go_quote s) = Some s.
Proof. intros s. unfold go_quote, go_unquote. cbn. apply unq_quote_body. Qed.

Corollary go_unquote_quote_ascii7 : forall s, ascii7 s = true -> go_unquote (go_quote s) = Some s.
Proof. intros s _. apply go_unquote_quote. Qed.

Corollary go_quote_inj : forall s1 s2, go_quote s1 = go_quote s2 -> s1 = s2.
Proof.
  intros s1 s2 H. generalize (go_unquote_quote s1). rewrite H, go_unquote_quote. congruence.
Qed.

Lemma dq_char : forall c r, dq_body (quote_char c ++ r)%string = dq_body r.
Proof. intros [[] [] [] [] [] [] [] []] r; cbn; reflexivity. Qed.

Lemma dq_quote_body : forall s, dq_body (quote_body s ++ String dq "")%string = true.
Proof.
  induction s as [|c s IH]; [reflexivity|].
  cbn [quote_body]. now rewrite app_assoc_s, dq_char.
Qed.

(* what strconv.Quote returns is one double-quoted token, for ALL strings *)
Theorem dq_ok_go_quote : forall s, dq_ok (go_quote s) = true.
Proof. intros s. unfold go_quote, dq_ok. cbn. apply dq_quote_body. Qed.

(* ------------------------------------------------------------------ *)
(* html.EscapeString *)

Lemma safe_char : forall c r, text_safe (esc_char c ++ r)%string = text_safe r.
Proof. intros [[] [] [] [] [] [] [] []] r; cbn; reflexivity. Qed.

Lemma text_safe_escape_app : forall s r, text_safe (html_escape s ++ r)%string = text_safe r.
Proof.
  induction s as [|c s IH]; intros r; [reflexivity|].
  cbn [html_escape]. now rewrite app_assoc_s, safe_char.
Qed.

(* escaped text has no raw <, >, double or single quote, and every & starts
   one of the five entities — for ALL strings *)
Theorem html_escape_safe : forall s, text_safe (html_escape s) = true.
Proof. intros s. rewrite <- (app_nil_r_s (html_escape s)). apply text_safe_escape_app. Qed.

Lemma unesc_char : forall c r, unesc 0 (esc_char c ++ r)%string = String c (unesc 0 r).
Proof. intros [[] [] [] [] [] [] [] []] r; cbn; reflexivity. Qed.

Theorem html_unescape_escape : forall s, html_unescape (html_escape s) = s.
Proof.
  unfold html_unescape. induction s as [|c s IH]; [reflexivity|].
  cbn [html_escape]. now rewrite unesc_char, IH.
Qed.

Corollary html_escape_inj : forall s1 s2, html_escape s1 = html_escape s2 -> s1 = s2.
Proof. intros s1 s2 H. rewrite <- (html_unescape_escape s1), H. apply html_unescape_escape. Qed.

(* inside a label: escaped text is passed over, at any nesting depth *)
Lemma lab_char : forall c d r, lab_ok 0 d (esc_char c ++ r)%string = lab_ok 0 d r.
Proof. intros [[] [] [] [] [] [] [] []] d r; cbn; reflexivity. Qed.

Lemma lab_escape : forall s d r, lab_ok 0 d (html_escape s ++ r)%string = lab_ok 0 d r.
Proof.
  induction s as [|c s IH]; intros d r; [reflexivity|].
  cbn [html_escape]. now rewrite app_assoc_s, lab_char.
Qed.

Lemma lab_escape_end : forall s d, lab_ok 0 d (html_escape s) = (d =? 0).
Proof. intros s d. rewrite <- (app_nil_r_s (html_escape s)), lab_escape. reflexivity. Qed.

(* more generally: any safe text is passed over *)
Lemma entity_ok_app : forall a r, entity_ok a = true -> entity_ok (a ++ r)%string = true.
Proof.
  assert (SW : forall p a r, starts_with p a = true -> starts_with p (a ++ r)%string = true).
  { induction p as [|x p IH]; intros a r H; [reflexivity|].
    destruct a as [|y a]; [discriminate|]. cbn in *.
    apply andb_true_iff in H as [H1 H2]. now rewrite H1, (IH _ _ H2). }
  intros a r. unfold entity_ok, entity_at. intros H.
  destruct (starts_with "amp;" a) eqn:E1; [now rewrite (SW _ _ r E1)|].
  destruct (starts_with "lt;" a) eqn:E2; [rewrite (SW _ _ r E2); now destruct (starts_with "amp;" (a ++ r))|].
  destruct (starts_with "gt;" a) eqn:E3;
    [rewrite (SW _ _ r E3); now destruct (starts_with "amp;" (a ++ r)), (starts_with "lt;" (a ++ r))|].
  destruct (starts_with "#34;" a) eqn:E4;
    [rewrite (SW _ _ r E4);
     now destruct (starts_with "amp;" (a ++ r)), (starts_with "lt;" (a ++ r)), (starts_with "gt;" (a ++ r))|].
  destruct (starts_with "#39;" a) eqn:E5; [|discriminate].
  rewrite (SW _ _ r E5).
  now destruct (starts_with "amp;" (a ++ r)), (starts_with "lt;" (a ++ r)), (starts_with "gt;" (a ++ r)),
               (starts_with "#34;" (a ++ r)).
Qed.

Lemma lab_safe_text : forall t d r, text_safe t = true -> lab_ok 0 d (t ++ r)%string = lab_ok 0 d r.
Proof.
  induction t as [|c t IH]; intros d r H; [reflexivity|].
  cbn [text_safe] in H. cbn [append lab_ok].
  destruct (Ascii.eqb c "<") eqn:E1; [discriminate|].
  destruct (Ascii.eqb c ">") eqn:E2; [discriminate|].
  cbn [orb] in H.
  destruct (Ascii.eqb c dq || Ascii.eqb c "'")%bool; [discriminate|].
  destruct (Ascii.eqb c "&").
  - apply andb_true_iff in H as [H1 H2]. rewrite (entity_ok_app _ r H1). cbn. now apply IH.
  - now apply IH.
Qed.

(* the fixed pieces of the labels *)
Lemma lab_tail_font : forall s, lab_ok 0 1 (html_escape s ++ "</FONT>")%string = true.
Proof. intros s. now rewrite lab_escape. Qed.

Lemma lab_name_part : forall s d,
  lab_ok 0 d ("<BR />" ++ font_open ++ "Name: " ++ html_escape s ++ "</FONT>")%string = (d =? 0).
Proof. intros s d. cbn. rewrite lab_escape. cbn. reflexivity. Qed.

Lemma lab_group_part : forall s d,
  lab_ok 0 d ("<BR />" ++ font_open ++ "Group: " ++ html_escape s ++ "</FONT>")%string = (d =? 0).
Proof. intros s d. cbn. rewrite lab_escape. cbn. reflexivity. Qed.

(* D11: whatever the type, name and group strings are, the label of a result
   node and of a group node is well-formed HTML-like label content *)
Theorem result_label_ok : forall nm r, html_label_ok (result_label nm r) = true.
Proof.
  intros nm r. unfold html_label_ok, result_label, result_label_with.
  destruct (negb (is_empty (name_of nm (dn_name (dr_node r))))).
  - now rewrite lab_escape, lab_name_part.
  - destruct (negb (is_empty (group_of nm (dn_group (dr_node r))))).
    + now rewrite lab_escape, lab_group_part.
    + now rewrite lab_escape_end.
Qed.

Theorem group_label_ok : forall nm g, html_label_ok (group_label nm g) = true.
Proof.
  intros nm g. unfold html_label_ok, group_label, group_label_with.
  now rewrite lab_escape, lab_group_part.
Qed.

(* the attribute strings are  label=< well-formed content >  *)
Theorem result_attrs_ok : forall nm r,
  exists body, result_attrs nm r = ("label=<" ++ body ++ ">")%string /\ html_label_ok body = true.
Proof. intros nm r. exists (result_label nm r). split; [reflexivity | apply result_label_ok]. Qed.

Theorem group_attrs_ok : forall nm g,
  exists body rest, group_attrs nm g = ("shape=diamond label=<" ++ body ++ ">" ++ rest)%string /\
                    html_label_ok body = true /\
                    (rest = "" \/ rest = " color=red" \/ rest = " color=orange")%string.
Proof.
  intros nm g. exists (group_label nm g).
  exists (match dg_err g with ENoError => "" | e => " color=" ++ color_of e end)%string.
  split; [reflexivity|]. split; [apply group_label_ok|].
  destruct (dg_err g); cbn; auto.
Qed.

(* the printer before the fix (no escaping) violates it: a type string with < *)
Definition nm_d11 : names :=
  mkNames (fun t => match t with 0 => "func(<-chan int)" | 1 => "map[string]*T" | _ => "<-chan int" end)
          (fun _ => "n<3>&") (fun _ => "g1") (fun _ => "P0") (fun _ => "main").

Example D11_unescaped_type_breaks_label :
  html_label_ok (result_label_with (fun s => s) nm_d11 (mkDR (mkDN 0 0 0) 0)) = false /\
  html_label_ok (result_label nm_d11 (mkDR (mkDN 0 0 0) 0)) = true /\
  result_label nm_d11 (mkDR (mkDN 0 0 0) 0) = "func(&lt;-chan int)".
Proof. repeat split. Qed.

Example D11_unescaped_name_breaks_label :
  html_label_ok (result_label_with (fun s => s) nm_d11 (mkDR (mkDN 1 3 0) 0)) = false /\
  result_label nm_d11 (mkDR (mkDN 1 3 0) 0) =
    "map[string]*T<BR /><FONT POINT-SIZE=""10"">Name: n&lt;3&gt;&amp;</FONT>".
Proof. repeat split. Qed.

(* ------------------------------------------------------------------ *)
(* numerals and identifiers *)

Lemma is_digit_digit_char : forall k, is_digit (digit_char k) = true.
Proof. do 10 (destruct k as [|k]; [reflexivity|]). reflexivity. Qed.

Lemma dec_aux_digits : forall f n acc,
  all_chars is_digit acc = true -> all_chars is_digit (dec_aux f n acc) = true.
Proof.
  induction f as [|f IH]; intros n acc H; cbn [dec_aux]; [exact H|].
  assert (H' : all_chars is_digit (String (digit_char (n mod 10)) acc) = true).
  { cbn [all_chars]. now rewrite is_digit_digit_char, H. }
  destruct (n / 10); [exact H' | now apply IH].
Qed.

Lemma dec_aux_nonempty : forall f n acc, is_empty (dec_aux (S f) n acc) = false.
Proof.
  assert (G : forall f n acc, is_empty acc = false -> is_empty (dec_aux f n acc) = false).
  { induction f as [|f IH]; intros n acc H; cbn [dec_aux]; [exact H|].
    destruct (n / 10); [reflexivity | now apply IH]. }
  intros f n acc. cbn [dec_aux]. destruct (n / 10); [reflexivity | now apply G].
Qed.

Theorem dec_numeral : forall n, numeral_ok (dec n) = true.
Proof.
  intros n. unfold numeral_ok, dec. rewrite dec_aux_nonempty. cbn [negb andb].
  now apply dec_aux_digits.
Qed.

Lemma dec_idchars : forall n, all_chars is_idchar (dec n) = true.
Proof.
  intros n. generalize (dec_numeral n). unfold numeral_ok. intros H.
  apply andb_true_iff in H as [_ H]. revert H. generalize (dec n).
  induction s as [|c s IH]; cbn [all_chars]; [reflexivity|]. intros H.
  apply andb_true_iff in H as [H1 H2]. unfold is_idchar at 1. now rewrite H1, orb_true_r, IH.
Qed.

Lemma cluster_id_ident : forall i, ident_ok (cluster_id i) = true.
Proof. intros i. unfold cluster_id. cbn. apply dec_idchars. Qed.

Lemma ctor_id_ident : forall i, ident_ok (ctor_id i) = true.
Proof. intros i. unfold ctor_id. cbn. apply dec_idchars. Qed.

(* ------------------------------------------------------------------ *)
(* the text is the print of an abstract syntax tree *)

Ltac snorm :=
  repeat (rewrite ?app_assoc_s, ?app_nil_r_s;
          cbn [append sconcat map print_item print_sitem print_stmt print_id print_alist print_attrs
               print_attr List.app qid]).

Lemma print_items_app : forall a b,
  sconcat (map print_item (a ++ b)%list) = (sconcat (map print_item a) ++ sconcat (map print_item b))%string.
Proof. intros a b. now rewrite map_app, sconcat_app. Qed.

Lemma print_sitems_app : forall a b,
  sconcat (map print_sitem (a ++ b)%list) = (sconcat (map print_sitem a) ++ sconcat (map print_sitem b))%string.
Proof. intros a b. now rewrite map_app, sconcat_app. Qed.

Lemma print_group_edge : forall nm t r,
  sconcat (map print_item (group_edge_items nm (IdQuoted t) r)) = render_group_edge nm t r.
Proof. intros nm t r. unfold group_edge_items, render_group_edge. snorm. reflexivity. Qed.

Lemma print_group_items : forall nm g, sconcat (map print_item (group_items nm g)) = render_group nm g.
Proof.
  intros nm g. unfold group_items, render_group, group_attrs, qid.
  rewrite !print_items_app, sconcat_map_flat_map.
  rewrite (map_ext _ _ (print_group_edge nm _)).
  destruct (dg_err g); snorm; reflexivity.
Qed.

Lemma print_result_items : forall nm r,
  sconcat (map print_sitem (result_items nm r)) = render_result_line nm r.
Proof. intros nm r. unfold result_items, render_result_line, result_attrs. snorm. reflexivity. Qed.

Lemma print_param_items : forall nm i p,
  sconcat (map print_item (param_items nm i p)) = render_param_line nm i p.
Proof.
  intros nm i p. unfold param_items, render_param_line, ctor_id, cluster_id.
  destruct (dp_opt p); snorm; reflexivity.
Qed.

Lemma print_gparam_items : forall nm i k,
  sconcat (map print_item (gparam_items nm i k)) = render_gparam_line nm i k.
Proof. intros nm i k. unfold gparam_items, render_gparam_line, ctor_id, cluster_id. snorm. reflexivity. Qed.

Lemma print_ctor_items : forall nm i c, sconcat (map print_item (ctor_items nm i c)) = render_ctor nm i c.
Proof.
  intros nm i c. unfold ctor_items, render_ctor.
  rewrite !print_items_app, !sconcat_map_flat_map.
  rewrite (map_ext _ _ (print_param_items nm i)), (map_ext _ _ (print_gparam_items nm i)).
  cbn [map sconcat print_item]. unfold cluster_body.
  rewrite !print_sitems_app, sconcat_map_flat_map, (map_ext _ _ (print_result_items nm)).
  unfold ctor_id, cluster_id.
  destruct (is_empty (fn_pkg nm (oc_fn c))), (oc_err c); snorm; reflexivity.
Qed.

Lemma print_ctors_items : forall nm cs i,
  sconcat (map print_item (ctors_items nm i cs)) = render_ctors nm i cs.
Proof.
  induction cs as [|c cs IH]; intros i; [reflexivity|].
  cbn [ctors_items render_ctors]. now rewrite print_items_app, print_ctor_items, IH.
Qed.

Lemma print_failed_items : forall nm col f,
  sconcat (map print_item (failed_items nm col f)) = render_failed nm col f.
Proof. intros nm col f. unfold failed_items, render_failed. snorm. reflexivity. Qed.

(* the text written by visualizeGraph is the print of the tree [ast_of nm g]:
   it is syntactically valid DOT by construction *)
Theorem render_is_print : forall nm g, render nm g = print_dot (ast_of nm g).
Proof.
  intros nm g. unfold render, print_dot, ast_of.
  rewrite !print_items_app, !sconcat_map_flat_map.
  rewrite (map_ext _ _ (print_group_items nm)), print_ctors_items,
          (map_ext _ _ (print_failed_items nm "orange")), (map_ext _ _ (print_failed_items nm "red")).
  snorm. reflexivity.
Qed.

(* ------------------------------------------------------------------ *)
(* every leaf token of the tree is well formed *)

Lemma qid_wf : forall s, id_wf (qid s) = true.
Proof. intros s. apply dq_ok_go_quote. Qed.

Lemma color_ident : forall e, ident_ok (color_of e) = true.
Proof. intros []; reflexivity. Qed.

Ltac wf_leaves :=
  cbn [forallb item_wf sitem_wf stmt_wf attr_wf id_wf List.app andb];
  rewrite ?qid_wf, ?dq_ok_go_quote, ?group_label_ok, ?result_label_ok, ?cluster_id_ident,
          ?ctor_id_ident, ?color_ident;
  try reflexivity.

Lemma group_edge_items_wf : forall nm s r, forallb item_wf (group_edge_items nm (qid s) r) = true.
Proof. intros nm s r. unfold group_edge_items. wf_leaves. Qed.

Lemma group_items_wf : forall nm g, forallb item_wf (group_items nm g) = true.
Proof.
  intros nm g. unfold group_items.
  rewrite !forallb_app, (forallb_flat_map _ _ _ (group_edge_items_wf nm _)).
  destruct (dg_err g); wf_leaves.
Qed.

Lemma result_items_wf : forall nm r, forallb sitem_wf (result_items nm r) = true.
Proof. intros nm r. unfold result_items. wf_leaves. Qed.

Lemma param_items_wf : forall nm i p, forallb item_wf (param_items nm i p) = true.
Proof. intros nm i p. unfold param_items. destruct (dp_opt p); wf_leaves. Qed.

Lemma gparam_items_wf : forall nm i k, forallb item_wf (gparam_items nm i k) = true.
Proof. intros nm i k. unfold gparam_items. wf_leaves. Qed.

Lemma cluster_body_wf : forall nm i c, forallb sitem_wf (cluster_body nm i c) = true.
Proof.
  intros nm i c. unfold cluster_body.
  rewrite !forallb_app, (forallb_flat_map _ _ _ (result_items_wf nm)).
  destruct (is_empty (fn_pkg nm (oc_fn c))), (oc_err c); wf_leaves.
Qed.

Lemma ctor_items_wf : forall nm i c, forallb item_wf (ctor_items nm i c) = true.
Proof.
  intros nm i c. unfold ctor_items.
  rewrite !forallb_app, (forallb_flat_map _ _ _ (param_items_wf nm i)),
          (forallb_flat_map _ _ _ (gparam_items_wf nm i)).
  cbn [forallb item_wf]. rewrite cluster_id_ident, cluster_body_wf. reflexivity.
Qed.

Lemma ctors_items_wf : forall nm cs i, forallb item_wf (ctors_items nm i cs) = true.
Proof.
  induction cs as [|c cs IH]; intros i; [reflexivity|].
  cbn [ctors_items]. now rewrite forallb_app, ctor_items_wf, IH.
Qed.

Lemma failed_items_wf : forall nm col f, ident_ok col = true -> forallb item_wf (failed_items nm col f) = true.
Proof. intros nm col f H. unfold failed_items. wf_leaves. now rewrite H. Qed.

Theorem ast_of_wf : forall nm g, ast_wf (ast_of nm g) = true.
Proof.
  intros nm g. unfold ast_wf, ast_of.
  rewrite !forallb_app, (forallb_flat_map _ _ _ (group_items_wf nm)), ctors_items_wf,
          (forallb_flat_map _ _ _ (fun f => failed_items_wf nm "orange" f eq_refl)),
          (forallb_flat_map _ _ _ (fun f => failed_items_wf nm "red" f eq_refl)).
  reflexivity.
Qed.

(* C19, text part.  For every names table (whatever bytes the type, name,
   group, function and package strings contain) and every printed structure:
   the text Visualize writes is the print of a DOT syntax tree, and in that
   tree every bare ID is an identifier or a numeral, every quoted ID is one
   double-quoted token, every HTML string is well-formed label content, and
   what stands between statements is white space. *)
Theorem C19_text_wellformed : forall nm g,
  render nm g = print_dot (ast_of nm g) /\ ast_wf (ast_of nm g) = true.
Proof. intros nm g. split; [apply render_is_print | apply ast_of_wf]. Qed.

(* the same along a run of the model: after every operation of every history *)
Corollary C19_text_wellformed_run : forall nm c g ge,
  In (g, ge) (model_viz c) ->
  (render nm g = print_dot (ast_of nm g) /\ ast_wf (ast_of nm g) = true) /\
  (forall g2, ge = Some g2 -> render nm g2 = print_dot (ast_of nm g2) /\ ast_wf (ast_of nm g2) = true).
Proof. intros nm c g ge _. split; [|intros g2 _]; apply C19_text_wellformed. Qed.

(* ------------------------------------------------------------------ *)
(* distinct nodes print distinct quoted IDs *)

Fixpoint has_char (c : ascii) (s : string) : bool :=
  match s with "" => false | String x r => Ascii.eqb x c || has_char c r end.

Lemma has_char_app : forall c a b, has_char c (a ++ b)%string = has_char c a || has_char c b.
Proof. induction a as [|x a IH]; intros b; cbn; [reflexivity|]. now rewrite IH, orb_assoc. Qed.

Lemma has_char_mid : forall c a b, has_char c (a ++ String c b)%string = true.
Proof. intros c a b. rewrite has_char_app. cbn. rewrite Ascii.eqb_refl. apply orb_true_r. Qed.

Lemma all_chars_no_char : forall p c s, all_chars p s = true -> p c = false -> has_char c s = false.
Proof.
  induction s as [|x s IH]; cbn; intros H Hc; [reflexivity|].
  apply andb_true_iff in H as [H1 H2]. rewrite (IH H2 Hc), orb_false_r.
  destruct (Ascii.eqb x c) eqn:E; [|reflexivity]. apply Ascii.eqb_eq in E. congruence.
Qed.

Lemma dec_no_char : forall c n, is_digit c = false -> has_char c (dec n) = false.
Proof.
  intros c n H. apply (all_chars_no_char is_digit); [|exact H].
  generalize (dec_numeral n). unfold numeral_ok. intros G. now apply andb_true_iff in G as [_ G].
Qed.

(* cut at the FIRST occurrence of c / at the LAST occurrence of c *)
Lemma split_first : forall c a a' b b',
  has_char c a = false -> has_char c a' = false ->
  (a ++ String c b = a' ++ String c b')%string -> a = a' /\ b = b'.
Proof.
  induction a as [|x a IH]; intros [|y a'] b b' Ha Ha' E; cbn in *.
  - injection E as E. now split.
  - injection E as E1 E2. subst y. now rewrite Ascii.eqb_refl in Ha'.
  - injection E as E1 E2. subst x. now rewrite Ascii.eqb_refl in Ha.
  - injection E as E1 E2. subst y.
    apply orb_false_iff in Ha as [_ Ha]. apply orb_false_iff in Ha' as [_ Ha'].
    destruct (IH _ _ _ Ha Ha' E2) as [-> ->]. now split.
Qed.

Lemma split_last : forall c a a' b b',
  has_char c b = false -> has_char c b' = false ->
  (a ++ String c b = a' ++ String c b')%string -> a = a' /\ b = b'.
Proof.
  induction a as [|x a IH]; intros [|y a'] b b' Hb Hb' E; cbn in *.
  - injection E as E. now split.
  - injection E as E1 E2. subst b. now rewrite has_char_mid in Hb.
  - injection E as E1 E2. subst b'. now rewrite has_char_mid in Hb'.
  - injection E as E1 E2. subst y. destruct (IH _ _ _ Hb Hb' E2) as [-> ->]. now split.
Qed.

Lemma app_inv_tail_char : forall c a a', (a ++ String c "" = a' ++ String c "")%string -> a = a'.
Proof. intros c a a' E. now destruct (split_last c a a' "" "" eq_refl eq_refl E). Qed.

Lemma is_empty_true : forall s, is_empty s = true -> s = "".
Proof. intros [|x s]; [reflexivity | discriminate]. Qed.

(* The side conditions, on the codes involved only (TY, NM, GR are the sets of
   type, name and group codes in use): the three tables are injective on them
   (for names and groups: as printed, i.e. with code 0 printing as the empty
   string, so no other code in use may print as the empty string), and no type
   string in use contains the byte "=".  Nothing is required of the bytes of
   names and groups. *)
Record names_distinct (nm : names) (TY NM GR : nat -> Prop) : Prop := mkND {
  nd_ty : forall a b, TY a -> TY b -> ty_str nm a = ty_str nm b -> a = b;
  nd_name : forall a b, NM a -> NM b -> name_of nm a = name_of nm b -> a = b;
  nd_group : forall a b, GR a -> GR b -> group_of nm a = group_of nm b -> a = b;
  nd_ty_noeq : forall t, TY t -> has_char "=" (ty_str nm t) = false
}.
Arguments nd_ty {nm TY NM GR}. Arguments nd_name {nm TY NM GR}.
Arguments nd_group {nm TY NM GR}. Arguments nd_ty_noeq {nm TY NM GR}.

Definition node_in (TY NM GR : nat -> Prop) (d : dnode) : Prop :=
  TY (dn_ty d) /\ NM (dn_name d) /\ GR (dn_group d).

Section Distinct.
  Variable nm : names.
  Variables TY NM GR : nat -> Prop.
  Hypothesis ND : names_distinct nm TY NM GR.

  Lemma ty_cut_eq : forall t t' u u' (x x' : string),
    TY t -> TY t' -> has_char "=" u = false -> has_char "=" u' = false ->
    (ty_str nm t ++ u ++ String "=" x = ty_str nm t' ++ u' ++ String "=" x')%string ->
    (ty_str nm t ++ u = ty_str nm t' ++ u')%string /\ x = x'.
  Proof.
    intros t t' u u' x x' Ht Ht' Hu Hu' E. rewrite <- !app_assoc_s in E.
    apply split_first in E; [exact E| |]; now rewrite has_char_app, (nd_ty_noeq ND), ?Hu, ?Hu'.
  Qed.

  Lemma ty_not_with_eq : forall t t' u (x : string),
    TY t -> ty_str nm t = (ty_str nm t' ++ u ++ String "=" x)%string -> False.
  Proof.
    intros t t' u x Ht E. generalize (nd_ty_noeq ND t Ht). rewrite E, <- app_assoc_s, has_char_mid. discriminate.
  Qed.

  (* Param.String *)
  Theorem param_str_inj : forall a b,
    node_in TY NM GR a -> node_in TY NM GR b ->
    dn_group a = dn_group b -> param_str nm a = param_str nm b -> a = b.
  Proof.
    intros [ta na ga] [tb nb gb] (Ta & Na & _) (Tb & Nb & _). unfold param_str.
    cbn [dn_ty dn_name dn_group] in *. intros -> E.
    destruct (is_empty (name_of nm na)) eqn:Ea, (is_empty (name_of nm nb)) eqn:Eb.
    - apply is_empty_true in Ea, Eb.
      f_equal; [now apply (nd_ty ND) | apply (nd_name ND); congruence].
    - exfalso. exact (ty_not_with_eq _ _ "[name" _ Ta E).
    - exfalso. symmetry in E. exact (ty_not_with_eq _ _ "[name" _ Tb E).
    - apply (ty_cut_eq _ _ "[name" "[name") in E; [|assumption|assumption|reflexivity|reflexivity].
      destruct E as [E1 E2].
      apply (split_last "[" _ _ "name" "name" eq_refl eq_refl) in E1 as [E1 _].
      apply app_inv_tail_char in E2.
      f_equal; [now apply (nd_ty ND) | now apply (nd_name ND)].
  Qed.

  (* Result.String; a node has a name or a group, not both (dig rejects both) *)
  Theorem result_str_inj : forall a b i j,
    node_in TY NM GR a -> node_in TY NM GR b ->
    (dn_name a = 0 \/ dn_group a = 0) -> (dn_name b = 0 \/ dn_group b = 0) ->
    result_str nm (mkDR a i) = result_str nm (mkDR b j) -> a = b.
  Proof.
    intros [ta na ga] [tb nb gb] i j (Ta & Na & Ga) (Tb & Nb & Gb). unfold result_str.
    cbn [dr_node dr_gidx dn_ty dn_name dn_group] in *. intros Ha Hb E.
    assert (GA : is_empty (name_of nm na) = false -> ga = 0).
    { intros H. destruct Ha as [->|Ha]; [discriminate H | exact Ha]. }
    assert (GB : is_empty (name_of nm nb) = false -> gb = 0).
    { intros H. destruct Hb as [->|Hb]; [discriminate H | exact Hb]. }
    destruct (is_empty (name_of nm na)) eqn:Ea, (is_empty (name_of nm nb)) eqn:Eb; cbn [negb] in E.
    - (* no names *)
      apply is_empty_true in Ea, Eb.
      assert (na = nb) by (apply (nd_name ND); congruence). subst nb.
      destruct (is_empty (group_of nm ga)) eqn:Ega, (is_empty (group_of nm gb)) eqn:Egb; cbn [negb] in E.
      + apply is_empty_true in Ega, Egb.
        f_equal; [now apply (nd_ty ND) | apply (nd_group ND); congruence].
      + exfalso. exact (ty_not_with_eq _ _ "[group" _ Ta E).
      + exfalso. symmetry in E. exact (ty_not_with_eq _ _ "[group" _ Tb E).
      + apply (ty_cut_eq _ _ "[group" "[group") in E; [|assumption|assumption|reflexivity|reflexivity].
        destruct E as [E1 E2].
        apply (split_last "[" _ _ "group" "group" eq_refl eq_refl) in E1 as [E1 _].
        apply split_last in E2; [|now apply dec_no_char|now apply dec_no_char].
        destruct E2 as [E2 _].
        f_equal; [now apply (nd_ty ND) | now apply (nd_group ND)].
    - (* plain or grouped against named *)
      exfalso. destruct (negb (is_empty (group_of nm ga))).
      + apply (ty_cut_eq _ _ "[group" "[name") in E; [|assumption|assumption|reflexivity|reflexivity].
        destruct E as [E1 _].
        apply (split_last "[" _ _ "group" "name" eq_refl eq_refl) in E1 as [_ E1]. discriminate E1.
      + exact (ty_not_with_eq _ _ "[name" _ Ta E).
    - exfalso. destruct (negb (is_empty (group_of nm gb))).
      + apply (ty_cut_eq _ _ "[name" "[group") in E; [|assumption|assumption|reflexivity|reflexivity].
        destruct E as [E1 _].
        apply (split_last "[" _ _ "name" "group" eq_refl eq_refl) in E1 as [_ E1]. discriminate E1.
      + symmetry in E. exact (ty_not_with_eq _ _ "[name" _ Tb E).
    - (* both named *)
      rewrite (GA eq_refl), (GB eq_refl).
      apply (ty_cut_eq _ _ "[name" "[name") in E; [|assumption|assumption|reflexivity|reflexivity].
      destruct E as [E1 E2].
      apply (split_last "[" _ _ "name" "name" eq_refl eq_refl) in E1 as [E1 _].
      apply app_inv_tail_char in E2.
      f_equal; [now apply (nd_ty ND) | now apply (nd_name ND)].
  Qed.

  (* Group.String *)
  Theorem group_str_of_inj : forall a b,
    node_in TY NM GR a -> node_in TY NM GR b ->
    dn_name a = dn_name b -> group_str_of nm a = group_str_of nm b -> a = b.
  Proof.
    intros [ta na ga] [tb nb gb] (Ta & _ & Ga) (Tb & _ & Gb). unfold group_str_of.
    cbn [dn_ty dn_name dn_group] in *. intros -> E.
    cbn [append] in E. injection E as E.
    apply (ty_cut_eq _ _ " group" " group") in E; [|assumption|assumption|reflexivity|reflexivity].
    destruct E as [E1 E2].
    apply (split_last " " _ _ "group" "group" eq_refl eq_refl) in E1 as [E1 _].
    apply app_inv_tail_char in E2.
    f_equal; [now apply (nd_ty ND) | now apply (nd_group ND)].
  Qed.

  (* the quoted IDs in the text *)
  Corollary param_ids_distinct : forall a b,
    node_in TY NM GR a -> node_in TY NM GR b ->
    dn_group a = dn_group b -> a <> b -> qid (param_str nm a) <> qid (param_str nm b).
  Proof.
    intros a b Ia Ib Hg Hab E. apply Hab. apply param_str_inj; [exact Ia|exact Ib|exact Hg|].
    apply go_quote_inj. exact (f_equal print_id E).
  Qed.

  Corollary result_ids_distinct : forall a b i j,
    node_in TY NM GR a -> node_in TY NM GR b ->
    (dn_name a = 0 \/ dn_group a = 0) -> (dn_name b = 0 \/ dn_group b = 0) ->
    a <> b -> qid (result_str nm (mkDR a i)) <> qid (result_str nm (mkDR b j)).
  Proof.
    intros a b i j Ia Ib Ha Hb Hab E. apply Hab. apply (result_str_inj a b i j Ia Ib Ha Hb).
    apply go_quote_inj. exact (f_equal print_id E).
  Qed.

  Corollary group_ids_distinct : forall a b,
    node_in TY NM GR a -> node_in TY NM GR b ->
    dn_name a = dn_name b -> a <> b -> qid (group_str_of nm a) <> qid (group_str_of nm b).
  Proof.
    intros a b Ia Ib Hn Hab E. apply Hab. apply group_str_of_inj; [exact Ia|exact Ib|exact Hn|].
    apply go_quote_inj. exact (f_equal print_id E).
  Qed.
End Distinct.

(* The condition on "=" cannot be dropped: with a type string that contains
   "[name=" an unnamed node and a named node of another type get the same ID.
   (Synthetic: the identifiers, brackets and punctuation of Go type strings
   cannot spell "[name=" outside a struct tag.) *)
Definition nm_collide : names :=
  mkNames (fun t => match t with 1 => "T" | _ => "T[name=n1]" end)
          (fun _ => "n1") (fun _ => "g1") (fun _ => "P0") (fun _ => "main").

Example eq_in_type_string_collides :
  param_str nm_collide (mkDN 1 1 0) = param_str nm_collide (mkDN 2 0 0) /\
  result_str nm_collide (mkDR (mkDN 1 1 0) 0) = result_str nm_collide (mkDR (mkDN 2 0 0) 0).
Proof. split; reflexivity. Qed.

(* Injectivity of the type table cannot be dropped either, and Go does not
   guarantee it: distinct reflect.Types can have the same String() (types of
   the same name declared in two functions, or in two packages whose import
   paths end alike).  dig keys its graph on reflect.Type but prints
   Type.String(): such nodes are merged in the picture. *)
Definition nm_same_string : names :=
  mkNames (fun _ => "main.T") (fun _ => "n1") (fun _ => "g1") (fun _ => "P0") (fun _ => "main").

Example same_type_string_collides :
  mkDN 1 0 0 <> mkDN 2 0 0 /\ qid (param_str nm_same_string (mkDN 1 0 0)) = qid (param_str nm_same_string (mkDN 2 0 0)).
Proof. split; [discriminate | reflexivity]. Qed.

(* ------------------------------------------------------------------ *)
(* texts written by the Go program (harness/, `harness cases`), reproduced
   byte for byte.  The literals below contain tabs and lines that consist of
   tabs only: do not let an editor strip trailing white space. *)

(* tables printed by `harness names`: the palette of the harness, name and group
   codes 1..3 (codes 1 and 2 differ by a trailing blank), the pool functions *)
Definition ex_ty := [(0, "main.T0"%string); (1, "main.T1"%string); (2, "main.T2"%string); (3, "main.T3"%string); (4, "main.T4"%string); (5, "main.T5"%string); (6, "main.T6"%string); (7, "main.T7"%string); (8, "main.T8"%string); (9, "main.T9"%string); (10, "main.T10"%string); (11, "main.T11"%string); (12, "main.T12"%string); (13, "main.T13"%string); (14, "main.T14"%string); (15, "main.T15"%string); (16, "main.I0"%string); (17, "main.I1"%string); (18, "main.I2"%string); (19, "main.I3"%string); (20, "<-chan int"%string)].
Definition ex_nm := [(1, "n1"%string); (2, "n1 "%string); (3, "n<3>&"%string)].
Definition ex_gr := [(1, "g1"%string); (2, "g1 "%string); (3, "g3"%string)].
Definition ex_fn := [(0, "P0"%string); (1, "P1"%string); (2, "P2"%string); (3, "P3"%string); (4, "P4"%string); (5, "P5"%string); (6, "P6"%string); (7, "P7"%string); (8, "P8"%string); (9, "P9"%string); (10, "P10"%string); (11, "P11"%string); (12, "P12"%string); (13, "P13"%string); (14, "P14"%string); (15, "P15"%string); (16, "P16"%string); (17, "P17"%string); (18, "P18"%string); (19, "P19"%string); (20, "P20"%string); (21, "P21"%string); (22, "P22"%string); (23, "P23"%string); (24, "P24"%string); (25, "P25"%string); (26, "P26"%string); (27, "P27"%string); (28, "P28"%string); (29, "P29"%string); (30, "P30"%string); (31, "P31"%string); (32, "P32"%string); (33, "P33"%string); (34, "P34"%string); (35, "P35"%string); (36, "P36"%string); (37, "P37"%string); (38, "P38"%string); (39, "P39"%string); (40, "P40"%string); (41, "P41"%string); (42, "P42"%string); (43, "P43"%string); (44, "P44"%string); (45, "P45"%string); (46, "P46"%string); (47, "P47"%string)].
Definition ex_pk := [(0, "main"%string); (1, "main"%string); (2, "main"%string); (3, "main"%string); (4, "main"%string); (5, "main"%string); (6, "main"%string); (7, "main"%string); (8, "main"%string); (9, "main"%string); (10, "main"%string); (11, "main"%string); (12, "main"%string); (13, "main"%string); (14, "main"%string); (15, "main"%string); (16, "main"%string); (17, "main"%string); (18, "main"%string); (19, "main"%string); (20, "main"%string); (21, "main"%string); (22, "main"%string); (23, "main"%string); (24, "main"%string); (25, "main"%string); (26, "main"%string); (27, "main"%string); (28, "main"%string); (29, "main"%string); (30, "main"%string); (31, "main"%string); (32, "main"%string); (33, "main"%string); (34, "main"%string); (35, "main"%string); (36, "main"%string); (37, "main"%string); (38, "main"%string); (39, "main"%string); (40, "main"%string); (41, "main"%string); (42, "main"%string); (43, "main"%string); (44, "main"%string); (45, "main"%string); (46, "main"%string); (47, "main"%string)].
Definition ex_names : names := names_of_tables ex_ty ex_nm ex_gr ex_fn ex_pk.

(* generated history viz-1-105 (gen.generate_viz, seed 1), after operation 8: the graph marked with the error of the failed Invoke;
   function ids are the indices of the pool functions P<i> *)
Definition real_failed_invoke_group_graph : odot :=
  (mkOD [(mkDG (mkDN 5 0 1) [(mkDR (mkDN 5 0 1) 0)] ETransitive)] [(mkOC (IdFn 37) ETransitive [(mkDR (mkDN 5 0 1) 0)] [(mkDP (mkDN 2 0 0) false)] [])] [(mkDR (mkDN 5 0 1) 0)] [(mkDR (mkDN 2 0 0) 0)]).
Definition real_failed_invoke_group_text : string :=
"digraph {
	rankdir=RL;
	graph [compound=true];
	""[type=main.T5 group=g1]"" [shape=diamond label=<main.T5<BR /><FONT POINT-SIZE=""10"">Group: g1</FONT>> color=orange];
		""[type=main.T5 group=g1]"" -> ""main.T5[group=g1]0"";
		
	
		subgraph cluster_0 {
			label = ""main"";
			constructor_0 [shape=plaintext label=""P37""];
			color=orange;
			""main.T5[group=g1]0"" [label=<main.T5<BR /><FONT POINT-SIZE=""10"">Group: g1</FONT>>];
			
		}
		
			constructor_0 -> ""main.T2"" [ltail=cluster_0];
		
		
	""main.T5[group=g1]0"" [color=orange];
	""main.T2"" [color=red];
	
}"%string.
Example real_failed_invoke_group : render ex_names real_failed_invoke_group_graph = real_failed_invoke_group_text.
Proof. vm_compute. reflexivity. Qed.

(* generated history viz-1-34 (gen.generate_viz, seed 1), after operation 12: the graph marked with the error of the failed Invoke;
   function ids are the indices of the pool functions P<i> *)
Definition real_failed_invoke_ctor_graph : odot :=
  (mkOD [] [(mkOC (IdFn 10) ERootCause [(mkDR (mkDN 3 0 0) 0); (mkDR (mkDN 5 0 0) 0)] [(mkDP (mkDN 17 3 0) true)] [])] [] [(mkDR (mkDN 3 0 0) 0)]).
Definition real_failed_invoke_ctor_text : string :=
"digraph {
	rankdir=RL;
	graph [compound=true];
	
		subgraph cluster_0 {
			label = ""main"";
			constructor_0 [shape=plaintext label=""P10""];
			color=red;
			""main.T3"" [label=<main.T3>];
			""main.T5"" [label=<main.T5>];
			
		}
		
			constructor_0 -> ""main.I1[name=n<3>&]"" [ltail=cluster_0 style=dashed];
		
		
	""main.T3"" [color=red];
	
}"%string.
Example real_failed_invoke_ctor : render ex_names real_failed_invoke_ctor_graph = real_failed_invoke_ctor_text.
Proof. vm_compute. reflexivity. Qed.

(* generated history viz-1-60 (gen.generate_viz, seed 1), after operation 2: the plain graph;
   function ids are the indices of the pool functions P<i> *)
Definition real_named_group_optional_graph : odot :=
  (mkOD [(mkDG (mkDN 1 0 2) [(mkDR (mkDN 1 0 2) 0)] ENoError)] [(mkOC (IdFn 7) ENoError [(mkDR (mkDN 2 0 0) 0); (mkDR (mkDN 0 3 0) 0)] [(mkDP (mkDN 0 0 0) true)] []); (mkOC (IdFn 32) ENoError [(mkDR (mkDN 0 1 0) 0); (mkDR (mkDN 1 0 2) 0)] [] [])] [] []).
Definition real_named_group_optional_text : string :=
"digraph {
	rankdir=RL;
	graph [compound=true];
	""[type=main.T1 group=g1 ]"" [shape=diamond label=<main.T1<BR /><FONT POINT-SIZE=""10"">Group: g1 </FONT>>];
		""[type=main.T1 group=g1 ]"" -> ""main.T1[group=g1 ]0"";
		
	
		subgraph cluster_0 {
			label = ""main"";
			constructor_0 [shape=plaintext label=""P7""];
			
			""main.T2"" [label=<main.T2>];
			""main.T0[name=n<3>&]"" [label=<main.T0<BR /><FONT POINT-SIZE=""10"">Name: n&lt;3&gt;&amp;</FONT>>];
			
		}
		
			constructor_0 -> ""main.T0"" [ltail=cluster_0 style=dashed];
		
		
		subgraph cluster_1 {
			label = ""main"";
			constructor_1 [shape=plaintext label=""P32""];
			
			""main.T0[name=n1]"" [label=<main.T0<BR /><FONT POINT-SIZE=""10"">Name: n1</FONT>>];
			""main.T1[group=g1 ]0"" [label=<main.T1<BR /><FONT POINT-SIZE=""10"">Group: g1 </FONT>>];
			
		}
		
		
	
}"%string.
Example real_named_group_optional : render ex_names real_named_group_optional_graph = real_named_group_optional_text.
Proof. vm_compute. reflexivity. Qed.

(* generated history viz-1-12 (gen.generate_viz, seed 1), after operation 4: the plain graph;
   function ids are the indices of the pool functions P<i> *)
Definition real_escaping_graph : odot :=
  (mkOD [(mkDG (mkDN 1 0 1) [(mkDR (mkDN 1 0 1) 0); (mkDR (mkDN 1 0 1) 1)] ENoError)] [(mkOC (IdFn 22) ENoError [(mkDR (mkDN 1 0 1) 0); (mkDR (mkDN 0 3 0) 0)] [(mkDP (mkDN 5 0 0) false)] []); (mkOC (IdFn 21) ENoError [(mkDR (mkDN 0 0 0) 0)] [(mkDP (mkDN 17 1 0) false); (mkDP (mkDN 16 0 0) false); (mkDP (mkDN 20 0 0) true)] []); (mkOC (IdFn 7) ENoError [(mkDR (mkDN 2 0 0) 0); (mkDR (mkDN 0 3 0) 0)] [(mkDP (mkDN 0 0 0) true)] []); (mkOC (IdFn 2) ENoError [(mkDR (mkDN 0 2 0) 0); (mkDR (mkDN 1 0 1) 1)] [] [])] [] []).
Definition real_escaping_text : string :=
"digraph {
	rankdir=RL;
	graph [compound=true];
	""[type=main.T1 group=g1]"" [shape=diamond label=<main.T1<BR /><FONT POINT-SIZE=""10"">Group: g1</FONT>>];
		""[type=main.T1 group=g1]"" -> ""main.T1[group=g1]0"";
		""[type=main.T1 group=g1]"" -> ""main.T1[group=g1]1"";
		
	
		subgraph cluster_0 {
			label = ""main"";
			constructor_0 [shape=plaintext label=""P22""];
			
			""main.T1[group=g1]0"" [label=<main.T1<BR /><FONT POINT-SIZE=""10"">Group: g1</FONT>>];
			""main.T0[name=n<3>&]"" [label=<main.T0<BR /><FONT POINT-SIZE=""10"">Name: n&lt;3&gt;&amp;</FONT>>];
			
		}
		
			constructor_0 -> ""main.T5"" [ltail=cluster_0];
		
		
		subgraph cluster_1 {
			label = ""main"";
			constructor_1 [shape=plaintext label=""P21""];
			
			""main.T0"" [label=<main.T0>];
			
		}
		
			constructor_1 -> ""main.I1[name=n1]"" [ltail=cluster_1];
		
			constructor_1 -> ""main.I0"" [ltail=cluster_1];
		
			constructor_1 -> ""<-chan int"" [ltail=cluster_1 style=dashed];
		
		
		subgraph cluster_2 {
			label = ""main"";
			constructor_2 [shape=plaintext label=""P7""];
			
			""main.T2"" [label=<main.T2>];
			""main.T0[name=n<3>&]"" [label=<main.T0<BR /><FONT POINT-SIZE=""10"">Name: n&lt;3&gt;&amp;</FONT>>];
			
		}
		
			constructor_2 -> ""main.T0"" [ltail=cluster_2 style=dashed];
		
		
		subgraph cluster_3 {
			label = ""main"";
			constructor_3 [shape=plaintext label=""P2""];
			
			""main.T0[name=n1 ]"" [label=<main.T0<BR /><FONT POINT-SIZE=""10"">Name: n1 </FONT>>];
			""main.T1[group=g1]1"" [label=<main.T1<BR /><FONT POINT-SIZE=""10"">Group: g1</FONT>>];
			
		}
		
		
	
}"%string.
Example real_escaping : render ex_names real_escaping_graph = real_escaping_text.
Proof. vm_compute. reflexivity. Qed.

(* the table of the harness satisfies the side conditions of the distinctness
   theorems on the codes the harness uses (types 0..20, names and groups 0..3) *)
Lemma inj_on_check : forall (f : nat -> string) k,
  forallb (fun a => forallb (fun b => (a =? b) || negb (String.eqb (f a) (f b))) (seq 0 (S k))) (seq 0 (S k)) = true ->
  forall a b, a <= k -> b <= k -> f a = f b -> a = b.
Proof.
  intros f k H a b Ha Hb E. rewrite forallb_forall in H.
  assert (Ia : In a (seq 0 (S k))) by (apply in_seq; lia).
  assert (Ib : In b (seq 0 (S k))) by (apply in_seq; lia).
  specialize (H a Ia). rewrite forallb_forall in H. specialize (H b Ib).
  rewrite E, String.eqb_refl in H. cbn in H. rewrite orb_false_r in H. now apply Nat.eqb_eq.
Qed.

Lemma ex_names_distinct :
  names_distinct ex_names (fun t => t <= 20) (fun n => n <= 3) (fun g => g <= 3).
Proof.
  split.
  - apply inj_on_check. vm_compute. reflexivity.
  - apply (inj_on_check (name_of ex_names)). vm_compute. reflexivity.
  - apply (inj_on_check (group_of ex_names)). vm_compute. reflexivity.
  - intros t Ht. do 21 (destruct t as [|t]; [reflexivity|]). exfalso. lia.
Qed.

Print Assumptions go_unquote_quote.
Print Assumptions dq_ok_go_quote.
Print Assumptions go_quote_inj.
Print Assumptions html_escape_safe.
Print Assumptions html_unescape_escape.
Print Assumptions result_label_ok.
Print Assumptions group_label_ok.
Print Assumptions render_is_print.
Print Assumptions C19_text_wellformed.
Print Assumptions param_str_inj.
Print Assumptions result_str_inj.
Print Assumptions group_str_of_inj.
Print Assumptions ex_names_distinct.
