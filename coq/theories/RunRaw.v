(* RunRaw.v — histories whose operations carry arbitrary Go values: each is
   lowered through Parse to a core operation (or to "dig panics here"), then
   the core model runs.  Also what the Info structs must contain.
   Definitions only. *)
From Dig Require Import Base Sig State Graph Register Resolve Run GoTypes Parse.

Definition lower_op (r : rop) : op :=
  match lower r with LOp o => o | LPanic _ => OBad BadProvide 0 0 end.

Definition lower_panics (r : rop) : bool :=
  match lower r with LPanic _ => true | LOp _ => false end.

(* observations of a raw history: a lowered panic is reported as OVBug *)
Definition raw_obs (cfg : config) (h : list rop) : list oobs :=
  map (fun p => if lower_panics (fst p) then mkOObs OVBug [] else snd p)
      (combine h (map obs_of (run cfg (beh_of []) (dur_of []) (map lower_op h)))).

(* FillProvideInfo / FillDecorateInfo / FillInvokeInfo: filled exactly when the
   call succeeds, with the flattened declaration *)
Definition info_of (r : rop) (accepted : bool) : list ientry * list ientry :=
  if negb accepted then ([], [])
  else match lower r with
       | LOp (OProvide _ p) => (input_entries (pi_sig p), output_entries (pi_sig p))
       | LOp (ODecorate _ p) => (input_entries (di_sig p), dec_output_entries (di_sig p))
       | LOp (OInvoke _ p) => (input_entries (ii_sig p), [])
       | _ => ([], [])
       end.

Definition ientry_eqb (a b : ientry) : bool :=
  Nat.eqb (ie_ty a) (ie_ty b) && Nat.eqb (ie_name a) (ie_name b) &&
  Nat.eqb (ie_group a) (ie_group b) && Bool.eqb (ie_opt a) (ie_opt b).

Record rcase := mkRCase {
  rc_cfg : config;
  rc_hist : list rop;
  rc_impl : list oobs;
  rc_info : list (list ientry * list ientry)     (* as the implementation filled them *)
}.

Definition is_ok (o : oobs) : bool := match oo_verdict o with OVOk => true | _ => false end.

(* codes: 1 verdict class differs from the model  2 Info differs from the declaration *)
Definition vkey (v : overdict) : nat :=
  match v with
  | OVOk => 0 | OVErr _ QMissing => 1 | OVErr _ QCycle => 2 | OVErr _ _ => 3
  | OVPanicked _ _ => 6 | OVBug => 7 | OVDiverged => 8
  end.

Fixpoint raw_diff (i : nat) (h : list rop) (m im : list oobs) (inf : list (list ientry * list ientry)) : list (nat * nat) :=
  match h, m, im, inf with
  | r :: h', a :: m', b :: im', f :: inf' =>
      (if Nat.eqb (vkey (oo_verdict a)) (vkey (oo_verdict b)) then [] else [(i, 1)]) ++
      (let e := info_of r (is_ok b) in
       if list_eqb ientry_eqb (fst e) (fst f) && list_eqb ientry_eqb (snd e) (snd f) then [] else [(i, 2)]) ++
      raw_diff (S i) h' m' im' inf'
  | _, _, _, _ => []
  end.

Definition rcase_diff (c : rcase) : list (nat * nat) :=
  raw_diff 0 (rc_hist c) (raw_obs (rc_cfg c) (rc_hist c)) (rc_impl c) (rc_info c).

Fixpoint rdiff_from (i : nat) (cs : list rcase) : list (nat * nat * nat) :=
  match cs with
  | [] => []
  | c :: t => map (fun d => (i, fst d, snd d)) (rcase_diff c) ++ rdiff_from (S i) t
  end.

(* ---- the caller reuses ONE ProvideInfo, ONE DecorateInfo and ONE InvokeInfo for all
        calls of the history: a call that succeeds overwrites its struct with its own
        declaration; a call that fails leaves the struct exactly as it was ---- *)
Definition infos := (list ientry * list ientry)%type.

Definition info_sh (prev : infos) (r : rop) (accepted : bool) : infos :=
  if accepted then info_of r true else prev.

Fixpoint raw_diff_sh (i : nat) (h : list rop) (im : list oobs) (inf : list infos)
         (pp pd pi : infos) : list (nat * nat) :=
  match h, im, inf with
  | r :: h', b :: im', f :: inf' =>
      let prev := match r with RProvide _ _ _ _ => pp | RDecorate _ _ _ _ => pd | RInvoke _ _ _ => pi | RCore _ => ([], []) end in
      let e := match r with RCore _ => ([], []) | _ => info_sh prev r (is_ok b) end in
      (if list_eqb ientry_eqb (fst e) (fst f) && list_eqb ientry_eqb (snd e) (snd f) then [] else [(i, 2)]) ++
      match r with
      | RProvide _ _ _ _ => raw_diff_sh (S i) h' im' inf' e pd pi
      | RDecorate _ _ _ _ => raw_diff_sh (S i) h' im' inf' pp e pi
      | RInvoke _ _ _ => raw_diff_sh (S i) h' im' inf' pp pd e
      | RCore _ => raw_diff_sh (S i) h' im' inf' pp pd pi
      end
  | _, _, _ => []
  end.

(* verdict classes as in [raw_diff]; Info through the shared structs *)
Definition rcase_diff_sh (c : rcase) : list (nat * nat) :=
  filter (fun d => Nat.eqb (snd d) 1)
         (raw_diff 0 (rc_hist c) (raw_obs (rc_cfg c) (rc_hist c)) (rc_impl c) (rc_info c)) ++
  raw_diff_sh 0 (rc_hist c) (rc_impl c) (rc_info c) ([], []) ([], []) ([], []).

Fixpoint rdiff_sh_from (i : nat) (cs : list rcase) : list (nat * nat * nat) :=
  match cs with
  | [] => []
  | c :: t => map (fun d => (i, fst d, snd d)) (rcase_diff_sh c) ++ rdiff_sh_from (S i) t
  end.

(* C14 on implementation traces of raw histories.  codes: 1401 dig panicked
   (or Visualize/String did)  1403 an input the parse model rejects was accepted *)
Fixpoint raw_c14 (i : nat) (h : list rop) (im : list oobs) : list (nat * nat) :=
  match h, im with
  | r :: h', b :: im' =>
      (match oo_verdict b with OVBug | OVDiverged => [(i, 1401)] | _ => [] end) ++
      (match lower r with
       | LOp (OBad _ _ _) => if is_ok b then [(i, 1403)] else []
       | _ => []
       end) ++ raw_c14 (S i) h' im'
  | _, _ => []
  end.

Fixpoint rviol_from (i : nat) (cs : list rcase) : list (nat * nat * nat) :=
  match cs with
  | [] => []
  | c :: t => map (fun d => (i, fst d, snd d)) (raw_c14 0 (rc_hist c) (rc_impl c)) ++ rviol_from (S i) t
  end.
