#!/bin/sh
# run every quick (or $1 = thorough) check in parallel; summary on stdout.
# Scratch output goes to build/allrun (not needed by any registered command).
tier=${1:-quick}
cd "$(dirname "$0")/.." || exit 2
mkdir -p build/allrun
rm -f build/allrun/*
for p in C01 C02 C03 C04 C05 C06 C07 C08 C09 C10 C11 C12 C13 C14 C15 C16 C17 C18 C19 C20; do
  ( /usr/bin/time -f "$p %es" bin/check $p $tier > build/allrun/$p.out 2>build/allrun/$p.err
    echo "$p exit $?" >> build/allrun/summary.txt ) &
done
wait
sort build/allrun/summary.txt | tr '\n' ' '
echo
grep -h VIOLATION build/allrun/C*.out | cut -c1-200
exit 0
