"""vizcheck.py — C19: Visualize against Dot.v (model) and the registry (spec)."""
import json

import common
import dotparse
import emit
import gen


def vobs_terms(case, trace):
    pool_to_fn = {f["pool"]: f["id"] for f in case["fns"] if f.get("pool") is not None}

    def fn_of_name(nm):
        return pool_to_fn[int(nm[1:])]
    out = []
    for ot in trace["ops"]:
        g, wf = dotparse.parse(ot.get("dot", ""), fn_of_name)
        ge = "None"
        if ot.get("dot_err"):
            if ot["dot_err"] == "PANIC":
                ge, wf = "(Some (mkOD [] [] [] []))", False
            else:
                t2, wf2 = dotparse.parse(ot["dot_err"], fn_of_name)
                ge, wf = f"(Some {t2})", wf and wf2
        out.append(f"({g}, {ge}, {emit.boolc(wf)})")
    return emit.lst(out)


_NAMES = None


def names_tables():
    """the strings the running harness prints for the model's codes (`harness names`)"""
    global _NAMES
    if _NAMES is None:
        r = common.run([common.HARNESS_BIN, "names"], timeout=60, env=common.GOENV)
        if r.returncode != 0:
            raise RuntimeError("harness names failed: " + r.stderr[-500:])
        _NAMES = json.loads(r.stdout)
    return _NAMES


def coq_str(s):
    return '"' + s.replace('"', '""') + '"%string'


def coq_tab(d):
    return emit.lst([f"({int(k)}, {coq_str(v)})" for k, v in sorted(d.items(), key=lambda kv: int(kv[0]))])


def names_defs():
    """Coq definitions shared by all cases of a file: the type / name / group tables"""
    n = names_tables()
    return ["Require Import Coq.Strings.String.", "From Dig Require Import DotText.",
            f"Definition ty_tab := {coq_tab(n['types'])}.", f"Definition nm_tab := {coq_tab(n['names'])}.",
            f"Definition gr_tab := {coq_tab(n['groups'])}."]


def names_term(case):
    """DotText.names of a case: the shared tables and the location of each function (by its pool index)"""
    pool = names_tables()["pool"]
    fns = {f["id"]: pool[str(f["pool"])] for f in case["fns"] if f.get("pool") is not None}
    return (f"(names_of_tables ty_tab nm_tab gr_tab {coq_tab({k: v['name'] for k, v in fns.items()})} "
            f"{coq_tab({k: v['package'] for k, v in fns.items()})})")


def tobs_defs(i, trace):
    """per operation the recorded DOT texts; every distinct text of the case is one Coq string literal"""
    lits = {}

    def opt(t):
        if not t or t == "PANIC":
            return "None"
        return f"(Some {lits.setdefault(t, f's{i}_{len(lits)}')})"
    x = emit.lst([f"({opt(ot.get('dot'))}, {opt(ot.get('dot_err'))})" for ot in trace["ops"]])
    return [f"Definition {n} := {coq_str(t)}." for t, n in lits.items()] + [f"Definition x{i} : list tobs := {x}."]


def model_text(case, trace, oi, which):
    """the text DotText.render gives for the model's graph after operation oi (which: 1 plain, 2 error graph)"""
    pick = "g" if which == 1 else "match ge with Some g2 => g2 | None => g end"
    defs = names_defs() + [
        f"Definition MT := Eval vm_compute in match nth_error (model_viz c0) {oi} with "
        f"Some (g, ge) => render {names_term(case)} ({pick}) | None => EmptyString end.", "Print MT."]
    out = common.coq_eval(emit.cases_file([(case, trace)], extra="Spec Check Dot RunViz", defs=defs), timeout=600, name="viztext")
    import re
    m = re.search(r'^MT =\s*"(.*)"(%string)?\n\s*: string', out, re.S | re.M)
    return m.group(1).replace('""', '"') if m else None


def text_replay(prop, case, trace, oi, which):
    ot = trace["ops"][oi]
    return {"property": prop,
            "obligation": "corr_C19_text: DotText.render of the model's graph is byte for byte the text Visualize writes",
            "which": {1: "plain graph", 2: "graph marked with the Invoke's error"}.get(which),
            "disagreeing_case": case, "operation": oi,
            "implementation_text": ot.get("dot") if which == 1 else ot.get("dot_err"),
            "model_text": model_text(case, trace, oi, which), "implementation_trace": trace}


def run_viz(cases):
    cases, traces = common.run_impl_parallel(cases)
    shard = 10     # the DOT texts are large Coq terms: many small files, compiled in parallel
    jobs = [(lo, cases[lo:lo + shard], traces[lo:lo + shard]) for lo in range(0, len(cases), shard)]

    def one(job):
        lo, cs, ts = job
        defs = []
        for i, (c, t) in enumerate(zip(cs, ts)):
            defs.append(f"Definition v{i} : list vobs := {vobs_terms(c, t)}.")
        pairs = emit.lst([f"(c{i}, v{i})" for i in range(len(cs))])
        defs.append(f"Definition allv := {pairs}.")
        defs.append("Definition M := Eval vm_compute in vmism_from 0 allv.")
        defs.append("Definition V := Eval vm_compute in vviol_from 0 allv.")
        defs += ["Print M.", "Print V."] + names_defs()
        for i, (c, t) in enumerate(zip(cs, ts)):
            defs += tobs_defs(i, t)
        triples = emit.lst([f"({names_term(c)}, c{i}, x{i})" for i, c in enumerate(cs)])
        defs.append(f"Definition allt := {triples}.")
        defs.append("Definition T := Eval vm_compute in tmism_from 0 allt.")
        defs.append("Definition N := Eval vm_compute in tcount_from allt.")
        defs += ["Print T.", "Print N."]
        src = emit.cases_file(list(zip(cs, ts)), extra="Spec Check Dot RunViz", defs=defs)
        out = common.coq_eval(src, timeout=3000, name="viz")
        M = [(lo + a, b, c) for a, b, c in common.parse_pairs(common.parse_printed(out, "M"))]
        V = [(lo + a, b, c) for a, b, c in common.parse_pairs(common.parse_printed(out, "V"))]
        T = [(lo + a, b, c) for a, b, c in common.parse_pairs(common.parse_printed(out, "T"))]
        return M, V, T, int(common.parse_printed(out, "N"))
    from concurrent.futures import ThreadPoolExecutor
    with ThreadPoolExecutor(max_workers=16) as ex:
        res = list(ex.map(one, jobs))
    return (cases, traces, [m for r in res for m in r[0]], [v for r in res for v in r[1]],
            [t for r in res for t in r[2]], sum(r[3] for r in res))


def check(tier, seed, corpus):
    n = 150 if tier == "quick" else 4000
    cases = list(corpus) + gen.generate_viz(seed, n)
    cases, traces, M, V, T, ntexts = run_viz(cases)
    dist = dict(viz_cases=len(cases), dot_texts=sum(1 for t in traces for o in t["ops"] if o.get("dot")),
                error_graphs=sum(1 for t in traces for o in t["ops"] if o.get("dot_err")),
                clusters_seen=sum(o.get("dot", "").count("subgraph cluster_") for t in traces for o in t["ops"][-1:]))
    dist.update(texts_compared_exactly=ntexts, text_mismatches=len(T))
    return cases, traces, M, V, T, dist
