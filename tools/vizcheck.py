"""vizcheck.py — C19: Visualize against Dot.v (model) and the registry (spec)."""
import json

import common
import dotparse
import emit
import gen


def vobs_terms(case, trace):
    pool_to_fn = {f["pool"]: f["id"] for f in case["fns"] if f.get("pool") is not None}

    def fn_of_name(nm):
        return pool_to_fn[int(nm[1:])]
    out = []
    for ot in trace["ops"]:
        g, wf = dotparse.parse(ot.get("dot", ""), fn_of_name)
        ge = "None"
        if ot.get("dot_err"):
            if ot["dot_err"] == "PANIC":
                ge, wf = "(Some (mkOD [] [] [] []))", False
            else:
                t2, wf2 = dotparse.parse(ot["dot_err"], fn_of_name)
                ge, wf = f"(Some {t2})", wf and wf2
        out.append(f"({g}, {ge}, {emit.boolc(wf)})")
    return emit.lst(out)


def run_viz(cases):
    cases, traces = common.run_impl_parallel(cases)
    shard = 120
    jobs = [(lo, cases[lo:lo + shard], traces[lo:lo + shard]) for lo in range(0, len(cases), shard)]

    def one(job):
        lo, cs, ts = job
        defs = []
        for i, (c, t) in enumerate(zip(cs, ts)):
            defs.append(f"Definition v{i} : list vobs := {vobs_terms(c, t)}.")
        pairs = emit.lst([f"(c{i}, v{i})" for i in range(len(cs))])
        defs.append(f"Definition allv := {pairs}.")
        defs.append("Definition M := Eval vm_compute in vmism_from 0 allv.")
        defs.append("Definition V := Eval vm_compute in vviol_from 0 allv.")
        defs += ["Print M.", "Print V."]
        src = emit.cases_file(list(zip(cs, ts)), extra="Spec Check Dot RunViz", defs=defs)
        out = common.coq_eval(src, timeout=3000, name="viz")
        M = [(lo + a, b, c) for a, b, c in common.parse_pairs(common.parse_printed(out, "M"))]
        V = [(lo + a, b, c) for a, b, c in common.parse_pairs(common.parse_printed(out, "V"))]
        return M, V
    from concurrent.futures import ThreadPoolExecutor
    with ThreadPoolExecutor(max_workers=16) as ex:
        res = list(ex.map(one, jobs))
    return cases, traces, [m for r in res for m in r[0]], [v for r in res for v in r[1]]


def check(tier, seed, corpus):
    n = 150 if tier == "quick" else 4000
    cases = list(corpus) + gen.generate_viz(seed, n)
    cases, traces, M, V = run_viz(cases)
    dist = dict(viz_cases=len(cases), dot_texts=sum(1 for t in traces for o in t["ops"] if o.get("dot")),
                error_graphs=sum(1 for t in traces for o in t["ops"] if o.get("dot_err")),
                clusters_seen=sum(o.get("dot", "").count("subgraph cluster_") for t in traces for o in t["ops"][-1:]))
    return cases, traces, M, V, dist
