import sys, json, collections, time
sys.path.insert(0, '/verif/tools')
import common, gen, emit
prof, seed, n = sys.argv[1], int(sys.argv[2]), int(sys.argv[3])
cases = gen.generate(prof, seed, n)
cases, traces = common.run_impl_parallel(cases)
for name, d in [("M","Definition M := Eval vm_compute in mismatches all_cases."),
          ("V1","Definition X := Eval vm_compute in map (fun c => length (chk_C01 (cs_cfg c) (cs_beh c) (cs_hist c) (cs_impl c))) all_cases."),
          ("V3","Definition X := Eval vm_compute in map (fun c => length (chk_C03 (cs_hist c) (cs_impl c))) all_cases."),
          ("V4","Definition X := Eval vm_compute in map (fun c => length (chk_C04 (cs_cfg c) (cs_beh c) (cs_hist c) (cs_impl c))) all_cases."),
          ("V5","Definition X := Eval vm_compute in map (fun c => length (chk_C05 (cs_cfg c) (cs_hist c) (cs_impl c))) all_cases."),
          ]:
    src = emit.cases_file(list(zip(cases, traces)), extra="Spec Check", defs=[d])
    t=time.time()
    try:
        common.coq_eval(src, timeout=120)
        print(name, "%.1f"%(time.time()-t))
    except Exception as e:
        print(name, "TIMEOUT/ERR", str(e)[:100])
