import json,sys
d=json.load(open('/tmp/try_last.json'))
want=(int(sys.argv[1]),int(sys.argv[2]))
which=sys.argv[3] if len(sys.argv)>3 else 'V'
for (i,p,j,code) in d[which]:
    if (p,code)!=want: continue
    c=d['cases'][i]; t=d['traces'][i]
    print("=====",c['id'],"prop",p,"op",j,"code",code, json.dumps(c['config']))
    used=set(o.get('fn') for o in c['ops'][:j+1])
    for f in c['fns']:
        if f['id'] in used: print(json.dumps({k:v for k,v in f.items() if k not in('dur','lens')}))
    for jj,(o,tt) in enumerate(zip(c['ops'][:j+1],t['ops'])): print(jj,json.dumps(o), json.dumps(tt['verdict'])[:120], [ (e['ev'],e['f'],e.get('out')) for e in tt['events']])
    break
