"""common.py — shared plumbing of the checks: building the Coq development and
the harness against /repo's working tree, running histories on the
implementation (with crash isolation), evaluating the model in Coq."""
import json
import os
import re
import shutil
import subprocess
import sys
import tempfile
import time

VERIF = os.path.dirname(os.path.dirname(os.path.abspath(__file__)))
REPO = os.environ.get("VERIF_REPO", "/repo")
BUILD = os.path.join(VERIF, "build")
COQ = os.path.join(VERIF, "coq")
HARNESS_BIN = os.path.join(BUILD, "harness")

GOENV = dict(os.environ, GOFLAGS="-mod=mod", GOPROXY="off", GOSUMDB="off", GOTOOLCHAIN="local",
             CGO_ENABLED="0")


def log(*a):
    print(*a, file=sys.stderr, flush=True)


def run(cmd, timeout=None, cwd=None, env=None, input=None):
    return subprocess.run(cmd, cwd=cwd, env=env, input=input, timeout=timeout,
                          stdout=subprocess.PIPE, stderr=subprocess.PIPE, text=True)


# ---------------------------------------------------------------- Coq build

def coq_build(timeout=1500):
    """full .vo build; returns (ok, failing_file, output)"""
    if not os.path.exists(os.path.join(COQ, "Makefile")):
        r = run(["coq_makefile", "-f", "_CoqProject", "-o", "Makefile"], cwd=COQ, timeout=60)
        if r.returncode != 0:
            return False, "_CoqProject", r.stderr
    try:
        r = run(["make", "-j16"], cwd=COQ, timeout=timeout)
    except subprocess.TimeoutExpired:
        return False, "timeout", "coq build timed out"
    out = r.stdout + r.stderr
    if r.returncode == 0:
        return True, None, out
    m = re.search(r'File "\./(theories/[^"]+)"', out)
    return False, (m.group(1) if m else "unknown"), out


def forbidden_scan():
    """no Admitted / admit / Axiom / Parameter / ... anywhere in the development"""
    bad = []
    pat = re.compile(r'\b(Admitted|admit|Axiom|Axioms|Parameter|Parameters|Conjecture|Hypothesis|Variable[s]?\b(?!.*Section))|Unset Guard|bypass_check|type-in-type|Admit Obligations')
    for root, _, files in os.walk(os.path.join(COQ, "theories")):
        for f in files:
            if not f.endswith(".v"):
                continue
            path = os.path.join(root, f)
            depth = 0
            for ln, line in enumerate(open(path), 1):
                s = line.strip()
                if re.match(r'Section\b', s):
                    depth += 1
                if re.match(r'End\b', s) and depth > 0:
                    depth -= 1
                if s.startswith("(*") and s.endswith("*)"):
                    continue
                for m in re.finditer(r'\b(Admitted|admit|Axiom|Axioms|Parameter|Parameters|Conjecture)\b|Unset Guard|bypass_check|type-in-type|Admit Obligations', s):
                    bad.append(f"{path}:{ln}: {m.group(0)}")
                if depth == 0 and re.match(r'(Variable|Variables|Hypothesis|Hypotheses)\b', s):
                    bad.append(f"{path}:{ln}: {s.split()[0]} outside a section")
    return bad


def print_assumptions(theorems, module):
    """returns {theorem: text} using a scratch file"""
    src = f"From Dig Require Import {module}.\n" + "\n".join(f"Print Assumptions {t}." for t in theorems) + "\n"
    with tempfile.TemporaryDirectory(prefix="verif_pa_") as d:
        p = os.path.join(d, "pa.v")
        open(p, "w").write(src)
        r = run(["coqc", "-Q", os.path.join(COQ, "theories"), "Dig", p], timeout=300)
        if r.returncode != 0:
            return None, r.stderr
        chunks = [c.strip() for c in re.split(r'(?=Closed under|Axioms:)', r.stdout) if c.strip()]
        return dict(zip(theorems, chunks)), r.stdout


# ---------------------------------------------------------------- harness

def harness_build():
    os.makedirs(BUILD, exist_ok=True)
    hdir = os.path.join(VERIF, "harness")
    shutil.copy(os.path.join(REPO, "go.sum"), os.path.join(hdir, "go.sum"))
    cmd = ["go", "build", "-tags", "verif", "-o", HARNESS_BIN]
    if os.path.abspath(REPO) != "/repo":
        # VERIF_REPO (seeded changes in a scratch worktree): same module file with the replace redirected
        alt = os.path.join(BUILD, "go.alt.mod")
        mod = open(os.path.join(hdir, "go.mod")).read().replace("=> /repo", "=> " + os.path.abspath(REPO))
        open(alt, "w").write(mod)
        shutil.copy(os.path.join(REPO, "go.sum"), os.path.join(BUILD, "go.alt.sum"))
        cmd.append("-modfile=" + alt)
    r = run(cmd + ["."], cwd=hdir, env=GOENV, timeout=600)
    return r.returncode == 0, r.stdout + r.stderr


def _run_harness_file(path, skip, timeout):
    try:
        r = subprocess.run([HARNESS_BIN, "cases", path, str(skip)], stdout=subprocess.PIPE,
                           stderr=subprocess.DEVNULL, timeout=timeout, text=True, env=GOENV)
        return r.returncode, r.stdout
    except subprocess.TimeoutExpired as e:
        out = e.stdout or ""
        if isinstance(out, bytes):
            out = out.decode()
        return -9, out


def run_impl(cases, timeout=600):
    """run the cases on the implementation; a case whose execution kills the
    process (stack overflow) or hangs is re-run on growing prefixes to find the
    operation, and is truncated there with verdict `diverged`.
    Returns (cases', traces) with cases' possibly truncated."""
    cases = list(cases)
    traces = [None] * len(cases)
    with tempfile.TemporaryDirectory(prefix="verif_h_") as d:
        path = os.path.join(d, "cases.jsonl")
        with open(path, "w") as f:
            for c in cases:
                f.write(json.dumps(c) + "\n")
        skip = 0
        while skip < len(cases):
            rc, out = _run_harness_file(path, skip, timeout)
            lines = [l for l in out.split("\n") if l.strip()]
            good = 0
            for l in lines:
                try:
                    t = json.loads(l)
                except ValueError:
                    break
                traces[skip + good] = t
                good += 1
            skip += good
            if skip >= len(cases):
                break
            if rc == 0:
                raise RuntimeError("harness stopped early without failing")
            # cases[skip] crashed the process: find the first crashing prefix
            c = cases[skip]
            p1 = os.path.join(d, "one.jsonl")
            found = None
            for k in range(1, len(c["ops"]) + 1):
                pc = dict(c, ops=c["ops"][:k])
                open(p1, "w").write(json.dumps(pc) + "\n")
                rc1, out1 = _run_harness_file(p1, 0, 120)
                if rc1 != 0:
                    found = k
                    break
                last_ok = json.loads(out1.strip().split("\n")[-1])
            if found is None:
                raise RuntimeError(f"case {c['id']} crashes only as a whole")
            t = last_ok if found > 1 else {"id": c["id"], "ops": []}
            t["ops"] = t["ops"][:found - 1] + [{"verdict": {"v": "diverged"}, "events": [], "viz_ok": True, "str_ok": True}]
            cases[skip] = dict(c, ops=c["ops"][:found], truncated_at=found - 1)
            traces[skip] = t
            skip += 1
    for c, t in zip(cases, traces):
        if t.get("harness_error"):
            raise RuntimeError(f"harness error in {c['id']}: {t['harness_error']}")
    return cases, traces


def run_impl_parallel(cases, shards=16, timeout=900):
    from concurrent.futures import ThreadPoolExecutor
    n = len(cases)
    if n < 64:
        return run_impl(cases, timeout)
    size = (n + shards - 1) // shards
    parts = [cases[i:i + size] for i in range(0, n, size)]
    with ThreadPoolExecutor(max_workers=shards) as ex:
        res = list(ex.map(lambda p: run_impl(p, timeout), parts))
    cs, ts = [], []
    for c, t in res:
        cs += c
        ts += t
    return cs, ts


def run_graphs(graphs, timeout=300):
    with tempfile.TemporaryDirectory(prefix="verif_g_") as d:
        p = os.path.join(d, "g.json")
        open(p, "w").write(json.dumps(graphs))
        r = subprocess.run([HARNESS_BIN, "graphs", p], stdout=subprocess.PIPE, stderr=subprocess.DEVNULL,
                           timeout=timeout, text=True)
        if r.returncode != 0:
            raise RuntimeError("graph harness failed")
        return [json.loads(l) for l in r.stdout.split("\n") if l.strip()]


# ---------------------------------------------------------------- Coq evaluation

def coq_eval(source, timeout=1200, name="cases"):
    """compile a generated .v file under the development; returns stdout"""
    with tempfile.TemporaryDirectory(prefix="verif_c_") as d:
        p = os.path.join(d, name + ".v")
        open(p, "w").write(source)
        r = run(["coqc", "-Q", os.path.join(COQ, "theories"), "Dig", p], timeout=timeout)
        if r.returncode != 0:
            raise RuntimeError("coqc failed on generated cases:\n" + (r.stdout + r.stderr)[-3000:])
        return r.stdout


def parse_printed(out, name):
    """extract the term printed by `Print name.`  as text (between 'name =' and the type line)"""
    m = re.search(r'^' + re.escape(name) + r' =\s*(.*?)\n\s*:\s', out, re.S | re.M)
    if not m:
        raise RuntimeError(f"no value printed for {name}")
    return re.sub(r'\s+', ' ', m.group(1)).strip()


def parse_pairs(text):
    """'[(1, 2); (3, 4)]' -> [(1,2),(3,4)] ; also triples"""
    if text == "[]":
        return []
    return [tuple(int(x) for x in re.findall(r'\d+', t)) for t in re.findall(r'\(([^()]*)\)', text)]


def now():
    return time.time()
