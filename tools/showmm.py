import json,collections,re,sys
d=json.load(open('/tmp/try_last.json'))
c=collections.Counter()
for (i,j) in d['M']:
    v=d['traces'][i]['ops'][j]['verdict']
    m=v.get('msg','')
    m=re.sub(r'cannot provide function .*?\): ','',m)
    c[(d['cases'][i]['ops'][j]['op'],d['cases'][i]['ops'][j].get('bad'),v['v'],m[:int(sys.argv[1]) if len(sys.argv)>1 else 200])]+=1
for k,v in c.most_common(): print(v,k)
