import json,sys
d=json.load(open('/tmp/tryraw_last.json'))
def has_empty_group(o):
    return '"group": {"name": 0' in json.dumps(o)
n=0
for (i,j,code) in d['M']:
    o=d['cases'][i]['ops'][j]; t=d['traces'][i]['ops'][j]
    if has_empty_group(o): continue
    prev=[k for k in range(j) if has_empty_group(d['cases'][i]['ops'][k]) and d['traces'][i]['ops'][k]['verdict']['v']=='ok']
    if prev: continue
    n+=1
    print("== case",d['cases'][i]['id'],"op",j,"code",code,o['op'], "verdict",t['verdict']['v'], (t['verdict'].get('msg') or '')[-200:])
    print("   raw:", json.dumps(o['raw'])[:1200])
    print("   opts:", json.dumps(o.get('opts')))
    print("   info:", t.get('info'))
print(n)
