#!/usr/bin/env python3
"""check.py <property> [quick|thorough] — decide one property on /repo's
current working tree.  See DESIGN.md section 5 for the verdict logic.

exit 0: every proof obligation of the property was re-checked by this build,
        model and implementation agree on the property's projection on every
        history explored, and the property's checker accepts every
        implementation trace (known findings are printed, not counted);
exit 1: a line `VIOLATION property=<id> replay=<path>` says why."""
import collections
import hashlib
import json
import os
import random
import sys
import time

sys.path.insert(0, os.path.dirname(os.path.abspath(__file__)))
import common  # noqa: E402
import emit  # noqa: E402
import gen  # noqa: E402
import props  # noqa: E402

VERIF = common.VERIF


def load_known():
    p = os.path.join(VERIF, "known_findings.json")
    if not os.path.exists(p):
        return []
    return json.load(open(p)).get("known", [])


def case_hash(c):
    return hashlib.sha1(json.dumps(c, sort_keys=True).encode()).hexdigest()[:12]


def write_replay(prop, name, payload):
    d = os.path.join(VERIF, "replays", prop)
    os.makedirs(d, exist_ok=True)
    p = os.path.join(d, name + ".json")
    json.dump(payload, open(p, "w"), indent=1)
    return p


def multi_feeder_groups(case):
    """fn ids that feed a value group which has two or more feeders registered in the history"""
    registered = {o["fn"] for o in case["ops"] if o["op"] == "provide"}
    feeds = collections.defaultdict(set)

    def walk(f, rs):
        for r in rs:
            if r["k"] == "obj":
                walk(f, r.get("fields") or [])
            elif r["k"] == "group":
                feeds[r["group"]].add(f)
    for f in case["fns"]:
        if f["id"] in registered:
            walk(f["id"], f.get("results") or [])
    out = set()
    for g, fs in feeds.items():
        if len(fs) >= 2:
            out |= fs
    return out


def pred_group_feeder_order(case, trace, twin, oi, code):
    """D19b: the feeders of a value group are built in registration order and the first failure stops
    the group, so with two or more feeders of which one cannot be built, (a) WHICH failure the group
    reports (a missing dependency, which an optional parameter above it absorbs, or a harder error)
    and (b) which feeders had already run depend on the registration order.
    True exactly when the difference between the two runs at operation oi is of that form."""
    tc, tt, perm = twin
    feeders = multi_feeder_groups(case)
    if not feeders or case["ops"][oi]["op"] != "invoke" or oi >= len(perm) or perm[oi] >= len(tt["ops"]):
        return False
    a, b = trace["ops"][oi], tt["ops"][perm[oi]]
    va, vb = a["verdict"], b["verdict"]
    if code == 1601:
        # one run succeeds (an optional parameter absorbed a group that could not be built for a missing
        # dependency), the other fails with an error that passes through the building of a value group
        if (va.get("v") == "ok") == (vb.get("v") == "ok"):
            return False
        bad = vb if va.get("v") == "ok" else va
        return bad.get("v") == "err" and "paramgroup" in (bad.get("chain") or [])
    if code == 1602:
        if (va.get("v") == "ok") != (vb.get("v") == "ok"):
            # the executions of an Invoke that failed in the other order: a consequence of (a)
            return pred_group_feeder_order(case, trace, twin, oi, 1601)
        if va.get("v") != "ok" or vb.get("v") != "ok":
            return False
        key = lambda ev: (ev["f"], ev["e"])
        proj = lambda ev: (ev["f"], ev["e"], ev.get("role"), json.dumps(ev.get("args"), sort_keys=True), ev.get("out"))
        allb = {key(ev): proj(ev) for ot in tt["ops"] for ev in ot["events"] if ev.get("ev") == "exec"}
        extra = False
        for ev in a["events"]:
            if ev.get("ev") != "exec":
                continue
            if key(ev) in allb:
                if allb[key(ev)] != proj(ev):
                    return False        # a common execution received different arguments: not this finding
            elif ev.get("role") == "ctor" and ev["f"] in feeders:
                extra = True            # a group feeder that ran in one order only
            else:
                return False
        return extra
    return False


def pred_soft_in_feeder(case, trace, twin, oi, code):
    """D19c: a constructor that FEEDS a multi-feeder value group and itself has a soft group parameter
    sees the members of exactly the co-feeders that were built before it, i.e. of those registered
    earlier.  True when every execution of operation oi whose arguments differ between the two runs
    is such a feeder (the checker has already established that they differ in soft groups only)."""
    tc, tt, perm = twin
    feeders = multi_feeder_groups(case)
    if code != 1605 or not feeders:
        return False
    key = lambda ev: (ev["f"], ev["e"])
    proj = lambda ev: json.dumps(ev.get("args"), sort_keys=True)
    allb = {key(ev): ev for ot in tt["ops"] for ev in ot["events"] if ev.get("ev") == "exec"}
    seen = False
    for ev in trace["ops"][oi]["events"]:
        if ev.get("ev") != "exec" or key(ev) not in allb or proj(ev) == proj(allb[key(ev)]):
            continue
        if canon_args(ev) == canon_args(allb[key(ev)]):
            continue            # same members in another order
        if ev.get("role") == "ctor" and ev["f"] in feeders:
            seen = True
        else:
            return False
    return seen


def canon_args(ev):
    out = []
    for a in ev.get("args") or []:
        if a.get("isl"):
            out.append(("l", tuple(sorted(json.dumps(x) for x in (a.get("l") or [])))))
        else:
            out.append(("s", json.dumps(a, sort_keys=True)))
    return out


PREDICATES = {"group_feeder_order": pred_group_feeder_order, "soft_in_feeder": pred_soft_in_feeder}


def load_corpus(prop):
    out = []
    for d in (os.path.join(VERIF, "corpus", "common"), os.path.join(VERIF, "corpus", prop)):
        if not os.path.isdir(d):
            continue
        for f in sorted(os.listdir(d)):
            if f.endswith(".json"):
                c = json.load(open(os.path.join(d, f)))
                c.setdefault("id", "corpus:" + f[:-5])
                out.append(c)
    return out


def evaluate(spec, cases, traces, twins=None):
    """evaluate model + checkers in Coq, sharded; returns (M, V) as lists of tuples
    M: (case, op)   V: (case, op, code)"""
    shard = 250
    jobs = []
    for lo in range(0, len(cases), shard):
        jobs.append((lo, cases[lo:lo + shard], traces[lo:lo + shard],
                     None if twins is None else twins[lo:lo + shard]))

    def one(job):
        lo, cs, ts, tw = job
        src = props.coq_source(spec, cs, ts, tw)
        out = common.coq_eval(src, timeout=3000)
        M = [(lo + a[0],) + tuple(a[1:]) for a in common.parse_pairs(common.parse_printed(out, "M"))]
        V = [(lo + a[0],) + tuple(a[1:]) for a in common.parse_pairs(common.parse_printed(out, "V"))]
        W = []
        if "W =" in out:
            W = [(lo + a[0],) + tuple(a[1:]) for a in common.parse_pairs(common.parse_printed(out, "W"))]
        return M, V, W
    from concurrent.futures import ThreadPoolExecutor
    with ThreadPoolExecutor(max_workers=16) as ex:
        res = list(ex.map(one, jobs))
    M, V, W = [], [], []
    for m, v, w in res:
        M += m
        V += v
        W += w
    evaluate.last_model_viol = set(W)
    return M, V


def shrink(spec, case, pred):
    """greedy removal of operations while pred(case) still holds"""
    best = case
    changed = True
    rounds = 0
    while changed and rounds < 4:
        changed = False
        rounds += 1
        i = len(best["ops"]) - 1
        while i >= 0:
            if len(best["ops"]) <= 1:
                break
            cand = dict(best, ops=best["ops"][:i] + best["ops"][i + 1:])
            cand.pop("truncated_at", None)
            if not scope_valid(cand):
                i -= 1
                continue
            try:
                if pred(cand):
                    best = cand
                    changed = True
            except Exception:
                pass
            i -= 1
    used = set(o.get("fn") for o in best["ops"])
    best = dict(best, fns=[f for f in best["fns"] if f["id"] in used])
    return best


def scope_valid(c):
    n = 1
    for o in c["ops"]:
        if o["op"] == "scope":
            if o["parent"] >= n:
                return False
            n += 1
        elif o.get("scope", 0) >= n:
            return False
    return True


def main():
    prop = sys.argv[1]
    tier = (sys.argv[2] if len(sys.argv) > 2 else os.environ.get("VERIF_TIER", "quick")) or "quick"
    seed = int(os.environ.get("VERIF_SEED", "20260930"))
    t0 = time.time()
    spec = props.SPECS[prop]
    known = [k for k in load_known() if k["property"] == prop]
    lines = []
    violations = 0
    known_hits = collections.Counter()
    broken = []

    # ---- 1. regenerate the translated table, build the proofs (one check at a time builds)
    import fcntl
    os.makedirs(common.BUILD, exist_ok=True)
    lockf = open(os.path.join(common.BUILD, ".lock"), "w")
    fcntl.flock(lockf, fcntl.LOCK_EX)
    tb_ok, tb_out = props.regen_errtable()
    if not tb_ok:
        broken.append(("translator", "tools/errtable failed: " + tb_out[-500:]))
    ok, failing, out = common.coq_build()
    built = props.built_files()
    missing = [f for f in spec["requires"] if f not in built]
    for f in missing:
        broken.append(("theorem-file", f"{f} does not compile (first error in {failing})"))
    bad = common.forbidden_scan()
    if bad:
        broken.append(("forbidden", "; ".join(bad[:5])))
    assumptions = {}
    if not missing and spec["theorems"]:
        assumptions, raw = props.assumptions_for(spec)
        if assumptions is None:
            broken.append(("print-assumptions", raw[-500:]))
            assumptions = {}
        for th, txt in assumptions.items():
            if "Closed under the global context" not in txt and not props.allowed_axioms(txt):
                broken.append(("axioms", f"{th}: {txt[:300]}"))

    # ---- 1b. thorough tier: the independent checker coqchk re-checks the property's theorem file and
    #      everything it depends on, and lists the axioms they rely on (must be none)
    coqchk_res = None
    if tier == "thorough" and not missing and spec["theorems"]:
        mods = sorted({"Dig." + th[0] for th in spec["theorems"]})
        try:
            r = common.run(["coqchk", "-silent", "-o", "-Q", "theories", "Dig"] + mods, cwd=common.COQ, timeout=3000)
            txt = r.stdout + r.stderr
            ok_chk = r.returncode == 0 and "* Axioms: <none>" in txt
            coqchk_res = dict(modules=mods, ok=ok_chk, summary=txt[txt.find("CONTEXT SUMMARY"):][:600] if "CONTEXT SUMMARY" in txt else txt[-600:])
            if not ok_chk:
                broken.append(("coqchk", f"coqchk on {mods}: " + txt[-400:]))
        except Exception as e:  # timeout
            broken.append(("coqchk", f"coqchk on {mods} did not finish: {e}"))

    # ---- 2. build the harness against /repo's working tree
    ok, hout = common.harness_build()
    fcntl.flock(lockf, fcntl.LOCK_UN)
    if not ok:
        p = write_replay(prop, "harness-build", {"obligation": "harness builds against /repo with -tags verif", "output": hout[-3000:]})
        print(f"VIOLATION property={prop} replay={p} no-failing-input-found")
        write_evidence(prop, tier, seed, spec, t0, dict(evaluations=0, distinct_nontrivial=0), 1, assumptions, broken, [])
        return 1

    # ---- 3. histories: corpus first, then generated
    cases, traces, twins, dist = props.make_cases(spec, prop, tier, seed, load_corpus(prop))
    nontrivial = props.count_nontrivial(spec, cases, traces, prop)

    # ---- 4. model vs implementation, checkers on implementation traces
    M, V = ([], [])
    core_ok = all(f in built for f in spec.get("eval_requires", []))
    if core_ok and cases:
        M, V = evaluate(spec, cases, traces, twins)
    elif not core_ok:
        broken.append(("model", "the model files needed to evaluate the correspondence do not compile"))

    # ---- 4b. C05: the cycle detector itself on explicit digraphs (hook VerifIsAcyclic)
    graph_cov = None
    if prop == "C05" and core_ok:
        import graphs
        gs, gres, gviol, gdist = graphs.check_graphs(tier, seed)
        graph_cov = dict(graphs=len(gs), disagreements=len(gviol), **gdist)
        if gviol:
            gi, code = gviol[0]
            p = write_replay(prop, f"graph-{code}-{gi}", {"property": prop, "level": "graph",
                             "meaning": {1: "verdict differs from Graph.is_acyclic", 2: "reported path differs from the model's",
                                         3: "reported path is not a closed path of the graph", 4: "model out of fuel"}.get(code),
                             "adjacency": gs[gi], "implementation": gres[gi]})
            if code == 3 or code == 1:
                print(f"VIOLATION property={prop} replay={p}")
            else:
                print(f"VIOLATION property={prop} replay={p} no-failing-input-found")
            violations += 1

    # ---- 4b'. C02: re-entrant user code (a body calls Invoke on the container).  The model runs them
    #      through ResolveRe / RunRe (`nest` oracle emitted next to the behaviour table):
    #      M = run_re vs implementation on PExec, V = chk_C02 on the implementation's trace,
    #      W = chk_C02 on the model's own trace.
    reent_cov = None
    if prop in ("C01", "C02") and core_ok and not all(f in built for f in ("ResolveRe", "RunRe", "P_Re", "P_Re2")):
        broken.append(("model", "ResolveRe / RunRe / P_Re (re-entrant user code, conservativity) do not compile"))
    elif prop in ("C01", "C02") and core_ok:
        # (C01: what a consumer receives — the PExec projection carries every argument — must also be what the
        #  model prescribes when bodies re-enter the container; different seed stream than C02)
        recases = load_corpus("C02-reentrant") + gen.generate_reentrant(seed + (1 if prop == "C01" else 0), 800 if tier == "quick" else 20000)
        recases, retraces = common.run_impl_parallel(recases)
        re_defs = ["Fixpoint mism_re_from (k : pkind) (i : nat) (cs : list case_re) : list (nat * nat) := "
                   "match cs with [] => [] | c :: t => match first_diff_k k 0 (model_obs_re c) (cs_impl (cr_case c)) with "
                   "Some j => (i, j) :: mism_re_from k (S i) t | None => mism_re_from k (S i) t end end.",
                   "Definition M := Eval vm_compute in mism_re_from PExec 0 all_re.",
                   "Definition V := Eval vm_compute in viol_all (fun c obs => chk_C02 (cs_hist c) obs) all_cases.",
                   "Definition W := Eval vm_compute in viol_all (fun c obs => chk_C02 (cs_hist c) obs) (map model_case_re all_re).",
                   "Fixpoint hyp_ok_from (i : nat) (cs : list case_re) : list (nat * nat) := "
                   "match cs with [] => [] | c :: t => (if P_Re2.case_re_ok c then [(i, 1)] else []) ++ hyp_ok_from (S i) t end.",
                   "Definition K := Eval vm_compute in hyp_ok_from 0 all_re.",
                   "Print M.", "Print V.", "Print W.", "Print K."]

        def re_eval(cs, ts):
            def one(lo):
                src = emit.cases_file_re(list(zip(cs[lo:lo + 250], ts[lo:lo + 250])), extra="Spec Check Cases P_Re2", defs=re_defs)
                o = common.coq_eval(src, timeout=3000)
                return tuple([(lo + a[0],) + tuple(a[1:]) for a in common.parse_pairs(common.parse_printed(o, nm))] for nm in "MVWK")
            from concurrent.futures import ThreadPoolExecutor
            with ThreadPoolExecutor(max_workers=16) as ex:
                parts = list(ex.map(one, range(0, len(cs), 250)))
            return tuple([x for part in parts for x in part[k]] for k in range(4))
        reM, reV, reW, reK = re_eval(recases, retraces)
        # histories that satisfy every hypothesis of Prop_C02.C02_holds_reentrant (P_Re2.case_re_ok):
        # the theorem says the checker is silent on the model's trace; it must be on the implementation's too
        hyp_ok = set(k[0] for k in reK)

        def unwound(ci, oi, code):
            """code 202 the model reproduces at the same operation, after an unrecovered panic: the panic of
            nested work unwound through a body whose `exec` event (logged when the body starts) carries the
            planned outcome ok; that execution did not return, its function legitimately runs again"""
            return (code == 202 and (ci, oi, code) in set(reW) and not recases[ci]["config"].get("recover")
                    and any(ot["verdict"].get("v") == "panicked" for ot in retraces[ci]["ops"][:oi]))
        reV_real = [v for v in reV if not unwound(*v)]
        nested_runs = sum(1 for c, t in zip(recases, retraces) for f in c["fns"] if f.get("nested")
                          for ot in t["ops"] for ev in ot["events"] if ev["ev"] == "exec" and ev["f"] in [n["fn"] for n in f["nested"]])
        reent_cov = dict(histories=len(recases), nested_invokes_that_ran_their_function=nested_runs,
                         model_impl_disagreements=len(set(m[0] for m in reM)),
                         checker_failures=len(reV_real), checker_failures_on_model_trace=len(reW),
                         unwound_bodies_reexecuted=len(reV) - len(reV_real),
                         satisfying_the_theorems_hypotheses=len(hyp_ok),
                         of_which_checker_failures=len([v for v in reV if v[0] in hyp_ok]),
                         note="bodies that call Invoke re-entrantly are modelled by ResolveRe/RunRe (oracle `nest`); model vs implementation "
                              "on PExec, chk_C02 on the implementation's trace and on the model's own trace; `unwound_bodies_reexecuted`: "
                              "code 202 reproduced by the model after an unrecovered panic of nested work unwound through a body "
                              "(its exec event carries the planned outcome; the execution never returned)")
        seen_codes = set()
        for (ci, oi, code) in reV_real:
            if code in seen_codes:
                continue
            seen_codes.add(code)

            def repred(cand, code=code):
                cs, ts = common.run_impl([cand])
                return any(x[2] == code for x in re_eval(cs, ts)[1])
            small = recases[ci]
            try:
                small = shrink(spec, recases[ci], repred)
                keep = {o.get("fn") for o in small["ops"]}
                for _ in range(4):
                    keep |= {n["fn"] for f in recases[ci]["fns"] if f["id"] in keep for n in f.get("nested", [])}
                small = dict(small, fns=[f for f in recases[ci]["fns"] if f["id"] in keep])
            except Exception as e:
                common.log("shrink failed:", e)
            cs, ts = common.run_impl([small])
            p = write_replay(prop, f"reentrant-{code}-{case_hash(small)}",
                             {"property": prop, "failing_code": code, "meaning": props.CODES.get(code, ""),
                              "note": "functions with a `nested` entry call <scope>.Invoke(<fn>) from inside their body during the given execution",
                              "case": cs[0], "implementation_trace": ts[0]})
            print(f"VIOLATION property={prop} replay={p}")
            violations += 1
        re_explained = set(v[0] for v in reV_real)
        re_mism = [m for m in reM if m[0] not in re_explained]
        if re_mism and not seen_codes:
            ci, oi = re_mism[0][0], re_mism[0][1]
            p = write_replay(prop, f"reentrant-corr-{case_hash(recases[ci])}",
                             {"property": prop, "obligation": f"corr_{prop} (re-entrant bodies): RunRe.run_re and the implementation agree on the PExec projection",
                              "disagreeing_case": recases[ci], "operation": oi, "implementation_trace": retraces[ci],
                              "note": "no checker fails on the implementation's trace for this case"})
            print(f"VIOLATION property={prop} replay={p} no-failing-input-found")
            violations += 1

    # ---- 4b''. C10 / C11: values without identity.  Half of the group feeders return nil pointers;
    #      model and implementation are compared with every argument anonymised: what remains is which
    #      functions ran, in which order, with HOW MANY elements in every group (and which singles were zero)
    anon_cov = None
    if prop in ("C10", "C11") and core_ok:
        acases = gen.generate_anon(seed + (0 if prop == "C10" else 1), 240 if tier == "quick" else 12000)
        acases, atraces = common.run_impl_parallel(acases)
        anon_defs = [
            "Definition anon_arg (a : arg) : arg := match a with ASingle AZero => ASingle AZero | ASingle _ => ASingle (AProd 0 0 0 0) "
            "| ASlice l => ASlice (map (fun _ => AProd 0 0 0 0) l) end.",
            "Definition anon_ev (e : event) : event := match e with EExec f x r args o => EExec f x r (map anon_arg args) "
            "(match o with OOk _ => OOk [] | y => y end) | c => c end.",
            "Definition anon (o : oobs) : oobs := mkOObs (vroot (oo_verdict o)) (map anon_ev (filter is_exec (oo_events o))).",
            "Fixpoint anon_diff (i : nat) (m im : list oobs) : option nat := match m, im with [], [] => None "
            "| a :: t, b :: t' => if oobs_eqb (anon a) (anon b) then anon_diff (S i) t t' else Some i | _, _ => Some i end.",
            "Fixpoint mism_anon (i : nat) (cs : list case) : list (nat * nat) := match cs with [] => [] | c :: t => "
            "match anon_diff 0 (model_obs c) (cs_impl c) with Some j => (i, j) :: mism_anon (S i) t | None => mism_anon (S i) t end end.",
            "Definition M := Eval vm_compute in mism_anon 0 all_cases.", "Print M."]

        def anon_eval(cs, ts):
            def one(lo):
                src = emit.cases_file(list(zip(cs[lo:lo + 250], ts[lo:lo + 250])), extra="Spec Check Cases", defs=anon_defs)
                o = common.coq_eval(src, timeout=3000)
                return [(lo + a[0],) + tuple(a[1:]) for a in common.parse_pairs(common.parse_printed(o, "M"))]
            from concurrent.futures import ThreadPoolExecutor
            with ThreadPoolExecutor(max_workers=16) as ex:
                return [x for part in ex.map(one, range(0, len(cs), 250)) for x in part]
        aM = anon_eval(acases, atraces)
        nil_elems = sum(1 for t in atraces for ot in t["ops"] for ev in ot["events"] if ev["ev"] == "exec"
                        for a in (ev.get("args") or []) if a.get("isl") for x in (a.get("l") or []) if not x)
        anon_cov = dict(histories=len(acases), nil_group_elements_delivered=nil_elems, disagreements=len(set(m[0] for m in aM)),
                        note="group members that are nil pointers carry no provenance: arguments are anonymised on both sides, "
                             "the comparison is about executions, their order and the NUMBER of elements of every group")
        if aM:
            ci, oi = aM[0][0], aM[0][1]

            def apred(cand):
                cs, ts = common.run_impl([cand])
                return bool(anon_eval(cs, ts))
            small = acases[ci]
            try:
                small = shrink(spec, acases[ci], apred)
            except Exception as e:
                common.log("shrink failed:", e)
            cs, ts = common.run_impl([small])
            p = write_replay(prop, f"anon-{case_hash(small)}",
                             {"property": prop, "meaning": "with nil group members (functions marked nil_members) a consumer received a different NUMBER of "
                              "group elements (or different executions happened) than the model prescribes",
                              "case": cs[0], "implementation_trace": ts[0]})
            print(f"VIOLATION property={prop} replay={p}")
            violations += 1

    # ---- 4b-cb. C11 / C20: callbacks that look at the container they report about (tools/cbcheck.py; not modelled)
    cb_cov = None
    if prop in ("C11", "C20"):
        import cbcheck
        ccases, ctraces, cbad, cb_cov = cbcheck.check(tier, seed + (0 if prop == "C11" else 1))
        if cbad:
            ci, oi, why = cbad[0]
            p = write_replay(prop, f"callback-{case_hash(ccases[ci])}",
                             {"property": prop, "meaning": why, "operation": oi,
                              "note": "functions with a `cb_nested` entry call <scope>.Invoke(<fn>) from inside their provider callback after a successful execution",
                              "case": ccases[ci], "implementation_trace": ctraces[ci]})
            print(f"VIOLATION property={prop} replay={p}")
            violations += 1

    # ---- 4b-dry. C17: functions with concrete pointer error types returning typed nils (tools/drycheck.py; not modelled)
    drynil_cov = None
    if prop == "C17":
        import drycheck
        dn, dtn, dd, dtd, dbad, drynil_cov = drycheck.check(tier, seed)
        if dbad:
            ci, oi, why = dbad[0]
            p = write_replay(prop, f"drynil-{case_hash(dn[ci])}",
                             {"property": prop, "meaning": "the same history gives different verdict classes on a normal and on a dry container: " + why,
                              "operation": oi, "case": dn[ci], "implementation_trace": dtn[ci], "twin_case": dd[ci], "twin_trace": dtd[ci]})
            print(f"VIOLATION property={prop} replay={p}")
            violations += 1

    # ---- 4c. C14 / C18: the grammar stream against Parse.v (DryRun container)
    raw_cov = None
    if prop in ("C09", "C14", "C18") and all(f in built for f in ("GoTypes", "Parse", "RunRaw")):
        import rawcheck
        # (C09: the keys a registration offers and asks for are what its Info lists; same stream as C18)
        rcorpus = load_corpus(("C18" if prop == "C09" else prop) + "-raw")
        rcases, rtraces, rM, rV, rdist = rawcheck.check(tier, seed, rcorpus)
        if prop == "C14":
            rviol = [(ci, oi, code) for (ci, oi, code) in rV]
            rmis = [(ci, oi) for (ci, oi, code) in rM if code == 1]
        else:
            rviol = [(ci, oi, 1800 + code) for (ci, oi, code) in rM if code == 2]
            rmis = [(ci, oi) for (ci, oi, code) in rM if code == 1] if prop == "C09" else []
        raw_cov = dict(rdist, disagreements=len(set(m[0] for m in rmis)), checker_failures=len(rviol))
        seen_codes = set()
        for (ci, oi, code) in rviol:
            if code in seen_codes:
                continue
            seen_codes.add(code)

            def rpred(cand, code=code):
                cs, ts, m2, v2 = rawcheck.run_raw([cand])
                if prop == "C14":
                    return any(x[2] == code for x in v2)
                return any(x[2] == 2 for x in m2)
            small = rawcheck.shrink(rcases[ci], rpred)
            cs, ts = common.run_impl([small])
            p = write_replay(prop, f"raw-{code}-{case_hash(small)}",
                             {"property": prop, "failing_code": code,
                              "meaning": {1401: "dig (or Visualize/String) panicked on this input", 1403: "an input the signature grammar rejects was accepted",
                                          1802: "the Info struct differs from the declared inputs/outputs (or was touched by a rejected call)"}.get(code, ""),
                              "case": cs[0], "implementation_trace": ts[0]})
            print(f"VIOLATION property={prop} replay={p}")
            violations += 1
        if rmis and not rviol:
            ci, oi = rmis[0]
            p = write_replay(prop, f"raw-corr-{case_hash(rcases[ci])}",
                             {"property": prop, "obligation": "corr_raw: Parse.v and the implementation give the same verdict class on the grammar stream",
                              "disagreeing_case": rcases[ci], "operation": oi, "implementation_trace": rtraces[ci]})
            print(f"VIOLATION property={prop} replay={p} no-failing-input-found")
            violations += 1

    # ---- 4c-bis. C14: Visualize (plain and with the error of every failed Invoke) never panics, also on
    #      histories over declared functions (distinct dig IDs) with failing decorators (unknown IDs)
    vizpanic_cov = None
    if prop == "C14":
        pcases = gen.generate_viz(seed + 7, 120 if tier == "quick" else 6000, decorators=True)
        # + bodies that call Provide on the container (re-entrant registration): not modelled, must not crash
        pcases += gen.generate_reentrant(seed + 3, 150 if tier == "quick" else 5000, provides=True)
        pcases, ptraces = common.run_impl_parallel(pcases)
        bad = [(ci, oi) for ci, t in enumerate(ptraces) for oi, ot in enumerate(t["ops"])
               if ot.get("dot_err") == "PANIC" or not ot.get("viz_ok", True) or not ot.get("str_ok", True)
               or ot["verdict"].get("v") in ("digpanic", "diverged")]
        vizpanic_cov = dict(histories=len(pcases), error_graphs_drawn=sum(1 for t in ptraces for ot in t["ops"] if ot.get("dot_err")),
                            failed_decorator_invokes=sum(1 for c, t in zip(pcases, ptraces) for o, ot in zip(c["ops"], t["ops"])
                                                         if o["op"] == "invoke" and ot["verdict"].get("v") == "err"
                                                         and any(x in (ot["verdict"].get("chain") or []) for x in ("paramgroup", "paramsingle"))),
                            panics=len(bad))
        if bad:
            ci, oi = bad[0]

            def ppred(cand, oi=oi):
                cs, ts = common.run_impl([cand])
                return any(ot.get("dot_err") == "PANIC" or not ot.get("viz_ok", True) or not ot.get("str_ok", True)
                           or ot["verdict"].get("v") in ("digpanic", "diverged") for ot in ts[0]["ops"])
            small = pcases[ci]
            try:
                small = shrink(spec, pcases[ci], ppred)
            except Exception as e:
                common.log("shrink failed:", e)
            cs, ts = common.run_impl([small])
            p = write_replay(prop, f"vizpanic-{case_hash(small)}",
                             {"property": prop, "failing_code": 1401, "meaning": "dig (Provide / Decorate / Invoke, Visualize, Visualize with the Invoke's error, or String) panicked",
                              "case": cs[0], "implementation_trace": ts[0]})
            print(f"VIOLATION property={prop} replay={p}")
            violations += 1

    # ---- 4c'. C18: constructor IDs of declared functions (distinct functions distinct IDs, same function same ID)
    id_cov = None
    if prop == "C18":
        import subprocess
        r = subprocess.run([common.HARNESS_BIN, "idprobe"], stdout=subprocess.PIPE, stderr=subprocess.DEVNULL, text=True, timeout=120)
        recs = json.loads(r.stdout) if r.returncode == 0 and r.stdout.strip() else []
        acc = [x for x in recs if not x.get("err")]
        byf, byid = collections.defaultdict(set), collections.defaultdict(set)
        for x in acc:
            byf[x["pool"]].add(x["id"])
            byid[x["id"]].add(x["pool"])
        bad = [f for f, v in byf.items() if len(v) > 1] + [i for i, v in byid.items() if len(v) > 1]
        touched = [x for x in recs if x.get("err") and x["id"] != 0]
        id_cov = dict(functions=len(byf), id_records=len(recs), accepted=len(acc), inconsistent=len(bad), rejected_but_id_written=len(touched))
        if not recs or bad or touched:
            p = write_replay(prop, "idprobe", {"property": prop, "meaning": "IDs of declared functions: the same function must always get the same ID, distinct functions distinct IDs, a rejected call must not write an ID",
                                               "records": recs[:400], "inconsistent": bad, "rejected_but_id_written": touched[:20]})
            print(f"VIOLATION property={prop} replay={p}")
            violations += 1

    # ---- 4c-ter. C18 on core histories (non-dry, decorators, named slice types, failing functions):
    #      every Info struct against the declaration (tools/infocheck.py)
    coreinfo_cov = None
    if prop == "C18":
        import infocheck
        icases, itraces, ibad, coreinfo_cov = infocheck.check(tier, seed)
        if ibad:
            ci, oi, detail = ibad[0]
            p = write_replay(prop, f"coreinfo-{case_hash(icases[ci])}",
                             {"property": prop, "failing_code": 1802, "meaning": "the Info struct of this call differs from the declaration (or was filled / left empty at the wrong time)",
                              "operation": oi, "detail": detail, "case": icases[ci], "implementation_trace": itraces[ci]})
            print(f"VIOLATION property={prop} replay={p}")
            violations += 1

    # ---- 4c''. C20: CallbackInfo.Name identifies the function (declared functions: distinct names)
    name_cov = None
    if prop == "C20":
        ncases = gen.generate_viz(seed, 240 if tier == "quick" else 4000, pool_decorators=True)
        for c in ncases:
            c["viz"] = False
            for f in c["fns"]:
                if f.get("pool") is not None:
                    f["callback"] = True
        ncases, ntraces = common.run_impl_parallel(ncases)
        seen_cb, wrong = 0, []
        for c, t in zip(ncases, ntraces):
            pool_of = {f["id"]: (f.get("pool") if f.get("pool") is not None else f.get("loc_pool")) for f in c["fns"]}
            for oi, ot in enumerate(t["ops"]):
                for ev in ot["events"]:
                    if ev["ev"] == "cb" and pool_of.get(ev["f"]) is not None:
                        seen_cb += 1
                        if ev.get("name") != f"main.P{pool_of[ev['f']]}":
                            wrong.append((c, t, oi, ev))
        dec_cb = sum(1 for c, t in zip(ncases, ntraces) for ot in t["ops"] for ev in ot["events"]
                     if ev["ev"] == "cb" and any(o["op"] == "decorate" and o["fn"] == ev["f"] for o in c["ops"]))
        name_cov = dict(histories=len(ncases), callbacks_of_declared_functions=seen_cb,
                        of_which_decorators=dec_cb,
                        of_which_located_by_LocationForPC=sum(1 for c, t in zip(ncases, ntraces) for ot in t["ops"] for ev in ot["events"]
                                                              if ev["ev"] == "cb" and any(f["id"] == ev["f"] and f.get("loc_pool") is not None for f in c["fns"])),
                        wrong_names=len(wrong))
        if wrong:
            c, t, oi, ev = wrong[0]
            p = write_replay(prop, f"name-{case_hash(c)}", {"property": prop, "meaning": "CallbackInfo.Name does not identify the function that was executed",
                                                            "operation": oi, "callback": ev, "case": c, "implementation_trace": t})
            print(f"VIOLATION property={prop} replay={p}")
            violations += 1

    # ---- 4d. C19: Visualize against Dot.v and the registry
    viz_cov = None
    if prop == "C19" and all(f in built for f in ("Dot", "RunViz", "DotText")):
        import vizcheck
        vcases, vtraces, vM, vV, vT, vdist = vizcheck.check(tier, seed, load_corpus("C19-viz"))
        viz_cov = dict(vdist, disagreements=len(set(m[0] for m in vM)), checker_failures=len(vV))
        seen_codes = set()
        for (ci, oi, code) in vV:
            if code in seen_codes:
                continue
            seen_codes.add(code)

            def vpred(cand, code=code):
                cs, ts, m2, v2 = vizcheck.run_viz([cand])[:4]
                return any(x[2] == code for x in v2)
            small = vcases[ci]
            try:
                small = shrink(spec, vcases[ci], vpred)
            except Exception as e:
                common.log("shrink failed:", e)
            cs, ts = common.run_impl([small])
            p = write_replay(prop, f"viz-{code}-{case_hash(small)}",
                             {"property": prop, "failing_code": code,
                              "meaning": {1901: "the DOT text is not well formed (an HTML-like label contains raw <, > or &, or a line the DOT grammar subset does not allow)",
                                          1902: "the graph is not the picture of the accepted registrations"}.get(code, ""),
                              "case": cs[0], "implementation_trace": ts[0]})
            print(f"VIOLATION property={prop} replay={p}")
            violations += 1
        if vM and not vV:
            ci, oi, code = vM[0]
            p = write_replay(prop, f"viz-corr-{case_hash(vcases[ci])}",
                             {"property": prop, "obligation": "corr_C19: Dot.v (create_graph / update_graph on the model state) prints the same structure as Visualize",
                              "which": {1: "plain graph", 2: "graph marked with the Invoke's error"}.get(code),
                              "disagreeing_case": vcases[ci], "operation": oi, "implementation_trace": vtraces[ci]})
            print(f"VIOLATION property={prop} replay={p} no-failing-input-found")
            violations += 1
        if vT:
            # equal structure, different bytes: the text model (DotText.v) and the printer disagree
            ci, oi, which = vT[0]
            p = write_replay(prop, f"viz-text-{case_hash(vcases[ci])}",
                             vizcheck.text_replay(prop, vcases[ci], vtraces[ci], oi, which))
            print(f"VIOLATION property={prop} replay={p} no-failing-input-found")
            violations += 1

    # ---- 5. verdicts
    def is_known(code, ci=None, oi=None):
        for k in known:
            if code in k.get("codes", []):
                if k.get("predicate"):
                    # identified by the situation, not by the code: every other violation with this code is reported
                    if ci is None or twins is None or not PREDICATES[k["predicate"]](cases[ci], traces[ci], twins[ci], oi, code):
                        continue
                return k
        return None

    vio_by_case = collections.defaultdict(list)
    model_viol = getattr(evaluate, "last_model_viol", set())
    for (ci, oi, code) in V:
        k = is_known(code, ci, oi)
        # a known finding is the documented behaviour: the model reproduces it at the same operation
        if k and ((ci, oi, code) in model_viol or k.get("model_reproduces") is False):
            known_hits[k["id"]] += 1
            common.log("known finding", k["id"], "matched at", cases[ci]["id"], "op", oi, "code", code)
        else:
            vio_by_case[ci].append((oi, code))
    reported = set()
    for ci in sorted(vio_by_case):
        oi, code = vio_by_case[ci][0]
        sig = code
        if sig in reported:
            continue
        reported.add(sig)
        c = cases[ci]

        def pred(cand, code=code):
            cand = {k_: v_ for k_, v_ in cand.items() if k_ != "fixed_twin"}
            cs, ts = common.run_impl([cand])
            tw = props.twins_for(spec, cs, ts, seed)
            _, v = evaluate(spec, cs, ts, tw)
            return any(x[2] == code for x in v)
        small = c
        if spec.get("shrink", True) and len(reported) <= 3:
            try:
                small = shrink(spec, c, pred)
            except Exception as e:  # shrinking is best effort
                common.log("shrink failed:", e)
        cs, ts = common.run_impl([small])
        payload = {"property": prop, "failing_code": code, "meaning": props.CODES.get(code, ""),
                   "case": cs[0], "implementation_trace": ts[0]}
        if spec.get("twin"):
            tw = props.twins_for(spec, cs, ts, seed)
            payload["twin_case"], payload["twin_trace"], payload["twin_perm"] = tw[0]
        p = write_replay(prop, f"viol-{code}-{case_hash(small)}", payload)
        print(f"VIOLATION property={prop} replay={p}")
        violations += 1
    mism_unexplained = [m for m in M if m[0] not in vio_by_case]
    if mism_unexplained and not violations:
        ci, oi = mism_unexplained[0][0], mism_unexplained[0][1]
        p = write_replay(prop, f"corr-{case_hash(cases[ci])}",
                         {"property": prop, "obligation": f"corr_{prop}: model and implementation agree on the {spec['projection']} projection",
                          "disagreeing_case": cases[ci], "operation": oi, "implementation_trace": traces[ci],
                          "note": "no checker fails on the implementation's trace for this or any neighbouring case explored"})
        print(f"VIOLATION property={prop} replay={p} no-failing-input-found")
        violations += 1
    if broken and not violations:
        p = write_replay(prop, "broken-proof", {"property": prop, "broken": broken})
        print(f"VIOLATION property={prop} replay={p} no-failing-input-found")
        violations += 1
    for k in known:
        if known_hits[k["id"]]:
            print(f"KNOWN-FINDING: property={prop} {k['what']} ({known_hits[k['id']]} histories in this run)")

    cov = dict(evaluations=len(cases), distinct_nontrivial=nontrivial,
               traces_validated_against_impl=len(cases) - len(set(m[0] for m in M)),
               model_impl_disagreements=len(set(m[0] for m in M)),
               checker_failures=len(V), known_finding_hits=sum(known_hits.values()),
               input_distribution=dist)
    if reent_cov:
        cov["reentrant_user_code"] = reent_cov
        cov["evaluations"] += reent_cov["histories"]
    if coqchk_res:
        cov["coqchk"] = coqchk_res
    if cb_cov:
        cov["callbacks_looking_at_the_container"] = cb_cov
        cov["evaluations"] += cb_cov["histories"]
    if drynil_cov:
        cov["typed_nil_errors_dry_vs_normal"] = drynil_cov
        cov["evaluations"] += drynil_cov["histories"]
    if anon_cov:
        cov["anonymous_values"] = anon_cov
        cov["evaluations"] += anon_cov["histories"]
    if vizpanic_cov:
        cov["visualize_never_panics"] = vizpanic_cov
        cov["evaluations"] += vizpanic_cov["histories"]
    if name_cov:
        cov["callback_names"] = name_cov
    if id_cov:
        cov["function_ids"] = id_cov
    if coreinfo_cov:
        cov["info_on_core_histories"] = coreinfo_cov
        cov["evaluations"] += coreinfo_cov["histories"]
    if viz_cov:
        cov["visualize"] = viz_cov
        cov["evaluations"] += viz_cov["viz_cases"]
        cov["distinct_nontrivial"] += viz_cov["viz_cases"]
        cov["traces_validated_against_impl"] += viz_cov["viz_cases"] - viz_cov["disagreements"]
    if raw_cov:
        cov["grammar_stream"] = raw_cov
        cov["evaluations"] += raw_cov["raw_cases"]
        cov["distinct_nontrivial"] += raw_cov["raw_cases"]
        cov["traces_validated_against_impl"] += raw_cov["raw_cases"] - raw_cov["disagreements"]
    if prop == "C05":
        cov["exhaustive_subspaces"] = ["all digraphs with <= %d vertices (graph level)" % (3 if tier == "quick" else 4),
                                       "all histories: 2 constructors over 2 keys x every dependency subset x every scope of both 3-scope trees x Export x both verification modes x scope created early/late, followed by every Invoke"
                                       + ("" if tier == "quick" else "; the same with 3 constructors without Export")]
    if graph_cov:
        cov["graph_level"] = graph_cov
        cov["evaluations"] += graph_cov["graphs"]
        cov["distinct_nontrivial"] += graph_cov["graphs"]
        cov["traces_validated_against_impl"] += graph_cov["graphs"] - graph_cov["disagreements"]
    write_evidence(prop, tier, seed, spec, t0, cov, violations, assumptions, broken,
                   props.samples(cases, traces))
    return 1 if violations else 0


def write_evidence(prop, tier, seed, spec, t0, cov, violations, assumptions, broken, samples):
    n_ob = len(spec["theorems"]) + len(spec["requires"])
    discharged = 0 if broken else n_ob
    coverage = dict(cov)
    coverage.update(
        obligations=max(n_ob, 1), discharged=discharged if n_ob else (0 if broken else 1),
        checker_cmd="make -C coq -j16 (coqc 8.16.1, full .vo build) ; coqc cases_*.v (vm_compute)",
        trusted_base=props.TRUSTED_BASE,
        theorems=spec["theorems"], print_assumptions=assumptions,
        rule=spec["rule"], samples=samples[:3], exhaustive=False,
        broken=[list(b) for b in broken], projection=spec["projection"])
    ev = dict(property_id=prop, tier=tier, seed=seed, level="proof", coverage=coverage,
              assumptions=props.ASSUMPTIONS, wall_s=round(time.time() - t0, 1), violations=violations)
    os.makedirs(os.path.join(VERIF, "evidence"), exist_ok=True)
    json.dump(ev, open(os.path.join(VERIF, "evidence", prop + ".json"), "w"), indent=1)


if __name__ == "__main__":
    sys.exit(main())
