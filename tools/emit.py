"""emit.py — turn harness cases (JSON) and implementation traces (JSON) into
Gallina literals of type Run.case, so that one coqc call evaluates the model on
the same histories and compares observations."""
import json


def nat(n):
    return str(int(n))


def lst(items):
    return "[" + "; ".join(items) + "]"


def boolc(b):
    return "true" if b else "false"


def key_single(ty, name):
    return f"(mkKey {ty} {name} 0)"


def key_group(ty, group):
    return f"(mkKey {ty} 0 {group})"


def param(p):
    k = p["k"]
    if k == "single":
        return f"(PSingle {key_single(p['ty'], p.get('name', 0))} {boolc(p.get('opt', False))})"
    if k == "group":
        return f"(PGroup {key_group(p['ty'], p['group'])} {boolc(p.get('soft', False))})"
    if k == "obj":
        return f"(PObj {lst([param(f) for f in p.get('fields', [])])})"
    raise ValueError(k)


def result(r):
    k = r["k"]
    if k == "single":
        tys = r.get("as") or [r["ty"]]
        keys = [key_single(t, r.get("name", 0)) for t in tys]
        return f"(RSingle {keys[0]} {lst(keys[1:])})"
    if k == "group":
        tys = r.get("as") or [r["ty"]]
        keys = [key_group(t, r["group"]) for t in tys]
        return f"(RGroup {keys[0]} {boolc(r.get('flatten', False))} {lst(keys[1:])})"
    if k == "obj":
        return f"(RObj {lst([result(f) for f in r.get('fields', [])])})"
    raise ValueError(k)


def sig(fn):
    return (f"(mkSig {lst([param(p) for p in fn.get('params', [])])} "
            f"{lst([result(r) for r in fn.get('results', [])])} {boolc(fn.get('err', False))})")


def outcome(fn, e):
    plan = fn.get("plan") or []
    p = plan[e] if e < len(plan) else "ok"
    if p == "err" and not fn.get("err", False):
        p = "ok"
    if p == "ok":
        lens = fn.get("lens") or []
        l = lens[e] if e < len(lens) else []
        return f"OOk {lst([nat(x) for x in l])}"
    return {"err": "OErr", "panic": "OPanic"}[p]


def beh_table(case):
    rows = []
    for fn in case["fns"]:
        n = max(len(fn.get("plan") or []), len(fn.get("lens") or []))
        if n == 0:
            continue
        rows.append(f"({fn['id']}, {lst([outcome(fn, e) for e in range(n)])})")
    return lst(rows)


def dur_table(case):
    rows = []
    for fn in case["fns"]:
        d = fn.get("dur") or []
        if d:
            rows.append(f"({fn['id']}, {lst([str(int(x)) + '%N' for x in d])})")
    return lst(rows)


def parse_rejects(fn):
    """the one decision of dig's signature parser that a CORE history can meet
    (everything else the core generator produces parses): a grouped result whose
    dig.As list names an interface twice is rejected (D20).  The same rule is a
    clause of Parse.new_result_optgroup, tied to the code by the grammar stream;
    here it only decides that the operation is the model's `OBad`."""
    def walk(rs):
        for r in rs:
            if r["k"] == "obj":
                if walk(r["fields"]):
                    return True
            elif r["k"] == "group" and len(set(r.get("as") or [])) != len(r.get("as") or []):
                return True
        return False
    return walk(fn.get("results") or [])


def is_bad(o, fns):
    if o["op"] == "bad":
        return True
    return o["op"] == "provide" and parse_rejects(fns[o["fn"]])


def bad_flags(case):
    fns = {f["id"]: f for f in case["fns"]}
    return [is_bad(o, fns) for o in case["ops"]]


def op(o, fns):
    k = o["op"]
    if k == "scope":
        return f"OScope {o['parent']}"
    if k == "provide" and parse_rejects(fns[o["fn"]]):
        return f"OBad BadProvide {o['scope']} {o['fn']}"
    if k == "bad":
        kind = {"provide": "BadProvide", "decorate": "BadDecorate", "invoke": "BadInvoke"}[o["kind"]]
        return f"OBad {kind} {o['scope']} 0"
    fn = fns[o["fn"]]
    if k == "provide":
        return (f"OProvide {o['scope']} (mkProvideIn {fn['id']} {sig(fn)} "
                f"{boolc(o.get('export', False))} {boolc(fn.get('callback', False))})")
    if k == "decorate":
        return f"ODecorate {o['scope']} (mkDecorateIn {fn['id']} {sig(fn)} {boolc(fn.get('callback', False))})"
    if k == "invoke":
        return f"OInvoke {o['scope']} (mkInvokeIn {fn['id']} {sig(fn)})"
    raise ValueError(k)


LINKS = {"provide": "KProvide", "invalid": "KInvalid", "args": "KArgs", "missingdeps": "KMissingDeps",
         "ctorfailed": "KCtorFailed", "paramsingle": "KParamSingle", "paramgroup": "KParamGroup"}


def rkind(r):
    k = r["k"]
    if k == "user":
        return f"(QUser {r['f']} {r['e']})"
    if k == "panic":
        if r["f"] < 0:
            return "QForeign"
        return f"(QPanic {r['f']} {r['e']})"
    return {"missing": "QMissing", "cycle": "QCycle", "invalid": "QInvalidLeaf",
            "groupopt": "QGroupOpt", "foreign": "QForeign"}[k]


def overdict(v, is_bad):
    k = v["v"]
    if k == "ok":
        return "OVOk"
    if k == "err":
        chain = v.get("chain") or []
        root = v["root"]
        if is_bad and (root["k"] == "foreign" or any(c not in LINKS for c in chain)):
            # a rejection that bottoms out in a non-dig error
            return "(OVErr [] QForeign)"
        if is_bad and all(c in ("provide", "invalid") for c in chain) and root["k"] in ("invalid", "groupopt"):
            # a rejected malformed input: the model only says "invalid input";
            # the exact nesting of errInvalidInput wrappers is not modelled
            return "(OVErr [] QInvalidLeaf)"
        links = []
        for c in chain:
            if c not in LINKS:
                return "OVBug"  # unknown wrapper type: never equal to the model
            links.append(LINKS[c])
        return f"(OVErr {lst(links)} {rkind(root)})"
    if k == "panicked":
        return f"(OVPanicked {v.get('f', 0)} {v.get('e', 0)})"
    if k == "digpanic":
        return "OVBug"
    if k == "diverged":
        return "OVDiverged"
    raise ValueError(k)


def atom(a):
    if a is None or len(a) == 0:
        return "AZero"
    return f"(AProd {a[0]} {a[1]} {a[2]} {a[3]})"


def arg(a):
    if a.get("isl"):
        return f"(ASlice {lst([atom(x) for x in (a.get('l') or [])])})"
    if a.get("zero"):
        return "(ASingle AZero)"
    return f"(ASingle {atom(a['s'])})"


ROLES = {"ctor": "RoleCtor", "dec": "RoleDec", "inv": "RoleInv"}
OUTS = {"ok": "(OOk [])", "err": "OErr", "panic": "OPanic"}


def event(ev):
    if ev["ev"] == "exec":
        return (f"(EExec {ev['f']} {ev['e']} {ROLES[ev['role']]} "
                f"{lst([arg(a) for a in (ev.get('args') or [])])} {OUTS[ev['out']]})")
    if ev["ev"] == "cb":
        e = ev.get("err")
        if e is None:
            c = "ENone"
        elif e["k"] == "user":
            c = f"(EUser {e['f']} {e['e']})"
        elif e["k"] == "panic" and e["f"] >= 0:
            c = f"(EPanicE {e['f']} {e['e']})"
        else:
            c = "(EUser 999999 999999)"  # a dig-originated error in a callback: never produced by the model
        return f"(ECallback {ev['f']} {c} {int(ev['rt'])}%N)"
    # anything else (user code ran during Visualize/String): an impossible event
    return "(EExec 999999 0 RoleInv [] OPanic)"


def oobs(optrace, is_bad):
    if not optrace.get("viz_ok", True) or not optrace.get("str_ok", True):
        # Visualize (plain, or with the error of this failed Invoke) or String panicked: dig crashed
        return f"(mkOObs OVBug {lst([event(e) for e in optrace['events']])})"
    return f"(mkOObs {overdict(optrace['verdict'], is_bad)} {lst([event(e) for e in optrace['events']])})"


def case_term(case, trace):
    fns = {f["id"]: f for f in case["fns"]}
    cfg = case["config"]
    ops = [op(o, fns) for o in case["ops"]]
    bad = bad_flags(case)
    impl = [oobs(t, bad[i]) for i, t in enumerate(trace["ops"])]
    return (f"(mkCase (mkConfig {boolc(cfg.get('defer'))} {boolc(cfg.get('recover'))} {boolc(cfg.get('dry'))})\n"
            f"   {beh_table(case)}\n   {dur_table(case)}\n"
            f"   {lst(ops)}\n   {lst(impl)})")


def has_nested(case):
    return any(f.get("nested") for f in case["fns"])


def nest_table(case):
    """the `nest` oracle of RunRe.nest_of: per function the Invokes its body makes,
    (execution index, (scope, invoked function with ITS signature)), in body order.
    An entry naming an unknown function is dropped, as the harness drops it."""
    fns = {f["id"]: f for f in case["fns"]}
    rows = []
    for fn in case["fns"]:
        ent = []
        for n in fn.get("nested") or []:
            g = fns.get(n["fn"])
            if g is None or n["scope"] < 0:
                continue
            ent.append(f"({n['exec']}, ({n['scope']}, mkInvokeIn {g['id']} {sig(g)}))")
        if ent:
            rows.append(f"({fn['id']}, {lst(ent)})")
    return lst(rows)


def cases_file_re(pairs, extra="", defs=()):
    """as cases_file, for histories with re-entrant bodies: additionally
    r<i> : case_re (the case with its nest table) and all_re"""
    out = [HEADER.format(extra=("RunRe " + extra).strip())]
    names = []
    for i, (c, t) in enumerate(pairs):
        out.append(f"Definition c{i} : case := {case_term(c, t)}.")
        out.append(f"Definition r{i} : case_re := mkCaseRe c{i} {nest_table(c)}.")
        names.append(f"{i}")
    out.append(f"Definition all_cases : list case := {lst(['c' + n for n in names])}.")
    out.append(f"Definition all_re : list case_re := {lst(['r' + n for n in names])}.")
    out.extend(defs)
    return "\n".join(out) + "\n"


HEADER = """From Dig Require Import Base Sig State Graph Register Resolve Run {extra}.
Open Scope nat_scope.
"""


def cases_file(pairs, extra="", defs=()):
    """pairs: list of (case, trace).  Emits one Definition per case (keeps
    parsing linear) and the list of all."""
    out = [HEADER.format(extra=extra)]
    names = []
    for i, (c, t) in enumerate(pairs):
        out.append(f"Definition c{i} : case := {case_term(c, t)}.")
        names.append(f"c{i}")
    out.append(f"Definition all_cases : list case := {lst(names)}.")
    out.extend(defs)
    return "\n".join(out) + "\n"


if __name__ == "__main__":
    import sys
    cases = [json.loads(l) for l in open(sys.argv[1]) if l.strip()]
    traces = [json.loads(l) for l in open(sys.argv[2]) if l.strip()]
    defs = ["Definition M := Eval vm_compute in mismatches all_cases.", "Print M."]
    sys.stdout.write(cases_file(list(zip(cases, traces)), defs=defs))
