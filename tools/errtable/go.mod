module verif/errtable

go 1.20
