"""gen.py — structured generator of dig histories (cases for the harness and
the model).  Every random choice derives from one random.Random instance.

The generator keeps a rough picture of what is registered where, only to steer
generation towards mostly-valid graphs with deliberate hazards; it is never
used as an oracle."""
import random, copy

NSTRUCT = 16
IFACES = [16, 17, 18, 19]
PRIMES = [2, 3, 5, 7, 11, 13, 17, 19, 23, 29, 31, 37, 41, 43, 47]

DEFAULT = dict(
    n_ops=(6, 22), max_scopes=6, p_defer=0.25, p_recover=0.6, p_dry=0.0,
    w_scope=2, w_provide=9, w_decorate=2, w_invoke=6, w_bad=0.3,
    p_fault=0.12, p_callback=0.3, p_export=0.12,
    p_group_result=0.25, p_flatten=0.4, p_as=0.12, p_named=0.25,
    p_opt=0.25, p_group_param=0.25, p_soft=0.35, p_obj=0.5, p_nest=0.25,
    p_dup=0.06, p_cycle=0.1, p_unknown_dep=0.08, p_foreign_dep=0.12,
    n_types=8, early_scopes=0.3, p_multi_dec=0.25, p_group_dec=0.3, p_dec_self=0.85, p_one_obj=0.0, p_soft_pattern=0.0, p_dec_chain=0.0, p_dup_as=0.03, p_dup_dec_key=0.0, p_variadic=0.12, p_ns=0.2, p_wrap_ty=0.08, p_group_chain=0.02, p_unexp=0.1, p_late_scope_cycle=0.02, p_dec_extra=0.03, p_empty_invoke=0.04, p_no_result=0.025, p_iface_ty=0.04,
)

PROFILES = {
    "core-mix": {},
    "singleton": dict(w_invoke=10, p_fault=0.15, n_types=5, p_export=0.25, w_decorate=3, p_group_result=0.4,
                      p_group_param=0.45, p_flatten=0.6, p_soft=0.2),
    "bystanders": dict(w_provide=12, w_invoke=4, p_soft=0.6, n_types=10, p_group_chain=0.08),
    "gaps": dict(p_unknown_dep=0.25, p_foreign_dep=0.3, p_opt=0.5, p_fault=0.08, w_decorate=1, n_types=7, p_export=0.3,
                 early_scopes=0.6),
    "dfaults": dict(w_decorate=6, p_fault=0.3, p_opt=0.5, n_types=5, p_multi_dec=0.3, p_group_dec=0.3, w_invoke=9,
                    p_dec_chain=0.3, p_dec_retry=0.2),
    "gfaults": dict(p_group_result=0.7, p_group_param=0.7, p_soft=0.1, p_flatten=0.4, n_types=3, p_fault=0.35,
                    w_decorate=0.5, early_scopes=0.8, w_scope=3, w_invoke=8),
    "cycles": dict(p_late_scope_cycle=0.2, p_cycle=0.45, p_defer=0.5, p_export=0.3, w_provide=12, w_invoke=4, w_decorate=0.5,
                   p_fault=0.0, n_types=4, p_named=0.1, p_group_result=0.2, p_group_param=0.3, w_scope=3,
                   p_unknown_dep=0.02, p_foreign_dep=0.05),
    "rejections": dict(p_dup=0.3, p_cycle=0.3, w_bad=2.5, w_decorate=3, p_multi_dec=0.5, n_types=5, p_export=0.2),
    "faults": dict(p_fault=0.4, p_callback=0.5, w_invoke=9, w_decorate=3, n_types=6),
    "trees": dict(p_late_scope_cycle=0.08, p_dec_chain=0.35, w_scope=5, max_scopes=8, p_export=0.25, early_scopes=0.5, w_decorate=2, p_fault=0.03),
    "keys": dict(p_iface_ty=0.15, p_named=0.6, p_as=0.35, p_group_result=0.4, p_dup=0.2, n_types=3, w_decorate=1, p_fault=0.02),
    "groups": dict(p_group_result=0.7, p_group_param=0.7, p_soft=0.15, p_flatten=0.5, p_as=0.3, n_types=4,
                   w_decorate=0.6, p_fault=0.05, p_export=0.2, p_group_chain=0.08, p_wrap_ty=0.25),
    "soft": dict(p_group_result=0.6, p_group_param=0.7, p_soft=0.6, n_types=4, w_decorate=0.3, p_fault=0.03, p_one_obj=0.7, p_soft_pattern=0.35),
    "decor": dict(w_decorate=7, p_multi_dec=0.35, p_group_dec=0.35, n_types=5, p_fault=0.12, w_scope=3, p_dec_chain=0.35,
                  p_dup_dec_key=0.04, p_ns=0.45, p_dec_retry=0.12, p_dec_extra=0.12),
    "callbacks": dict(p_callback=0.8, p_fault=0.3, w_decorate=3, n_types=6),
    "dry": dict(p_dry=1.0, p_fault=0.0, p_callback=0.35, p_variadic=0.3, w_decorate=3, p_empty_invoke=0.15,
                p_group_result=0.45, p_flatten=0.6, p_group_param=0.45, p_unknown_dep=0.15, w_invoke=9),
}


def profile(name):
    p = dict(DEFAULT)
    p.update(PROFILES[name])
    return p


class Gen:
    def __init__(self, rng, prof):
        self.r = rng
        self.p = prof
        self.parents = [None]          # scope tree
        self.prov = [dict()]           # per scope: key -> fn id (single keys) / list (group keys)
        self.decorated = [set()]       # per scope: decorated keys
        self.fns = []
        self.ops = []
        self.wanted = []               # (key, consumer fn, consumer's result keys, scope)
        self.multi = []                # (scope, single key, group key) offered by one multi-result constructor
        self.nfn = 0

    # ----- helpers -----
    def chance(self, p):
        return self.r.random() < p

    def ancestors(self, s):
        out = []
        while s is not None:
            out.append(s)
            s = self.parents[s]
        return out

    def visible_keys(self, s, kind):
        ks = []
        for b in self.ancestors(s):
            ks += [k for k in self.prov[b] if k[0] == kind]
        # exported constructors live in the root, already covered by ancestors
        return ks

    def all_keys(self, kind):
        ks = []
        for b in range(len(self.parents)):
            ks += [k for k in self.prov[b] if k[0] == kind]
        return ks

    def rand_type(self):
        t = self.r.randrange(self.p["n_types"])
        if self.chance(self.p["p_iface_ty"]):
            return self.r.choice(IFACES)      # a key whose declared type is itself an interface
        if self.chance(self.p["p_wrap_ty"]):
            # structural type codes (GoTypes.tcode): 32+4k = *T<k>, 35+4k = NS<k> (a named slice type with
            # methods): keys distinct from T<k>, both implement I0..I3; with NS<k> a value group has
            # MEMBERS that are themselves slices
            t = (32 if self.chance(0.4) else 35) + 4 * (t % 3)
        return t

    def rand_single_key(self):
        name = self.r.choice([1, 2]) if self.chance(self.p["p_named"]) else 0
        return ("s", self.rand_type(), name)

    def rand_group_key(self):
        return ("g", self.rand_type(), self.r.choice([1, 2]))

    def new_fn(self, **kw):
        f = dict(id=self.nfn, params=[], results=[], err=False)
        f.update(kw)
        self.nfn += 1
        self.fns.append(f)
        return f

    # ----- parameters -----
    def leaf_param(self, k, opt=False, soft=False):
        if k[0] == "s":
            return dict(k="single", ty=k[1], name=k[2], opt=opt)
        d = dict(k="group", ty=k[1], group=k[2], soft=soft)
        if k[1] < 3 and self.chance(self.p["p_ns"]):
            d["ns"] = self.r.choice([1, 2])          # consumed through the named slice type NS<ty> (same key for dig and for the model)
        return d

    def pick_dep(self, s):
        """one dependency key for a consumer living in scope s"""
        r = self.r.random()
        want_group = self.chance(self.p["p_group_param"])
        kind = "g" if want_group else "s"
        vis = self.visible_keys(s, kind)
        if r < self.p["p_unknown_dep"] or (not vis and not self.all_keys(kind)):
            return self.rand_group_key() if want_group else self.rand_single_key()
        if r < self.p["p_unknown_dep"] + self.p["p_foreign_dep"] or not vis:
            ak = self.all_keys(kind)
            if ak:
                return self.r.choice(ak)
        if vis:
            return self.r.choice(vis)
        return self.rand_group_key() if want_group else self.rand_single_key()

    def structure_params(self, leaves):
        """arrange leaf params into positional params and (nested) objects;
        named / optional / group leaves must sit in an object"""
        def needs_obj(l):
            return l["k"] == "group" or l.get("name", 0) != 0 or l.get("opt", False)
        if leaves and self.chance(self.p.get("p_one_obj", 0.0)):
            # all leaves in one parameter object: soft groups interleaved with ordinary fields
            return [dict(k="obj", fields=list(leaves))]
        out = []
        cur = []
        for l in leaves:
            if needs_obj(l) or self.chance(self.p["p_obj"]):
                cur.append(l)
                if self.chance(0.3):
                    out.append(self.mk_obj(cur))
                    cur = []
            else:
                if cur:
                    out.append(self.mk_obj(cur))
                    cur = []
                out.append(l)
        if cur:
            out.append(self.mk_obj(cur))
        return out

    def mk_obj(self, leaves):
        if len(leaves) >= 2 and self.chance(self.p["p_nest"]):
            i = self.r.randrange(1, len(leaves))
            j = self.r.randrange(i, len(leaves)) + 1
            inner = self.mk_obj(leaves[i:j]) if j - i >= 1 else None
            fields = leaves[:i] + ([inner] if inner else []) + leaves[j:]
            return self.with_unexported(dict(k="obj", fields=fields))
        return self.with_unexported(dict(k="obj", fields=list(leaves)))

    def with_unexported(self, obj):
        # dig.In tagged ignore-unexported:"true" with an unexported field somewhere among the
        # fields (dig skips it; the model's parameter objects do not contain it)
        if obj["fields"] and self.chance(self.p["p_unexp"]):
            obj["unexp"] = self.r.randrange(len(obj["fields"]))
        if obj["fields"] and self.chance(0.1):
            obj["marker_last"] = True       # dig.In embedded after the fields: the same object for dig
        return obj

    def gen_params(self, s, n, avoid=()):
        leaves = []
        seen = set()
        for _ in range(n):
            k = self.pick_dep(s)
            if k in seen or k in avoid:
                continue
            seen.add(k)
            if k[0] == "s":
                leaves.append(self.leaf_param(k, opt=self.chance(self.p["p_opt"])))
            else:
                leaves.append(self.leaf_param(k, soft=self.chance(self.p["p_soft"])))
        return leaves

    # ----- results -----
    def structure_results(self, leaves, allow_pos=True):
        """positional results share name/group/As through options, so only a
        uniform run can be positional; otherwise use one result object"""
        if not leaves:
            return []
        uniform = all((l["k"], l.get("name", 0), l.get("group", 0), l.get("flatten", False), tuple(l.get("as") or ()))
                      == (leaves[0]["k"], leaves[0].get("name", 0), leaves[0].get("group", 0),
                          leaves[0].get("flatten", False), tuple(leaves[0].get("as") or ()))
                      for l in leaves)
        # a name can be given to several positional results only if types differ
        if allow_pos and uniform and self.chance(0.5):
            return list(leaves)
        as_ = tuple(leaves[0].get("as") or ())
        if any(tuple(l.get("as") or ()) != as_ for l in leaves if l["k"] == "single"):
            # objects take As from the option, applied to every single field
            for l in leaves:
                if l["k"] == "single":
                    l["as"] = list(as_)
        for l in leaves:
            if l["k"] == "group":
                l["as"] = []
        obj = dict(k="obj", fields=list(leaves))
        if len(leaves) >= 2 and self.chance(self.p["p_nest"]):
            i = self.r.randrange(len(leaves))
            obj = dict(k="obj", fields=leaves[:i] + [dict(k="obj", fields=leaves[i:])])
        return [obj]

    def add_scope(self, parent):
        self.ops.append(dict(op="scope", parent=parent))
        self.parents.append(parent)
        self.prov.append(dict())
        self.decorated.append(set())
        return len(self.parents) - 1

    def gen_late_scope_cycle(self):
        """a grandchild scope created AFTER an ancestor already registered something; a constructor
        private to the grandchild; then an ancestor Provide that closes a cycle only the
        grandchild's view contains"""
        if len(self.parents) + 2 > self.p["max_scopes"]:
            return
        top = self.r.randrange(len(self.parents))
        mid = self.add_scope(top)
        tys = self.r.sample(range(self.p["n_types"]), 3)
        x, y, z = ("s", tys[0], 0), ("s", tys[1], 0), ("s", tys[2], 0)
        if any(k in self.prov[b] for k in (x, y, z) for b in range(len(self.parents))):
            return
        f = self.new_fn(params=[], results=[dict(k="single", ty=z[1], name=0, **{"as": []})], err=False)
        self.ops.append(dict(op="provide", scope=top, fn=f["id"], export=False))
        self.prov[top][z] = f["id"]
        leaf = self.add_scope(mid)
        f = self.new_fn(params=[self.leaf_param(y)], results=[dict(k="single", ty=x[1], name=0, **{"as": []})], err=False)
        self.ops.append(dict(op="provide", scope=leaf, fn=f["id"], export=False))
        self.prov[leaf][x] = f["id"]
        f = self.new_fn(params=[self.leaf_param(x)], results=[dict(k="single", ty=y[1], name=0, **{"as": []})], err=False)
        self.ops.append(dict(op="provide", scope=self.r.choice([top, mid]), fn=f["id"], export=False))
        for sc, k in ((leaf, x), (top, z)):
            f = self.new_fn(params=[self.leaf_param(k)], results=[], err=True)
            self.ops.append(dict(op="invoke", scope=sc, fn=f["id"]))

    def gen_dec_extra_result(self):
        """a decorator with an extra result whose type NO constructor provides; it runs through an
        Invoke in its own scope; child scopes created before and after that Invoke then ask for the
        extra type"""
        if len(self.parents) + 2 > self.p["max_scopes"]:
            return
        top = self.r.randrange(len(self.parents))
        tys = self.r.sample(range(self.p["n_types"]), 2)
        k, extra = ("s", tys[0], 0), ("s", tys[1], 0)
        if any(q in self.prov[b] or q in self.decorated[b] for q in (k, extra) for b in range(len(self.parents))):
            return
        f = self.new_fn(params=[], results=[dict(k="single", ty=k[1], name=0, **{"as": []})], err=False)
        self.ops.append(dict(op="provide", scope=top, fn=f["id"], export=False))
        self.prov[top][k] = f["id"]
        early = self.add_scope(top)
        f = self.new_fn(params=[self.leaf_param(k)],
                        results=[dict(k="single", ty=k[1], name=0, **{"as": []}), dict(k="single", ty=extra[1], name=0, **{"as": []})], err=False)
        self.ops.append(dict(op="decorate", scope=top, fn=f["id"]))
        self.decorated[top].update([k, extra])

        def consume(sc, key):
            g = self.new_fn(params=[self.leaf_param(key)], results=[], err=True)
            self.ops.append(dict(op="invoke", scope=sc, fn=g["id"]))
        consume(top, k)
        late = self.add_scope(top)
        for sc in self.r.sample([early, late, top], 3):
            consume(sc, extra)

    def gen_group_chain(self):
        """group g with several feeders in one scope, an EARLIER feeder of g consuming another group h
        that has several feeders of its own; then g is consumed (nested group resolution while the
        outer list of feeders is being walked)"""
        s = self.r.randrange(len(self.parents))
        ty = self.rand_type() % 16
        g, h = ("g", ty, 1), ("g", (ty + 1) % self.p["n_types"], 2)
        seq = []
        for _ in range(self.r.choice([2, 2, 3])):
            seq.append((h, []))
        seq.append((g, [h]))
        for _ in range(self.r.choice([1, 2])):
            seq.append((g, []))
        if self.chance(0.3):
            self.r.shuffle(seq)
        for k, deps in seq:
            f = self.new_fn(params=self.structure_params([self.leaf_param(d) for d in deps]),
                            results=[dict(k="obj", fields=[dict(k="group", ty=k[1], group=k[2], flatten=False, **{"as": []})])],
                            err=self.chance(0.3))
            self.decorate_fn(f)
            self.ops.append(dict(op="provide", scope=s, fn=f["id"], export=False))
            self.prov[s].setdefault(k, f["id"])
        leaf = self.r.choice([x for x in range(len(self.parents)) if s in self.ancestors(x)])
        f = self.new_fn(params=self.structure_params([self.leaf_param(g)]), results=[], err=True)
        self.ops.append(dict(op="invoke", scope=leaf, fn=f["id"]))
        if self.chance(0.5):
            # a further member arrives AFTER the group was built once: registered from some scope, half
            # of the time exported to the root; then the group is consumed again
            via = self.r.randrange(len(self.parents))
            exp = self.chance(0.5)
            tgt = 0 if exp else via
            f = self.new_fn(params=[], results=[dict(k="obj", fields=[dict(k="group", ty=g[1], group=g[2], flatten=False, **{"as": []})])], err=False)
            self.ops.append(dict(op="provide", scope=via, fn=f["id"], export=exp))
            self.prov[tgt].setdefault(g, f["id"])
            for sc in (leaf, self.r.randrange(len(self.parents))):
                f = self.new_fn(params=self.structure_params([self.leaf_param(g)]), results=[], err=True)
                self.ops.append(dict(op="invoke", scope=sc, fn=f["id"]))

    def gen_no_result(self):
        """a constructor that provides nothing: no results, only an error, or result objects without
        any field (in every encoding it must be rejected: nothing to provide)"""
        s = self.r.randrange(len(self.parents))
        shape = self.r.choice(["none", "empty-obj", "nested-empty", "two-empty"])
        results = {"none": [], "empty-obj": [dict(k="obj", fields=[])],
                   "nested-empty": [dict(k="obj", fields=[dict(k="obj", fields=[])])],
                   "two-empty": [dict(k="obj", fields=[]), dict(k="obj", fields=[dict(k="obj", fields=[])])]}[shape]
        f = self.new_fn(params=self.structure_params(self.gen_params(s, self.r.choice([0, 1]))), results=results, err=self.chance(0.7))
        self.ops.append(dict(op="provide", scope=s, fn=f["id"], export=False))

    def gen_provide(self):
        if self.chance(self.p["p_no_result"]):
            return self.gen_no_result()
        if self.chance(self.p["p_group_chain"]) and len(self.ops) < 16:
            return self.gen_group_chain()
        if self.chance(self.p["p_late_scope_cycle"]) and len(self.ops) < 16:
            return self.gen_late_scope_cycle()
        s = self.r.randrange(len(self.parents))
        export = self.chance(self.p["p_export"])
        target = 0 if export else s
        nres = self.r.choice([1, 1, 1, 2, 2, 3])
        leaves = []
        keys = []
        cyc_deps = []
        for _ in range(nres):
            if self.chance(self.p["p_group_result"]):
                k = self.rand_group_key()
                vg = self.all_keys("g")
                if vg and self.chance(0.6):
                    k = self.r.choice(vg)
                flat = self.chance(self.p["p_flatten"])
                l = dict(k="group", ty=k[1], group=k[2], flatten=flat, **{"as": []})
                if not flat and k[1] < 16 and self.chance(self.p["p_as"]):
                    its = self.r.sample(IFACES, self.r.choice([1, 2, 2]))
                    if self.chance(self.p.get("p_dup_as", 0.0)):
                        its = its + [its[0]]        # dig.As(new(I), new(I))
                    l["as"] = its
                    k = ("g", its[-1], k[2])
            else:
                k = self.rand_single_key()
                if self.wanted and self.chance(self.p["p_cycle"] + 0.3):
                    w = self.r.choice(self.wanted)
                    if w[0][0] == "s":
                        k = w[0]
                        if self.chance(self.p["p_cycle"] * 2):
                            cyc_deps += [x for x in w[2] if x[0] in ("s", "g")]
                elif self.chance(self.p["p_dup"]):
                    vis = self.visible_keys(target, "s")
                    if vis:
                        k = self.r.choice(vis)
                l = dict(k="single", ty=k[1], name=k[2], **{"as": []})
                if (k[1] < 16 or k[1] in IFACES) and self.chance(self.p["p_as"]):
                    n_as = self.r.choice([1, 1, 2])
                    l["as"] = self.r.sample([i for i in IFACES if i != k[1]], n_as)
            if k in keys and k[0] == "s" and not self.chance(self.p["p_dup"]):
                continue
            keys.append(k)
            leaves.append(l)
        if not leaves:
            return
        nparams = self.r.choice([0, 0, 1, 1, 2, 2, 3, 4])
        pleaves = self.gen_params(s, nparams)
        for k in cyc_deps[:2]:
            if not any((p["k"] == "single" and ("s", p["ty"], p.get("name", 0)) == k) or
                       (p["k"] == "group" and ("g", p["ty"], p["group"]) == k) for p in pleaves):
                pleaves.append(self.leaf_param(k, opt=self.chance(0.2), soft=False))
        self.r.shuffle(pleaves)
        results = self.structure_results(leaves)
        # As never lists the result's own type (dig skips it; that rule belongs to the parse model)
        tys = set(l["ty"] for l in leaves)
        for l in leaves:
            l["as"] = [t for t in (l.get("as") or []) if t not in tys]
        f = self.new_fn(params=self.structure_params(pleaves), results=results, err=self.chance(0.5))
        if f["err"] and self.chance(0.25):
            f["err_pos"] = self.r.randrange(len(results) + 1)    # the error result need not come last
        self.decorate_fn(f)
        self.ops.append(dict(op="provide", scope=s, fn=f["id"], export=export))
        # bookkeeping (optimistic: assume accepted)
        rk = self.result_keys(f)
        sk = [k for k in rk if k[0] == "s"]
        gk = [k for k in rk if k[0] == "g"]
        if sk and gk:
            self.multi.append((target, sk[0], gk[0]))
        for k in rk:
            if k[0] == "s":
                self.prov[target].setdefault(k, f["id"])
            else:
                self.prov[target].setdefault(k, f["id"])
        for p in pleaves:
            k = ("s", p["ty"], p.get("name", 0)) if p["k"] == "single" else ("g", p["ty"], p["group"])
            if k not in self.visible_keys(s, k[0]):
                self.wanted.append((k, f["id"], rk, s))

    def result_keys(self, f):
        out = []

        def walk(rs):
            for r in rs:
                if r["k"] == "obj":
                    walk(r["fields"])
                elif r["k"] == "single":
                    for t in (r.get("as") or [r["ty"]]):
                        out.append(("s", t, r.get("name", 0)))
                else:
                    for t in (r.get("as") or [r["ty"]]):
                        out.append(("g", t, r["group"]))
        walk(f["results"])
        return out

    def decorate_fn(self, f, role="ctor"):
        """faults, callbacks, lens, durations"""
        nexec = 3
        plan = []
        for e in range(nexec):
            if self.chance(self.p["p_fault"] if e == 0 else self.p["p_fault"] / 3):
                plan.append(self.r.choice(["err", "err", "panic"]))
            else:
                plan.append("ok")
        if not f["err"]:
            plan = ["panic" if x == "err" and self.chance(0.5) else ("ok" if x == "err" else x) for x in plan]
        if any(x != "ok" for x in plan):
            f["plan"] = plan
        nslots = self.count_slots(f["results"])
        if self.has_slice_slot(f["results"], role == "dec"):
            f["lens"] = [[self.r.choice([0, 1, 2, 2, 3]) for _ in range(nslots)] for _ in range(nexec)]
        if role != "inv" and self.chance(self.p["p_callback"]):
            f["callback"] = True
        if f.get("callback") or self.chance(0.2):
            f["dur"] = [self.r.choice(PRIMES) for _ in range(nexec)]
        if f.get("err") and self.chance(0.15):
            f["err_iface"] = True      # the error result is declared as an interface that embeds error
        # a trailing variadic parameter (dig ignores it; the model's signatures do not carry it)
        if self.chance(self.p["p_variadic"]):
            f["variadic"] = True

    def count_slots(self, rs):
        n = 0
        for r in rs:
            n += self.count_slots(r["fields"]) if r["k"] == "obj" else 1
        return n

    def has_slice_slot(self, rs, dec):
        for r in rs:
            if r["k"] == "obj":
                if self.has_slice_slot(r["fields"], dec):
                    return True
            elif r["k"] == "group" and (r.get("flatten") or dec):
                return True
        return False

    def gen_invoke(self):
        s = self.r.randrange(len(self.parents))
        if self.multi and self.chance(self.p.get("p_soft_pattern", 0.0)):
            # one parameter object mixing soft groups with the single result of a
            # multi-result feeder of the same group, in every field order
            ts, sk, gk = self.r.choice(self.multi)
            s = self.r.choice([x for x in range(len(self.parents)) if ts in self.ancestors(x)])
            fields = [self.leaf_param(gk, soft=True), self.leaf_param(sk, opt=False), self.leaf_param(gk, soft=True)]
            if self.chance(0.5):
                fields.append(self.leaf_param(gk, soft=self.chance(0.5)))
            self.r.shuffle(fields)
            f = self.new_fn(params=[dict(k="obj", fields=fields)], results=[], err=self.chance(0.5))
            self.ops.append(dict(op="invoke", scope=s, fn=f["id"]))
            return
        n = self.r.choice([1, 1, 2, 2, 3])
        pleaves = self.gen_params(s, n)
        if self.chance(self.p["p_empty_invoke"]):
            pleaves = []        # func() / func() error: nothing to resolve, the function still has to run (or not: dry)
        elif not pleaves and self.chance(0.8):
            return
        f = self.new_fn(params=self.structure_params(pleaves), results=[], err=self.chance(0.6))
        self.decorate_fn(f, role="inv")
        if not pleaves:
            f.pop("variadic", None)
        if f.get("err") and (f.get("plan") or ["ok"])[0] == "err" and self.chance(0.5):
            f["err_concrete"] = True     # declared as `*UserErr`, a concrete type implementing error
        self.ops.append(dict(op="invoke", scope=s, fn=f["id"]))

    def gen_dec_chain(self):
        """a key (single or group) decorated at two levels of a three-level chain of
        scopes, consumed from the deepest scope after the outer levels were used"""
        while len(self.parents) < 3:
            self.ops.append(dict(op="scope", parent=len(self.parents) - 1))
            self.parents.append(len(self.parents) - 1)
            self.prov.append(dict())
            self.decorated.append(set())
        leafs = [x for x in range(len(self.parents)) if len(self.ancestors(x)) >= 3]
        if not leafs:
            return
        leaf = self.r.choice(leafs)
        chain = self.ancestors(leaf)            # leaf, mid, ..., root
        grp = self.chance(0.6)
        if grp:
            k = self.rand_group_key()
            for _ in range(self.r.choice([1, 2])):
                f = self.new_fn(params=[], results=[dict(k="obj", fields=[dict(k="group", ty=k[1], group=k[2], flatten=False, **{"as": []})])], err=False)
                self.ops.append(dict(op="provide", scope=chain[-1], fn=f["id"], export=False))
                self.prov[chain[-1]].setdefault(k, f["id"])
        else:
            k = self.rand_single_key()
            f = self.new_fn(params=[], results=[dict(k="obj", fields=[dict(k="single", ty=k[1], name=k[2], **{"as": []})])], err=False)
            self.ops.append(dict(op="provide", scope=chain[-1], fn=f["id"], export=False))
            self.prov[chain[-1]].setdefault(k, f["id"])
        def consume(sc):
            f = self.new_fn(params=[dict(k="obj", fields=[self.leaf_param(k)])], results=[], err=True)
            self.ops.append(dict(op="invoke", scope=sc, fn=f["id"]))
        if grp and self.chance(0.5):
            # the deepest scope (or the middle one) feeds the group too: its member is committed BELOW
            # the decorating scopes
            sc = self.r.choice([leaf, chain[1]])
            f = self.new_fn(params=[], results=[dict(k="obj", fields=[dict(k="group", ty=k[1], group=k[2], flatten=False, **{"as": []}),
                                                                      dict(k="single", ty=(k[1] + 1) % self.p["n_types"], name=3, **{"as": []})])], err=False)
            self.ops.append(dict(op="provide", scope=sc, fn=f["id"], export=False))
            self.prov[sc].setdefault(k, f["id"])
        # exported consumer: a type T registered from the deepest scope with Export(true) that consumes
        # the key; the middle decorator depends on T as well (T is built with the deepest scope's view
        # while the middle decorator is on the stack)
        tkey = None
        if self.chance(0.3):
            tkey = ("s", (k[1] + 2) % self.p["n_types"], 3)
            if not any(tkey in self.prov[b] for b in range(len(self.parents))):
                f = self.new_fn(params=[dict(k="obj", fields=[self.leaf_param(k)])],
                                results=[dict(k="obj", fields=[dict(k="single", ty=tkey[1], name=tkey[2], **{"as": []})])], err=False)
                self.ops.append(dict(op="provide", scope=leaf, fn=f["id"], export=True))
                self.prov[0][tkey] = f["id"]
            else:
                tkey = None
        # late decoration: the deepest scope resolves the key BEFORE a decorator appears two or
        # more levels above it (and between the two Decorate calls), then again afterwards
        late = self.chance(0.45)
        if late:
            consume(leaf)
        # the middle decorator may need a type nobody provides (then it cannot be built: Invokes below it
        # must FAIL, not fall back to the outer decorator)
        gap = self.chance(0.2)
        for sc in (chain[-1], chain[1]) + ((leaf,) if tkey is not None else ()):
            if late and sc == chain[1] and self.chance(0.5):
                consume(leaf)
            res = dict(k="group", ty=k[1], group=k[2], flatten=False, **{"as": []}) if grp else dict(k="single", ty=k[1], name=k[2], **{"as": []})
            if grp and k[1] < 3 and self.chance(self.p["p_ns"]):
                res["ns"] = self.r.choice([1, 2])
            par = [self.leaf_param(k)] if self.chance(0.8) else []
            if sc == chain[1] and tkey is not None:
                par.append(self.leaf_param(tkey))
            if sc == chain[1] and gap:
                par.append(dict(k="single", ty=(k[1] + 3) % self.p["n_types"], name=2, opt=False))
            f = self.new_fn(params=self.structure_params(par), results=[dict(k="obj", fields=[res])], err=self.chance(0.3))
            self.decorate_fn(f, role="dec")
            self.ops.append(dict(op="decorate", scope=sc, fn=f["id"]))
        if tkey is not None:
            consume(chain[1])
        order = [leaf, chain[-1]] if late else ([chain[-1], leaf] if self.chance(0.6) else [leaf, chain[-1], chain[1]])
        for sc in order:
            consume(sc)

    def gen_dec_retry(self):
        """a decorator that fails on its first run; before it is retried its INPUT changes (an
        ancestor scope decorates the key, or the group gets another member): the retry must see
        what a consumer in its scope would see now"""
        while len(self.parents) < 3:
            self.ops.append(dict(op="scope", parent=len(self.parents) - 1))
            self.parents.append(len(self.parents) - 1)
            self.prov.append(dict())
            self.decorated.append(set())
        leafs = [x for x in range(len(self.parents)) if len(self.ancestors(x)) >= 3]
        if not leafs:
            return
        leaf = self.r.choice(leafs)
        chain = self.ancestors(leaf)            # leaf, mid, ..., root
        root, mid = chain[-1], chain[1]
        grp = self.chance(0.5)
        k = self.rand_group_key() if grp else self.rand_single_key()
        if k in self.decorated[root] or k in self.decorated[mid] or (not grp and k in self.prov[root]):
            return

        def res():
            return dict(k="group", ty=k[1], group=k[2], flatten=False, **{"as": []}) if grp else dict(k="single", ty=k[1], name=k[2], **{"as": []})

        def feeder():
            f = self.new_fn(params=[], results=[dict(k="obj", fields=[res()])], err=False)
            self.ops.append(dict(op="provide", scope=root, fn=f["id"], export=False))
            self.prov[root].setdefault(k, f["id"])

        def consume(sc):
            f = self.new_fn(params=[dict(k="obj", fields=[self.leaf_param(k)])], results=[], err=True)
            self.ops.append(dict(op="invoke", scope=sc, fn=f["id"]))

        def decorator(sc, plan):
            f = self.new_fn(params=[dict(k="obj", fields=[self.leaf_param(k)])], results=[dict(k="obj", fields=[res()])], err=True)
            self.decorate_fn(f, role="dec")
            f["plan"] = plan
            self.ops.append(dict(op="decorate", scope=sc, fn=f["id"]))
            self.decorated[sc].add(k)
        feeder()
        decorator(mid, [self.r.choice(["err", "err", "panic"]), "ok", "ok"])
        consume(leaf)
        if grp and self.chance(0.5):
            feeder()
        else:
            decorator(root, ["ok", "ok", "ok"])
        consume(leaf)
        if self.chance(0.5):
            consume(mid)

    def gen_decorate(self):
        if self.chance(self.p.get("p_dec_retry", 0.0)) and len(self.ops) < 16:
            return self.gen_dec_retry()
        if self.chance(self.p["p_dec_extra"]) and len(self.ops) < 16:
            return self.gen_dec_extra_result()
        if self.chance(self.p.get("p_dec_chain", 0.0)) and len(self.ops) < 14:
            return self.gen_dec_chain()
        s = self.r.randrange(len(self.parents))
        nk = 2 if self.chance(self.p["p_multi_dec"]) else 1
        leaves, deckeys = [], []
        for _ in range(nk):
            if self.chance(self.p["p_group_dec"]):
                vg = self.visible_keys(s, "g") or self.all_keys("g")
                k = self.r.choice(vg) if vg and self.chance(0.85) else self.rand_group_key()
                if k in deckeys:
                    continue
                leaves.append(dict(k="group", ty=k[1], group=k[2], flatten=False, **{"as": []}))
                if k[1] < 3 and self.chance(self.p["p_ns"]):
                    leaves[-1]["ns"] = self.r.choice([1, 2])     # the decorator returns the group as the named slice type NS<ty>
            else:
                vs = self.visible_keys(s, "s") or self.all_keys("s")
                k = self.r.choice(vs) if vs and self.chance(0.85) else self.rand_single_key()
                if k in deckeys:
                    continue
                leaves.append(dict(k="single", ty=k[1], name=k[2], **{"as": []}))
            deckeys.append(k)
        pleaves = []
        for k in deckeys:
            if self.chance(self.p["p_dec_self"]):
                pleaves.append(self.leaf_param(k, opt=self.chance(0.1), soft=self.chance(0.1)))
        pleaves += self.gen_params(s, self.r.choice([0, 0, 1, 2]), avoid=deckeys)
        self.r.shuffle(pleaves)
        if leaves and leaves[0]["k"] == "single" and self.chance(self.p.get("p_dup_dec_key", 0.0)):
            leaves.append(dict(leaves[0]))      # func(A) (A, A): the same key returned twice
        # group results of decorators must be object fields; singles may be positional
        if any(l["k"] == "group" for l in leaves) or any(l.get("name", 0) for l in leaves):
            results = [dict(k="obj", fields=leaves)]
        else:
            results = self.structure_results(leaves)
        f = self.new_fn(params=self.structure_params(pleaves), results=results, err=self.chance(0.5))
        self.decorate_fn(f, role="dec")
        self.ops.append(dict(op="decorate", scope=s, fn=f["id"]))
        for k in deckeys:
            self.decorated[s].add(k)

    def gen_scope(self):
        if len(self.parents) >= self.p["max_scopes"]:
            return
        p = self.r.randrange(len(self.parents))
        self.ops.append(dict(op="scope", parent=p))
        self.parents.append(p)
        self.prov.append(dict())
        self.decorated.append(set())

    def gen_bad(self):
        s = self.r.randrange(len(self.parents))
        kind = self.r.choice(["provide", "provide", "decorate", "invoke"])
        bad = self.r.choice(["nil", "int", "struct", "string", "ptr", "chan", "slice", "map", "nilfunc", "nilfunc2",
                             "optional-notbool", "ignore-unexported-notbool", "group-badoption", "out-as-param",
                             "ptr-in"] + (["no-results", "only-error"] if kind == "provide" else [])
                            + (["in-as-result"] if kind != "invoke" else []))
        self.ops.append(dict(op="bad", scope=s, kind=kind, bad=bad))

    def gen_case(self, cid):
        p = self.p
        n = self.r.randint(*p["n_ops"])
        if self.chance(p["early_scopes"]):
            for _ in range(self.r.randint(1, 3)):
                self.gen_scope()
        acts = [(self.gen_scope, p["w_scope"]), (self.gen_provide, p["w_provide"]),
                (self.gen_decorate, p["w_decorate"]), (self.gen_invoke, p["w_invoke"]), (self.gen_bad, p["w_bad"])]
        tot = sum(w for _, w in acts)
        guard = 0
        while len(self.ops) < n and guard < 10 * n:
            guard += 1
            x = self.r.random() * tot
            for a, w in acts:
                if x < w:
                    a()
                    break
                x -= w
        # finish with a few invokes so that registrations are exercised
        for _ in range(self.r.randint(1, 3)):
            self.gen_invoke()
        cfg = dict(defer=self.chance(p["p_defer"]), recover=self.chance(p["p_recover"]), dry=self.chance(p["p_dry"]))
        return dict(id=cid, profile=p.get("_name", ""), config=cfg, fns=self.fns, ops=self.ops)


def generate(profile_name, seed, count):
    rng = random.Random(f"{profile_name}:{seed}")
    prof = profile(profile_name)
    prof["_name"] = profile_name
    out = []
    for i in range(count):
        g = Gen(rng, prof)
        out.append(g.gen_case(f"{profile_name}-{seed}-{i}"))
    return out


if __name__ == "__main__":
    import sys, json
    name, seed, count = sys.argv[1], int(sys.argv[2]), int(sys.argv[3])
    for c in generate(name, seed, count):
        print(json.dumps(c))


# ---------------------------------------------------------------- re-entrant user code (C02)

def result_keys(fn):
    out = []

    def walk(rs):
        for r in rs:
            if r["k"] == "obj":
                walk(r["fields"])
            else:
                out.append(r)
    walk(fn.get("results") or [])
    return out


def generate_reentrant(seed, count, provides=False):
    """core histories in which some constructors / decorators / invoked
    functions call Invoke on the container from inside their own body (harness
    field `nested`): the nested function asks for one of the body's own
    results, for something an existing consumer of the history asks for, for a
    result of an unrelated registered function (fills caches the outer Invoke
    meets later), or a mix.  Nested functions may fail or panic themselves, may
    be called on the second execution of a body whose first execution failed,
    and may nest a further Invoke.  The model (ResolveRe / RunRe) runs them
    through the `nest` oracle emitted by emit.nest_table."""
    rng = random.Random(f"reentrant:{seed}")
    prof = profile("singleton")
    prof["_name"] = "reentrant"
    prof.update(p_fault=0.05, w_invoke=8, n_types=4, p_dry=0.0)
    out = []

    def ask(r):
        """a parameter list asking for result leaf r (named singles and groups need a dig.In field)"""
        if r["k"] == "single":
            t = rng.choice(r.get("as") or [r["ty"]]) if rng.random() < 0.3 else r["ty"]
            leaf = dict(k="single", ty=t, name=r.get("name", 0), opt=rng.random() < 0.15)
            if leaf["name"] or leaf["opt"] or rng.random() < 0.2:
                return [dict(k="obj", fields=[leaf])]
            return [leaf]
        return [dict(k="obj", fields=[dict(k="group", ty=r["ty"], group=r["group"], soft=rng.random() < 0.3)])]

    for i in range(count):
        g = Gen(rng, prof)
        c = g.gen_case(f"reentrant-{seed}-{i}")
        fns = {f["id"]: f for f in c["fns"]}
        reg = [o["fn"] for o in c["ops"] if o["op"] in ("provide", "decorate")]
        inv = [o["fn"] for o in c["ops"] if o["op"] == "invoke"]
        nsc = 1 + sum(1 for o in c["ops"] if o["op"] == "scope")
        nid = max(fns) + 1 if fns else 0
        if not reg:
            out.append(c)
            continue
        hosts = rng.sample(reg, min(len(reg), rng.randint(1, 3)))
        if inv and rng.random() < 0.4:
            hosts.append(rng.choice(inv))
        fresh = []
        for fid in hosts:
            f = fns[fid]
            ex = 0 if rng.random() < 0.75 else 1
            if ex == 1 and rng.random() < 0.6:
                # the first execution fails, the requests come from the second one
                plan = list(f.get("plan") or [])
                plan += ["ok"] * (3 - len(plan))
                plan[0] = "err" if f.get("err") and rng.random() < 0.6 else "panic"
                f["plan"] = plan
            for _ in range(1 if rng.random() < 0.75 else 2):
                params = []
                own = result_keys(f)
                mode = rng.random()
                if own and mode < 0.6:
                    params += ask(rng.choice(own))
                if inv and (0.35 <= mode < 0.8 or not params):
                    src = fns[rng.choice(inv)]
                    params += copy.deepcopy(src["params"])[:2]
                if mode >= 0.7 or not params:
                    other = result_keys(fns[rng.choice(reg)])
                    if other:
                        params += ask(rng.choice(other))
                if not params:
                    continue
                nf = dict(id=nid, params=params, results=[], err=rng.random() < 0.3)
                x = rng.random()
                if x < 0.08:
                    nf["plan"] = ["panic"]
                elif x < 0.16 and nf["err"]:
                    nf["plan"] = ["err"]
                fns[nid] = nf
                c["fns"].append(nf)
                fresh.append(nid)
                f.setdefault("nested", []).append(dict(exec=ex, scope=rng.randrange(nsc), fn=nid))
                nid += 1
        # a nested function whose own body nests a further Invoke
        if fresh and rng.random() < 0.25:
            host = fns[rng.choice(fresh)]
            other = result_keys(fns[rng.choice(reg)])
            params = ask(rng.choice(other)) if other else []
            if params:
                fns[nid] = dict(id=nid, params=params, results=[], err=False)
                c["fns"].append(fns[nid])
                host.setdefault("nested", []).append(dict(exec=0, scope=rng.randrange(nsc), fn=nid))
                nid += 1
        if provides and reg:
            # a body that REGISTERS a constructor (Provide from inside user code), followed by ordinary
            # registrations that depend on it.  Not modelled: such histories are only run for C14 (dig,
            # Visualize and String must not panic afterwards).
            for _ in range(rng.randint(1, 2)):
                host = fns[rng.choice(reg)]
                t = 10 + rng.randrange(6)
                gparams = []
                gk = [r for f in c["fns"] for r in result_keys(f) if r["k"] == "group"]
                if gk and rng.random() < 0.5:
                    r = rng.choice(gk)
                    gparams = [dict(k="obj", fields=[dict(k="group", ty=r["ty"], group=r["group"], soft=False)])]
                fns[nid] = dict(id=nid, params=gparams, results=[dict(k="single", ty=t, name=0, **{"as": []})], err=False)
                c["fns"].append(fns[nid])
                host.setdefault("nested", []).append(dict(exec=0, scope=rng.randrange(nsc), fn=nid, op="provide"))
                nid += 1
                for extra in range(rng.randint(1, 2)):
                    fns[nid] = dict(id=nid, params=[dict(k="single", ty=t, name=0, opt=False)],
                                    results=[dict(k="single", ty=(t + 1 + extra) % 16, name=3, **{"as": []})], err=False)
                    c["fns"].append(fns[nid])
                    c["ops"].append(dict(op="provide", scope=rng.randrange(nsc), fn=nid, export=False))
                    nid += 1
                fns[nid] = dict(id=nid, params=[dict(k="obj", fields=[dict(k="single", ty=t, name=0, opt=True)])], results=[], err=False)
                c["fns"].append(fns[nid])
                c["ops"].append(dict(op="invoke", scope=0, fn=nid))
                nid += 1
        out.append(c)
    return out


# ---------------------------------------------------------------- anonymous values (C10 / C11)

def generate_anon(seed, count):
    """group-heavy histories over pointer-typed members in which about half of the feeding
    constructors return NIL pointers: values without identity.  Only the NUMBER of elements a
    consumer receives can be compared with the model (projection with anonymised arguments);
    user functions all succeed."""
    rng = random.Random(f"anon:{seed}")
    prof = profile("groups")
    prof["_name"] = "anon"
    prof.update(p_wrap_ty=0.0, p_fault=0.0, p_as=0.0, p_ns=0.0, n_types=3, w_decorate=0.8, p_soft=0.35)
    out = []
    for i in range(count):
        g = Gen(rng, prof)
        # every type is the pointer type *T<k>
        g.rand_type = lambda g=g: 32 + 4 * g.r.randrange(3)
        c = g.gen_case(f"anon-{seed}-{i}")
        for f in c["fns"]:
            f.pop("plan", None)
            if any(r["k"] == "group" for r in result_keys(f)) and rng.random() < 0.5:
                f["nil_members"] = True
        out.append(c)
    return out


# ---------------------------------------------------------------- viz profile (declared functions)

def generate_viz(seed, count, decorators=False, pool_decorators=False):
    """histories whose constructors are the declared pool functions P0..P47
    (distinct dig IDs / names); DOT text is recorded after every operation.
    With decorators=True some provided keys also get a (reflect.MakeFunc) decorator that may
    fail: its dig ID is unknown to the DOT graph (C14: Visualize must not panic on such errors;
    C19 does not claim anything about failures inside decorators and does not use this option)."""
    import json, os, copy
    pool = json.load(open(os.path.join(os.path.dirname(os.path.abspath(__file__)), "pool.json")))
    rng = random.Random(f"viz:{seed}")
    out = []
    for ci in range(count):
        fns, ops = [], []
        nfn = 0
        parents = [None]
        provided = []          # keys offered: ("s",ty,name) / ("g",ty,group)
        chosen = rng.sample(pool, rng.randint(3, 9))
        heavy = None
        if rng.random() < 0.25:
            # a value group with three or more member constructors, a LATER one of which fails
            feeders = {}
            for sg in pool:
                for r0 in sg["results"]:
                    for r in (r0["fields"] if r0["k"] == "obj" else [r0]):
                        if r["k"] == "group":
                            feeders.setdefault((r["ty"], r["group"]), [])
                            if sg not in feeders[(r["ty"], r["group"])]:
                                feeders[(r["ty"], r["group"])].append(sg)
            big = [k for k, v in feeders.items() if len(v) >= 3]
            if big:
                heavy = rng.choice(big)
                grp = rng.sample(feeders[heavy], rng.randint(3, min(4, len(feeders[heavy]))))
                rest = [sg for sg in rng.sample(pool, rng.randint(1, 3)) if sg not in grp]
                chosen = grp + rest
        if rng.random() < 0.4:
            for _ in range(rng.randint(1, 2)):
                ops.append(dict(op="scope", parent=rng.randrange(len(parents))))
                parents.append(0)
        for sg in chosen:
            f = copy.deepcopy(sg)
            f["id"] = nfn
            nfn += 1
            positional = all(r["k"] != "obj" for r in f["results"])
            if positional and rng.random() < 0.5:
                q = rng.random()
                nm, gr, asv = rng.choice([1, 2, 3]), rng.choice([1, 2]), [rng.choice([16, 17])]
                for r in f["results"]:
                    if q < 0.4:
                        r["name"] = nm
                    elif q < 0.7:
                        r.update(k="group", group=gr, flatten=False)
                    else:
                        r["as"] = list(asv)
            if rng.random() < 0.25:
                f["plan"] = [rng.choice(["err", "panic"]) if f["err"] else "panic", "ok", "ok"]
            if heavy is not None and sg in chosen[:4]:
                # the group's members: the first two succeed, a later one fails
                idx = chosen.index(sg)
                f.pop("plan", None)
                if idx >= 2 and idx == len([x for x in chosen[:4] if x in grp]) - 1:
                    f["plan"] = [rng.choice(["err", "panic"]) if f["err"] else "panic", "ok", "ok"]
            f["lens"] = [[rng.choice([0, 1, 2]) for _ in range(6)] for _ in range(3)]
            if rng.random() < 0.3:
                f["callback"] = True
            fns.append(f)
            s = rng.randrange(len(parents))
            ops.append(dict(op="provide", scope=s, fn=f["id"], export=rng.random() < 0.15))

            def walk(rs):
                for r in rs:
                    if r["k"] == "obj":
                        walk(r["fields"])
                    elif r["k"] == "single":
                        for t in (r.get("as") or [r["ty"]]):
                            provided.append(("s", t, r.get("name", 0)))
                    else:
                        provided.append(("g", r["ty"], r["group"]))
            walk(f["results"])
            if rng.random() < 0.2 and len(parents) < 4:
                ops.append(dict(op="scope", parent=rng.randrange(len(parents))))
                parents.append(0)
        if pool_decorators:
            # declared functions with only single results used as DECORATORS (CallbackInfo.Name of a
            # decorator must identify it); never one that is also a constructor of this history
            used = {f.get("pool") for f in fns}
            cands = [sg for sg in pool if sg["pool"] not in used
                     and all(r["k"] == "single" for r0 in sg["results"] for r in (r0["fields"] if r0["k"] == "obj" else [r0]))]
            for sg in rng.sample(cands, min(len(cands), rng.randint(1, 3))):
                f = copy.deepcopy(sg)
                f["id"] = nfn
                nfn += 1
                f["callback"] = True
                if rng.random() < 0.3:
                    f["plan"] = [rng.choice(["err", "panic"]) if f["err"] else "panic", "ok", "ok"]
                fns.append(f)
                ops.append(dict(op="decorate", scope=rng.randrange(len(parents)), fn=f["id"]))
                for r0 in f["results"]:
                    for r in (r0["fields"] if r0["k"] == "obj" else [r0]):
                        provided.append(("s", r["ty"], r.get("name", 0)))
        if pool_decorators:
            # reflect.MakeFunc constructors registered with dig.LocationForPC(<declared function>): their
            # CallbackInfo.Name must be that function's name (what wrappers such as fx rely on)
            used = {f.get("pool") for f in fns}
            free = [i for i in range(len(pool)) if i not in used]
            taken = {k[1] for k in provided if k[0] == "s"}
            for _ in range(rng.randint(0, 2)):
                tys = [t for t in range(16) if t not in taken]
                if not free or not tys:
                    break
                t = rng.choice(tys)
                taken.add(t)
                lp = free.pop(rng.randrange(len(free)))
                f = dict(id=nfn, params=[], results=[dict(k="single", ty=t, name=0, **{"as": []})], err=True,
                         callback=True, loc_pool=lp, plan=[rng.choice(["ok", "ok", "err"]), "ok", "ok"])
                nfn += 1
                fns.append(f)
                ops.append(dict(op="provide", scope=rng.randrange(len(parents)), fn=f["id"], export=False))
                provided.append(("s", t, 0))
        if decorators and provided:
            for k in rng.sample(provided, min(len(provided), rng.randint(1, 3))):
                if k[0] == "s":
                    res = dict(k="single", ty=k[1], name=k[2], **{"as": []})
                    par = [dict(k="single", ty=k[1], name=k[2], opt=False)]
                else:
                    res = dict(k="group", ty=k[1], group=k[2], flatten=False, **{"as": []})
                    par = [dict(k="group", ty=k[1], group=k[2], soft=False)]
                f = dict(id=nfn, params=[dict(k="obj", fields=par)] if rng.random() < 0.7 else [],
                         results=[dict(k="obj", fields=[res])], err=True,
                         plan=[rng.choice(["err", "panic", "ok"]), "ok", "ok"], lens=[[rng.choice([0, 1, 2])] for _ in range(3)])
                nfn += 1
                fns.append(f)
                ops.append(dict(op="decorate", scope=rng.randrange(len(parents)), fn=f["id"]))
        if heavy is not None:
            f = dict(id=nfn, params=[dict(k="obj", fields=[dict(k="group", ty=heavy[0], group=heavy[1], soft=False)])], results=[], err=True)
            nfn += 1
            fns.append(f)
            ops.append(dict(op="invoke", scope=0, fn=f["id"]))
        for _ in range(rng.randint(2, 5)):
            leaves = []
            for _ in range(rng.randint(1, 3)):
                if provided and rng.random() < 0.85:
                    k = rng.choice(provided)
                else:
                    k = ("s", rng.randrange(6), rng.choice([0, 1]))
                if k[0] == "s":
                    leaves.append(dict(k="single", ty=k[1], name=k[2], opt=rng.random() < 0.15))
                else:
                    leaves.append(dict(k="group", ty=k[1], group=k[2], soft=rng.random() < 0.2))
            f = dict(id=nfn, params=[dict(k="obj", fields=leaves)], results=[], err=True)
            nfn += 1
            fns.append(f)
            ops.append(dict(op="invoke", scope=rng.randrange(len(parents)), fn=f["id"]))
        cfg = dict(defer=rng.random() < 0.2, recover=rng.random() < 0.8, dry=False)
        out.append(dict(id=f"viz-{seed}-{ci}", profile="viz", viz=True, config=cfg, fns=fns, ops=ops))
    return out


# ---------------------------------------------------------------- bounded-exhaustive family for C05

def exhaustive_cycles(nctors, with_export, late_scope=False):
    """EVERY history of this shape: nctors constructors, constructor i provides
    key i and consumes any subset of the keys {0..nctors-1} (self included);
    each is provided to any scope of either 3-scope tree (chain or fork),
    optionally exported; both verification modes; then every key is invoked
    from the deepest scope(s).  With late_scope the last scope is created after
    the registrations of its ancestors (scope-creation order)."""
    import itertools
    out = []
    shapes = {"chain": [0, 1], "fork": [0, 0]}        # parents of scopes 1 and 2
    subsets = list(itertools.chain.from_iterable(itertools.combinations(range(nctors), k) for k in range(nctors + 1)))
    exports = list(itertools.product([False, True], repeat=nctors)) if with_export else [tuple([False] * nctors)]
    cid = 0
    for shape, parents in shapes.items():
        for deps in itertools.product(subsets, repeat=nctors):
            for scopes in itertools.product(range(3), repeat=nctors):
                for exp in exports:
                    for defer in (False, True):
                        fns, ops = [], []
                        ops.append(dict(op="scope", parent=parents[0]))
                        if not late_scope:
                            ops.append(dict(op="scope", parent=parents[1]))
                        pending = []
                        for i in range(nctors):
                            f = dict(id=i, params=[dict(k="single", ty=d, name=0, opt=False) for d in deps[i]],
                                     results=[dict(k="single", ty=i, name=0, **{"as": []})], err=False)
                            fns.append(f)
                            o = dict(op="provide", scope=scopes[i], fn=i, export=exp[i])
                            if late_scope and scopes[i] == 2:
                                pending.append(o)
                            else:
                                ops.append(o)
                        if late_scope:
                            ops.append(dict(op="scope", parent=parents[1]))
                            ops += pending
                        nf = nctors
                        for sc in (2, 1):
                            for k in range(nctors):
                                fns.append(dict(id=nf, params=[dict(k="single", ty=k, name=0, opt=False)], results=[], err=False))
                                ops.append(dict(op="invoke", scope=sc, fn=nf))
                                nf += 1
                        out.append(dict(id=f"exh-{shape}-{cid}", profile="exhaustive-cycles",
                                        config=dict(defer=defer, recover=True, dry=False), fns=fns, ops=ops))
                        cid += 1
    return out
