"""dotparse.py — parse the DOT text written by dig.Visualize into the structure
Dot.odot, and validate its syntax (quoted IDs, HTML-like labels)."""
import re

import emit

# inverse of the harness tables nameStr / groupStr (codes 1 and 2 differ by a trailing blank)
NAMES = {"n1": 1, "n1 ": 2, "n<3>&": 3}
GROUPS = {"g1": 1, "g1 ": 2}


def go_unquote(s):
    # strconv.Quote output without the surrounding quotes; only \" and \\ occur for our strings
    return s.replace('\\"', '"').replace('\\\\', '\\')


def type_code(s):
    if s.startswith("[]"):
        return 33 + 4 * type_code(s[2:])
    if s.startswith("*"):
        return 32 + 4 * type_code(s[1:])
    m = re.match(r'main\.T(\d+)$', s)
    if m:
        return int(m.group(1))
    m = re.match(r'main\.NS(\d+)$', s)
    if m:
        return 35 + 4 * int(m.group(1))
    m = re.match(r'main\.I(\d+)$', s)
    if m:
        return 16 + int(m.group(1))
    if s == "map[*main.Prov]<-chan int":
        return 20
    raise ValueError("unknown type string " + s)


def name_code(s):
    if s in NAMES:
        return NAMES[s]
    raise ValueError("unknown name " + s)


def group_code(s):
    if s in GROUPS:
        return GROUPS[s]
    m = re.match(r'g(\d+)$', s)
    if not m:
        raise ValueError("unknown group " + s)
    return int(m.group(1))


def result_term(s):
    """Result.String(): T | T[name=N] | T[group=G]IDX"""
    m = re.match(r'^(.*)\[group=(.*)\](\d+)$', s)
    if m:
        return f"(mkDR (mkDN {type_code(m.group(1))} 0 {group_code(m.group(2))}) {int(m.group(3))})"
    m = re.match(r'^(.*)\[name=(.*)\]$', s)
    if m:
        return f"(mkDR (mkDN {type_code(m.group(1))} {name_code(m.group(2))} 0) 0)"
    return f"(mkDR (mkDN {type_code(s)} 0 0) 0)"


def param_node(s):
    m = re.match(r'^(.*)\[name=(.*)\]$', s)
    if m:
        return f"(mkDN {type_code(m.group(1))} {name_code(m.group(2))} 0)"
    return f"(mkDN {type_code(s)} 0 0)"


def group_node(s):
    m = re.match(r'^\[type=(.*) group=(.*)\]$', s)
    return f"(mkDN {type_code(m.group(1))} 0 {group_code(m.group(2))})"


ERR = {None: "ENoError", "red": "ERootCause", "orange": "ETransitive"}

HTML_TAGS = re.compile(r'<BR />|<FONT POINT-SIZE="10">|</FONT>')
ENTITY = re.compile(r'&(amp|lt|gt|quot|#\d+|#x[0-9a-fA-F]+);')


def label_ok(inner):
    """the content of label=<...> must be well-formed HTML-like text"""
    rest = HTML_TAGS.sub("", inner)
    rest = ENTITY.sub("", rest)
    return not any(ch in rest for ch in "<>&")


def parse(text, fn_of_name):
    """returns (odot term, wellformed).  fn_of_name: constructor label -> function id"""
    lines = text.split("\n")
    wf = text.startswith("digraph {\n") and text.rstrip().endswith("}")
    groups, ctors, trans, roots = [], [], [], []
    cur = None
    for ln in lines:
        m = re.match(r'^\t"((?:[^"\\]|\\.)*)" \[shape=diamond label=<(.*)>( color=(\w+))?\];$', ln)
        if m:
            if not label_ok(m.group(2)):
                wf = False
            groups.append(dict(key=go_unquote(m.group(1)), err=m.group(4), results=[]))
            continue
        m = re.match(r'^\t\t"((?:[^"\\]|\\.)*)" -> "((?:[^"\\]|\\.)*)";$', ln)
        if m:
            groups[-1]["results"].append(go_unquote(m.group(2)))
            continue
        m = re.match(r'^\t\tsubgraph cluster_(\d+) \{$', ln)
        if m:
            cur = dict(idx=int(m.group(1)), name=None, err=None, results=[], params=[], gparams=[])
            ctors.append(cur)
            continue
        m = re.match(r'^\t\t\tconstructor_(\d+) \[shape=plaintext label="((?:[^"\\]|\\.)*)"\];$', ln)
        if m:
            cur["name"] = go_unquote(m.group(2))
            continue
        m = re.match(r'^\t\t\tcolor=(\w+);$', ln)
        if m:
            cur["err"] = m.group(1)
            continue
        m = re.match(r'^\t\t\t"((?:[^"\\]|\\.)*)" \[label=<(.*)>\];$', ln)
        if m:
            if not label_ok(m.group(2)):
                wf = False
            cur["results"].append(go_unquote(m.group(1)))
            continue
        m = re.match(r'^\t\t\tconstructor_(\d+) -> "((?:[^"\\]|\\.)*)" \[ltail=cluster_(\d+)( style=dashed)?\];$', ln)
        if m:
            tgt = go_unquote(m.group(2))
            c = next(x for x in ctors if x["idx"] == int(m.group(1)))
            if tgt.startswith("[type="):
                c["gparams"].append(tgt)
            else:
                c["params"].append((tgt, bool(m.group(4))))
            continue
        m = re.match(r'^\t"((?:[^"\\]|\\.)*)" \[color=(orange|red)\];$', ln)
        if m:
            (trans if m.group(2) == "orange" else roots).append(go_unquote(m.group(1)))
            continue
        if ln.strip() in ("", "digraph {", "rankdir=RL;", "graph [compound=true];", "}") or re.match(r'^\t\t\tlabel = "((?:[^"\\]|\\.)*)";$', ln):
            continue
        wf = False   # a line the grammar of visualizeGraph does not produce
    gterms = [f"(mkDG {group_node(g['key'])} {emit.lst([result_term(r) for r in g['results']])} {ERR[g['err']]})" for g in groups]
    cterms = []
    for c in ctors:
        fid = fn_of_name(c["name"])
        cterms.append(f"(mkOC (IdFn {fid}) {ERR[c['err']]} {emit.lst([result_term(r) for r in c['results']])} "
                      f"{emit.lst([f'(mkDP {param_node(p)} {emit.boolc(d)})' for p, d in c['params']])} "
                      f"{emit.lst([group_node(g) for g in c['gparams']])})")
    term = (f"(mkOD {emit.lst(gterms)} {emit.lst(cterms)} {emit.lst([result_term(r) for r in trans])} "
            f"{emit.lst([result_term(r) for r in roots])})")
    return term, wf
