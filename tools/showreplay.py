import json,sys
for p in sys.argv[1:]:
    d=json.load(open(p))
    c=d.get('case') or d.get('disagreeing_case'); t=d.get('implementation_trace')
    print("=====",p.split('/')[-2:], d.get('failing_code'), d.get('meaning'), json.dumps(c['config']))
    for f in c['fns']: print("  fn",json.dumps({k:v for k,v in f.items() if k not in('dur','lens','info')}))
    for j,(o,tt) in enumerate(zip(c['ops'],t['ops'])):
        v=tt['verdict']
        print("  ",j,json.dumps(o), v['v'], (v.get('root') or {}).get('k'), v.get('chain'), (v.get('msg') or '')[:90], [ (e['ev'],e['f'],e.get('out'), e.get('args')) for e in tt['events']])
