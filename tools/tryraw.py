import sys, json, collections
sys.path.insert(0, '/verif/tools')
import common, genraw, emitraw
ok, out = common.harness_build(); assert ok, out
seed, n = int(sys.argv[1]), int(sys.argv[2])
cases = genraw.generate(seed, n)
cases, traces = common.run_impl_parallel(cases)
out = common.coq_eval(emitraw.rcases_file(list(zip(cases, traces))), timeout=600)
M = common.parse_pairs(common.parse_printed(out, "M")); V = common.parse_pairs(common.parse_printed(out, "V"))
print("cases", len(cases), "diffs", len(M), "c14 viol", len(V))
cnt = collections.Counter()
for (i, j, code) in M[:4000]:
    o = cases[i]["ops"][j]; v = traces[i]["ops"][j]["verdict"]
    cnt[(code, o["op"], v["v"], (v.get("msg") or "")[-110:])] += 1
for k, v in cnt.most_common(25): print(v, k)
json.dump({"cases": cases, "traces": traces, "M": M, "V": V}, open("/tmp/tryraw_last.json", "w"))
