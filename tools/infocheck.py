"""infocheck.py — C18 on core histories: ProvideInfo / DecorateInfo / InvokeInfo of every call against
the declaration (one entry per declared dependency / result key, in declaration order, with the
declared type, name, group and optional flag; filled exactly when the call is accepted — an Invoke
counts as accepted for this purpose when its arguments were built, i.e. also when the invoked function
itself failed).  The expectation is computed here from the case's declarations (the core model's
signatures do not carry the slice type through which a group is consumed)."""
import json
import re
import subprocess

import common
import gen

ENTRY = re.compile(r'^(?P<ty>.*?)(?:\[(?P<toks>(?:optional|name = "[^"]*"|group = "[^"]*")(?:, (?:optional|name = "[^"]*"|group = "[^"]*"))*)\])?$')


def names_table():
    r = subprocess.run([common.HARNESS_BIN, "names"], stdout=subprocess.PIPE, stderr=subprocess.DEVNULL, text=True, timeout=60)
    d = json.loads(r.stdout)
    return ({int(k): v for k, v in d["types"].items()}, {int(k): v for k, v in d["names"].items()},
            {int(k): v for k, v in d["groups"].items()})


def parse_entry(s):
    m = ENTRY.match(s)
    ty, toks = m.group("ty"), m.group("toks") or ""
    name = group = ""
    opt = False
    for t in toks.split(", "):
        if t == "optional":
            opt = True
        elif t.startswith("name = "):
            name = t[len('name = "'):-1]
        elif t.startswith("group = "):
            group = t[len('group = "'):-1]
    return (ty, name, group, opt)


class Expect:
    def __init__(self):
        self.T, self.N, self.G = names_table()

    def ty(self, code):
        if code in self.T:
            return self.T[code]
        if code >= 32:
            k, r = (code - 32) // 4, (code - 32) % 4
            if r == 0:
                return "*" + self.ty(k)
            if r == 1:
                return "[]" + self.ty(k)
            if r == 3:
                return "main.NS%d" % k
        raise KeyError(code)

    def group_slice(self, p):
        if p.get("ns") == 1 and p["ty"] < 3:
            return "main.NS%d" % p["ty"]
        if p.get("ns") == 2 and p["ty"] < 3:
            return "main.NSB%d" % p["ty"]
        return "[]" + self.ty(p["ty"])

    def inputs(self, params):
        out = []
        for p in params:
            if p["k"] == "obj":
                out += self.inputs(p["fields"])
            elif p["k"] == "single":
                out.append((self.ty(p["ty"]), self.N.get(p.get("name", 0), ""), "", bool(p.get("opt"))))
            else:
                out.append((self.group_slice(p), "", self.G[p["group"]], False))
        return out

    def outputs(self, results, dec):
        out = []
        for r in results:
            if r["k"] == "obj":
                out += self.outputs(r["fields"], dec)
            elif r["k"] == "single":
                for t in (r.get("as") or [r["ty"]]):
                    out.append((self.ty(t), self.N.get(r.get("name", 0), ""), "", False))
            else:
                g = self.G[r["group"]]
                if dec:
                    out.append((self.group_slice(r), "", g, False))
                else:
                    for t in (r.get("as") or [r["ty"]]):
                        out.append((self.ty(t), "", g, False))
        return out


def check(tier, seed):
    n = 200 if tier == "quick" else 6000
    cases = gen.generate("core-mix", seed + 5, n // 2) + gen.generate("groups", seed + 5, n // 4) + gen.generate("decor", seed + 5, n // 4)
    for c in cases:
        for f in c["fns"]:
            f["info"] = True
    cases, traces = common.run_impl_parallel(cases)
    ex = Expect()
    bad, compared = [], 0
    for ci, (c, t) in enumerate(zip(cases, traces)):
        fns = {f["id"]: f for f in c["fns"]}
        for oi, (o, ot) in enumerate(zip(c["ops"], t["ops"])):
            if o["op"] not in ("provide", "decorate", "invoke") or ot.get("info") is None:
                continue
            f = fns[o["fn"]]
            v = ot["verdict"]
            ok = v.get("v") == "ok"
            own = o["op"] == "invoke" and v.get("v") in ("err", "panicked") and \
                ((v.get("root") or {}).get("k") in ("user", "panic") and (v.get("root") or {}).get("f") == f["id"] and not v.get("chain")
                 or v.get("v") == "panicked" and v.get("f") == f["id"])
            got_in = [parse_entry(s) for s in ot["info"]["inputs"]]
            got_out = [parse_entry(s) for s in ot["info"]["outputs"]]
            if ok or own:
                exp_in = ex.inputs(f["params"])
                exp_out = ex.outputs(f["results"], o["op"] == "decorate") if o["op"] != "invoke" else []
            elif v.get("v") == "panicked":
                continue        # an unrecovered panic of some constructor: the arguments may or may not have been built
            else:
                exp_in, exp_out = [], []
            compared += 1
            if got_in != exp_in or got_out != exp_out:
                bad.append((ci, oi, dict(expected_inputs=exp_in, got_inputs=got_in, expected_outputs=exp_out, got_outputs=got_out)))
    return cases, traces, bad, dict(histories=len(cases), infos_compared=compared, mismatches=len(bad))
