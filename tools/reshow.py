#!/usr/bin/env python3
"""reshow.py <M-file> — print model vs implementation observation at the disagreeing op"""
import json, os, sys
sys.path.insert(0, os.path.dirname(os.path.abspath(__file__)))
import common, emit
d = json.load(open(sys.argv[1]))
c, t = d["case"], d["trace"]
if len(sys.argv) > 2 and sys.argv[2] == "rerun":
    cs, ts = common.run_impl([c]); c, t = cs[0], ts[0]
oi = d["at"][1] if "at" in d else int(sys.argv[3])
defs = [f"Definition mo := Eval vm_compute in nth {oi} (model_obs_re r0) (mkOObs OVBug []).",
        f"Definition io := Eval vm_compute in nth {oi} (cs_impl c0) (mkOObs OVBug []).", "Print mo.", "Print io."]
src = emit.cases_file_re([(c, t)], extra="Spec Check Cases", defs=defs)
print(json.dumps(c["config"]))
for f in c["fns"]: print(json.dumps(f))
for i, o in enumerate(c["ops"]): print(i, json.dumps(o))
print(common.coq_eval(src))
