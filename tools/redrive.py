#!/usr/bin/env python3
"""redrive.py <seed> <count> [outdir] — correspondence of the re-entrant model
(ResolveRe/RunRe) with the implementation on generated re-entrant histories.
Prints counts; writes the disagreeing cases to <outdir>."""
import json
import os
import sys

sys.path.insert(0, os.path.dirname(os.path.abspath(__file__)))
import common  # noqa: E402
import emit  # noqa: E402
import gen  # noqa: E402

RE_DEFS = [
    "Fixpoint mism_re_from (k : pkind) (i : nat) (cs : list case_re) : list (nat * nat) := "
    "match cs with [] => [] | c :: t => match first_diff_k k 0 (model_obs_re c) (cs_impl (cr_case c)) with "
    "Some j => (i, j) :: mism_re_from k (S i) t | None => mism_re_from k (S i) t end end.",
    "Definition M := Eval vm_compute in mism_re_from PExec 0 all_re.",
    "Definition F := Eval vm_compute in mism_re_from PFull 0 all_re.",
    "Definition W := Eval vm_compute in viol_all (fun c obs => chk_C02 (cs_hist c) obs) (map model_case_re all_re).",
    "Definition V := Eval vm_compute in viol_all (fun c obs => chk_C02 (cs_hist c) obs) all_cases.",
    "Print M.", "Print F.", "Print W.", "Print V.",
]


def re_eval(cs, ts, shard=250):
    def one(lo):
        src = emit.cases_file_re(list(zip(cs[lo:lo + shard], ts[lo:lo + shard])), extra="Spec Check Cases", defs=RE_DEFS)
        o = common.coq_eval(src, timeout=3000)
        res = {}
        for name in "MFWV":
            res[name] = [(lo + a[0],) + tuple(a[1:]) for a in common.parse_pairs(common.parse_printed(o, name))]
        return res
    from concurrent.futures import ThreadPoolExecutor
    tot = {k: [] for k in "MFWV"}
    with ThreadPoolExecutor(max_workers=16) as ex:
        for part in ex.map(one, range(0, len(cs), shard)):
            for k in tot:
                tot[k] += part[k]
    return tot


def stats(cs, ts):
    nested_runs = 0
    roles = {"ctor": 0, "dec": 0, "inv": 0}
    for c, t in zip(cs, ts):
        fns = {f["id"]: f for f in c["fns"]}
        nfn = {n["fn"] for f in c["fns"] for n in f.get("nested", [])}
        for ot in t["ops"]:
            for ev in ot["events"]:
                if ev["ev"] == "exec" and ev["f"] in nfn:
                    nested_runs += 1
                if ev["ev"] == "exec" and fns.get(ev["f"], {}).get("nested"):
                    if any(n["exec"] == ev["e"] for n in fns[ev["f"]]["nested"]):
                        roles[ev["role"]] += 1
    return dict(nested_invokes_that_ran_their_function=nested_runs, bodies_with_requests_by_role=roles)


if __name__ == "__main__":
    seed, count = int(sys.argv[1]), int(sys.argv[2])
    outdir = sys.argv[3] if len(sys.argv) > 3 else "/tmp/pa_re/out"
    os.makedirs(outdir, exist_ok=True)
    cases = gen.generate_reentrant(seed, count)
    if os.environ.get("RE_CORPUS"):
        import check
        cases = check.load_corpus("C02-reentrant") + cases
    cases, traces = common.run_impl_parallel(cases)
    r = re_eval(cases, traces)
    print(json.dumps(dict(seed=seed, histories=len(cases), M=len(r["M"]), F=len(r["F"]), W=len(r["W"]), V=len(r["V"]),
                          **stats(cases, traces))))
    for k in "MFWV":
        for n, x in enumerate(r[k][:5]):
            ci = x[0]
            json.dump(dict(kind=k, at=x, case=cases[ci], trace=traces[ci]),
                      open(os.path.join(outdir, f"{k}-{seed}-{n}.json"), "w"), indent=1)
