#!/bin/sh
# recheck.sh <lane> <seed names...> — re-run the quick check of each seeded change's own property against the
# change (scratch worktree + VERIF_REPO) in a private copy of /verif, so that several lanes can run side by side
# and neither /repo, /verif's evidence nor the recorded seeded/<name>/meta.json is touched.
# Prints "<name> <property> exit=<n>"; exit 0 for a seeded change means it is no longer caught.
export GOFLAGS=-mod=mod GOPROXY=off GOSUMDB=off GOTOOLCHAIN=local
src=$(cd "$(dirname "$0")/.." && pwd)
lane=$1; shift
work=/tmp/recheck_$lane
rm -rf "$work"; mkdir -p "$work"
rsync -a --exclude .git --exclude replays "$src/" "$work/"
cd "$work" || exit 2
for name in "$@"; do
  prop=$(python3 -c "import json;print(json.load(open('$src/seeded/$name/meta.json'))['property'])")
  wt=/tmp/recheckwt_$lane
  git -C /repo worktree remove --force $wt 2>/dev/null
  git -C /repo worktree add -q --detach $wt HEAD
  (cd $wt && git apply "$src/seeded/$name/patch.diff") || { echo "$name $prop patch-does-not-apply"; continue; }
  rm -rf replays; mkdir -p replays
  VERIF_REPO=$wt timeout 1500 bin/check $prop quick > out.txt 2>/dev/null
  echo "$name $prop exit=$? $(grep -c VIOLATION out.txt) violation lines"
  git -C /repo worktree remove --force $wt
done
rm -rf "$work"
