import sys, json, collections, time
sys.path.insert(0, '/verif/tools')
import common, gen, emit
prof, seed, n = sys.argv[1], int(sys.argv[2]), int(sys.argv[3])
cases = gen.generate(prof, seed, n)
cases, traces = common.run_impl_parallel(cases)
d="Definition X := Eval vm_compute in map (fun c => length (chk_C04 (cs_cfg c) (cs_beh c) (cs_hist c) (cs_impl c))) all_cases."
lo,hi=0,len(cases)
pairs=list(zip(cases,traces))
def slow(ps):
    try:
        common.coq_eval(emit.cases_file(ps, extra="Spec Check", defs=[d]), timeout=40); return False
    except Exception: return True
while hi-lo>1:
    mid=(lo+hi)//2
    if slow(pairs[lo:mid]): hi=mid
    else: lo=mid
print("slow case", lo, cases[lo]['id'])
json.dump({"case":cases[lo],"trace":traces[lo]}, open('/tmp/slow.json','w'))
