"""cbcheck.py — callbacks that look at the container (C11 / C20).  Not modelled: a self-contained check on
the implementation.  Every feeder X_i returns a value of its own type and a member of group g and has a
provider callback which, after a successful execution, calls Invoke for a probe consuming X_i's value and
the group softly.  When the callback fires the execution is over and its results are in the container:
the probe must run, receive X_i's value, and see in the soft group exactly the members of the feeders
executed so far (X_i's included)."""
import random

import common


def generate(seed, count):
    rng = random.Random(f"cb:{seed}")
    out = []
    for ci in range(count):
        n = rng.randint(2, 5)
        fns, ops = [], []
        nsc = 1
        if rng.random() < 0.4:
            ops.append(dict(op="scope", parent=0))
            nsc = 2
        for i in range(n):
            fns.append(dict(id=i, params=[] if i == 0 or rng.random() < 0.5 else [dict(k="single", ty=i - 1, name=0, opt=False)],
                            results=[dict(k="obj", fields=[dict(k="single", ty=i, name=0, **{"as": []}),
                                                           dict(k="group", ty=15, group=1, flatten=False, **{"as": []})])],
                            err=rng.random() < 0.5, callback=True, cb_nested=[dict(exec=0, scope=rng.randrange(nsc), fn=100 + i)]))
            fns.append(dict(id=100 + i, params=[dict(k="obj", fields=[dict(k="single", ty=i, name=0, opt=False),
                                                                    dict(k="group", ty=15, group=1, soft=True)])], results=[], err=False))
            ops.append(dict(op="provide", scope=0, fn=i, export=False))
        order = list(range(n))
        rng.shuffle(order)
        for j, i in enumerate(order[:rng.randint(1, n)]):
            fns.append(dict(id=200 + j, params=[dict(k="single", ty=i, name=0, opt=False)], results=[], err=False))
            ops.append(dict(op="invoke", scope=rng.randrange(nsc), fn=200 + j))
        if rng.random() < 0.5:
            fns.append(dict(id=300, params=[dict(k="obj", fields=[dict(k="group", ty=15, group=1, soft=False)])], results=[], err=False))
            ops.append(dict(op="invoke", scope=0, fn=300))
        out.append(dict(id=f"cb-{seed}-{ci}", profile="callback-reentry", config=dict(defer=rng.random() < 0.3, recover=rng.random() < 0.5, dry=False),
                        fns=fns, ops=ops))
    return out


def check(tier, seed):
    cases = generate(seed, 150 if tier == "quick" else 5000)
    cases, traces = common.run_impl_parallel(cases)
    bad, probes = [], 0
    for ci, (c, t) in enumerate(zip(cases, traces)):
        members = set()
        for oi, ot in enumerate(t["ops"]):
            evs = ot["events"]
            for k, ev in enumerate(evs):
                if ev["ev"] == "exec" and ev["f"] < 100 and ev["out"] == "ok":
                    members.add((ev["f"], ev["e"], 1, 0))
                if ev["ev"] == "cb" and ev["f"] < 100 and ev.get("err") is None:
                    i = ev["f"]
                    nxt = evs[k + 1] if k + 1 < len(evs) else None
                    probes += 1
                    why = None
                    if not (nxt and nxt["ev"] == "exec" and nxt["f"] == 100 + i):
                        why = "the probe invoked from the callback did not run (its Invoke failed)"
                    else:
                        a = nxt.get("args") or []
                        own = a[0].get("s") if a else None
                        got = set(tuple(x) for x in (a[1].get("l") or [])) if len(a) > 1 else None
                        if not own or own[0] != i or own[2] != 0:
                            why = "the probe did not receive the value of the execution the callback reports"
                        elif got != members:
                            why = "the soft group seen from the callback is not the set of members of the feeders executed so far"
                    if why:
                        bad.append((ci, oi, why))
    return cases, traces, bad, dict(histories=len(cases), probes_from_callbacks=probes, failures=len(bad))
