"""drycheck.py — C17 with functions whose error result is a concrete pointer type and which return a
typed nil when they succeed.  For dig such a function fails whenever its results are looked at — when
it runs, and when a dry container fabricates them.  Not modelled; a self-contained comparison of the
implementation with itself: the same history on a normal and on a dry container must give the same
verdict class (ok / error / panicked) at every operation (user functions never fail by plan)."""
import copy
import random

import common
import gen


def check(tier, seed):
    rng = random.Random(f"drynil:{seed}")
    base = gen.generate("dry", seed + 9, 150 if tier == "quick" else 4000)
    normal, dry = [], []
    for c in base:
        c = copy.deepcopy(c)
        for f in c["fns"]:
            f.pop("plan", None)
            f.pop("err_concrete", None)
            f.pop("err_iface", None)
            if f.get("err") and rng.random() < 0.4:
                f["err_typed_nil"] = True
        a, b = copy.deepcopy(c), copy.deepcopy(c)
        a["config"]["dry"], b["config"]["dry"] = False, True
        a["id"] += "~normal"
        b["id"] += "~dry"
        normal.append(a)
        dry.append(b)
    normal, tn = common.run_impl_parallel(normal)
    dry, td = common.run_impl_parallel(dry)
    bad, ops, hit = [], 0, 0
    for ci, (a, ta, tb) in enumerate(zip(normal, tn, td)):
        for oi, (x, y) in enumerate(zip(ta["ops"], tb["ops"])):
            ops += 1
            cx = "ok" if x["verdict"]["v"] == "ok" else "err"
            cy = "ok" if y["verdict"]["v"] == "ok" else "err"
            if (x["verdict"].get("root") or {}).get("f") == -1:
                hit += 1
            if cx != cy:
                bad.append((ci, oi, f"normal container: {cx}, dry container: {cy}"))
    return normal, tn, dry, td, bad, dict(histories=len(normal), operations_compared=ops, typed_nil_failures_seen=hit, disagreements=len(bad))
