import sys, json, collections
sys.path.insert(0, '/verif/tools')
import common, gen, emit
ok, out = common.harness_build(); assert ok, out
prof, seed, n = sys.argv[1], int(sys.argv[2]), int(sys.argv[3])
cases = gen.generate(prof, seed, n)
t0 = common.now()
cases, traces = common.run_impl_parallel(cases)
t1 = common.now()
src = emit.cases_file(list(zip(cases, traces)), extra="Spec Check", defs=[
  "Definition M := Eval vm_compute in mismatches all_cases.", "Print M.",
  "Definition V := Eval vm_compute in impl_violations all_cases.", "Print V.",
  "Definition W := Eval vm_compute in model_violations all_cases.", "Print W."])
out = common.coq_eval(src)
t2 = common.now()
M = common.parse_pairs(common.parse_printed(out, "M"))
V = common.parse_pairs(common.parse_printed(out, "V"))
W = common.parse_pairs(common.parse_printed(out, "W"))
print("impl %.1fs coq %.1fs  mismatches %d / %d  implviol %d modelviol %d" % (t1 - t0, t2 - t1, len(M), len(cases), len(V), len(W)))
for (i, j) in M[:10]:
    print("MISMATCH", cases[i]["id"], "op", j, cases[i]["ops"][j]["op"], json.dumps(traces[i]["ops"][j]["verdict"])[:200])
cv = collections.Counter((p, code) for (_, p, _, code) in V)
print("impl violations by (prop, code):", sorted(cv.items()))
cw = collections.Counter((p, code) for (_, p, _, code) in W)
print("model violations by (prop, code):", sorted(cw.items()))
json.dump({"cases": cases, "traces": traces, "M": M, "V": V, "W": W}, open("/tmp/try_last.json", "w"))
