import sys, json
sys.path.insert(0, '/verif/tools')
import common, gen, emit
ok, out = common.harness_build(); assert ok, out
prof, seed, n = sys.argv[1], int(sys.argv[2]), int(sys.argv[3])
cases = gen.generate(prof, seed, n)
t0 = common.now()
cases, traces = common.run_impl_parallel(cases)
t1 = common.now()
src = emit.cases_file(list(zip(cases, traces)), defs=["Definition M := Eval vm_compute in mismatches all_cases.", "Print M."])
out = common.coq_eval(src)
t2 = common.now()
M = common.parse_pairs(common.parse_printed(out, "M"))
print("impl %.1fs coq %.1fs  mismatches %d / %d" % (t1 - t0, t2 - t1, len(M), len(cases)))
for (i, j) in M[:40]:
    print(cases[i]["id"], "op", j, cases[i]["ops"][j]["op"], json.dumps(traces[i]["ops"][j]["verdict"])[:200])
json.dump({"cases": cases, "traces": traces, "M": M}, open("/tmp/try_last.json", "w"))
