#!/usr/bin/env python3
"""mkpool.py — one-off generator of harness/pool_gen.go: a pool of DECLARED Go
functions (distinct code pointers, hence distinct dig constructor IDs and
names) with varied signatures, for the checks that observe function identity
(C18 IDs, C19 Visualize, C20 Name).  Also writes tools/pool.json with the same
signatures in the case format.  Deterministic (fixed seed); output committed."""
import json
import random

NPOOL = 48
CHAN_TY = 20   # palette[20] = map[*Prov]<-chan int: providable, and its name needs escaping in HTML-like labels
rng = random.Random(424242)


def gotype(ty):
    if ty == CHAN_TY:
        return "map[*Prov]<-chan int"
    if ty >= 16:
        return f"I{ty - 16}"
    return f"T{ty}"


def param_go(p):
    k = p["k"]
    if k == "single":
        return gotype(p["ty"])
    if k == "group":
        return "[]" + gotype(p["ty"])
    fields = ["dig.In"]
    for i, f in enumerate(p["fields"]):
        tags = []
        if f["k"] == "single":
            if f.get("name"):
                tags.append(f'name:\\"{NAME(f["name"])}\\"')
            if f.get("opt"):
                tags.append('optional:\\"true\\"')
        elif f["k"] == "group":
            g = GROUP(f['group']) + (",soft" if f.get("soft") else "")
            tags.append(f'group:\\"{g}\\"')
        t = f" \"{' '.join(tags)}\"" if tags else ""
        fields.append(f"F{i} {param_go(f)}{t}")
    return "struct { " + "; ".join(fields) + " }"


def GROUP(g):
    return {1: "g1", 2: "g1 "}.get(g, f"g{g}")


def NAME(n):
    return {1: "n1", 2: "n1 ", 3: "n<3>&"}[n]


def result_go(r):
    k = r["k"]
    if k == "single":
        return gotype(r["ty"])
    if k == "group":
        return ("[]" if r.get("flatten") else "") + gotype(r["ty"])
    fields = ["dig.Out"]
    for i, f in enumerate(r["fields"]):
        tags = []
        if f["k"] == "single" and f.get("name"):
            tags.append(f'name:\\"{NAME(f["name"])}\\"')
        elif f["k"] == "group":
            g = GROUP(f['group']) + (",flatten" if f.get("flatten") else "")
            tags.append(f'group:\\"{g}\\"')
        t = f" \"{' '.join(tags)}\"" if tags else ""
        fields.append(f"F{i} {result_go(f)}{t}")
    return "struct { " + "; ".join(fields) + " }"


def gen_sig(i):
    ntypes = 6
    params = []
    for _ in range(rng.choice([0, 1, 1, 2, 2, 3])):
        r = rng.random()
        if r < 0.45:
            params.append({"k": "single", "ty": rng.randrange(ntypes), "name": 0, "opt": False})
        else:
            fields = []
            for _ in range(rng.choice([1, 2, 2, 3])):
                q = rng.random()
                if q < 0.3:
                    fields.append({"k": "group", "ty": rng.randrange(3), "group": rng.choice([1, 2]), "soft": rng.random() < 0.3})
                elif q < 0.36:
                    fields.append({"k": "single", "ty": CHAN_TY, "name": 0, "opt": True})
                else:
                    fields.append({"k": "single", "ty": rng.randrange(ntypes) if rng.random() < 0.85 else 16 + rng.randrange(2),
                                   "name": rng.choice([0, 0, 0, 1, 2, 3]), "opt": rng.random() < 0.3})
            params.append({"k": "obj", "fields": fields})
    results = []
    style = rng.random()
    if style < 0.5:
        # positional; name/group/as come from options chosen by the case generator: keep plain
        for _ in range(rng.choice([1, 1, 2])):
            results.append({"k": "single", "ty": rng.randrange(ntypes), "name": 0, "as": []})
        # avoid the same type twice (would be a duplicate within one constructor)
        seen = set()
        results = [r for r in results if not (r["ty"] in seen or seen.add(r["ty"]))]
    else:
        fields = []
        seen = set()
        for _ in range(rng.choice([1, 2, 2, 3])):
            q = rng.random()
            if q < 0.4:
                fields.append({"k": "group", "ty": rng.randrange(3), "group": rng.choice([1, 2]), "flatten": rng.random() < 0.35, "as": []})
            else:
                t, n = rng.randrange(ntypes), rng.choice([0, 0, 1, 2, 3])
                if (t, n) in seen:
                    continue
                seen.add((t, n))
                fields.append({"k": "single", "ty": t, "name": n, "as": []})
        if not fields:
            fields.append({"k": "single", "ty": rng.randrange(ntypes), "name": 0, "as": []})
        results.append({"k": "obj", "fields": fields})
    return {"pool": i, "params": params, "results": results, "err": rng.random() < 0.6}


sigs = [gen_sig(i) for i in range(NPOOL)]
# a few functions RETURN the type whose name needs escaping (plain, named, in a result object),
# a few REQUIRE it: it then appears in labels, node IDs and edges of the DOT text
for i, nm in ((5, 0), (17, 1), (29, 3), (41, 0)):
    rs = sigs[i]["results"]
    leaf = {"k": "single", "ty": CHAN_TY, "name": nm, "as": []}
    if rs and rs[0]["k"] == "obj":
        rs[0]["fields"].append(leaf)
    elif nm == 0:
        rs.append(leaf)
    else:
        sigs[i]["results"] = [{"k": "obj", "fields": rs + [leaf]}]
for i, nm in ((11, 0), (23, 1), (35, 3)):
    sigs[i]["params"].append({"k": "obj", "fields": [{"k": "single", "ty": CHAN_TY, "name": nm, "opt": False}]})
go = ['// Code generated by tools/mkpool.py; DO NOT EDIT.', 'package main', '', 'import (', '\t"reflect"', '', '\t"go.uber.org/dig"', ')', '',
      '// Declared functions with distinct code pointers.  Each delegates to the',
      '// generic body of the harness (poolCall), which logs the execution with the',
      '// provenance of every argument and follows the plan of the running case.', '']
entries = []
for s in sigs:
    i = s["pool"]
    ins = [f"a{j} {param_go(p)}" for j, p in enumerate(s["params"])]
    outs = [result_go(r) for r in s["results"]] + (["error"] if s["err"] else [])
    go.append(f"func P{i}({', '.join(ins)}) ({', '.join(outs)}) {{")
    args = ", ".join(f"reflect.ValueOf(a{j})" for j in range(len(ins)))
    go.append(f"\tres := poolCall({i}, []reflect.Value{{{args}}})")
    rets = []
    for j, r in enumerate(s["results"]):
        rets.append(f"res[{j}].Interface().({result_go(r)})")
    if s["err"]:
        rets.append(f"toErr(res[{len(s['results'])}])")
    go.append(f"\treturn {', '.join(rets)}")
    go.append("}")
    go.append("")
    entries.append(f"\t{i}: P{i},")
go.append("var poolFuncs = map[int]interface{}{")
go += entries
go.append("}")
go.append("")
go.append("var _ = dig.In{}")
open("/verif/harness/pool_gen.go", "w").write("\n".join(go) + "\n")
json.dump(sigs, open("/verif/tools/pool.json", "w"), indent=0)
print("wrote", NPOOL, "functions")
