"""rawcheck.py — the grammar stream (arbitrary Go values, signatures, tags,
options) for C14 and C18: implementation vs Parse.v, in a DryRun container."""
import json

import common
import emitraw
import genraw


def run_raw(cases):
    cases, traces = common.run_impl_parallel(cases)
    keep = [(c, t) for c, t in zip(cases, traces)]
    shard = 300
    jobs = [keep[i:i + shard] for i in range(0, len(keep), shard)]

    def one(job_lo):
        lo, job = job_lo
        out = common.coq_eval(emitraw.rcases_file(job), timeout=3000, name="rcases")
        M = [(lo + a, b, c) for a, b, c in common.parse_pairs(common.parse_printed(out, "M"))]
        V = [(lo + a, b, c) for a, b, c in common.parse_pairs(common.parse_printed(out, "V"))]
        return M, V
    from concurrent.futures import ThreadPoolExecutor
    with ThreadPoolExecutor(max_workers=16) as ex:
        res = list(ex.map(one, [(i * shard, j) for i, j in enumerate(jobs)]))
    M = [m for r in res for m in r[0]]
    V = [v for r in res for v in r[1]]
    return cases, traces, M, V


def check(tier, seed, corpus):
    n = 400 if tier == "quick" else 36000
    cases = list(corpus) + genraw.generate(seed, n // 2, 0.7) + genraw.generate(seed + 1, n // 2, 0.45)
    cases, traces, M, V = run_raw(cases)
    verd = {}
    for t in traces:
        for o in t["ops"]:
            k = o["verdict"]["v"] + ":" + ((o["verdict"].get("root") or {}).get("k") or "")
            verd[k] = verd.get(k, 0) + 1
    accepted_with_info = sum(1 for t in traces for o in t["ops"] if o["verdict"]["v"] == "ok" and o.get("info") and (o["info"]["inputs"] or o["info"]["outputs"]))
    dist = dict(raw_cases=len(cases), raw_operations=sum(len(c["ops"]) for c in cases), verdicts=verd,
                accepted_operations_with_info=accepted_with_info)
    return cases, traces, M, V, dist


def shrink(case, pred):
    best = case
    i = len(best["ops"]) - 1
    while i >= 0 and len(best["ops"]) > 1:
        cand = dict(best, ops=best["ops"][:i] + best["ops"][i + 1:])
        n = 1
        ok = True
        for o in cand["ops"]:
            if o["op"] == "scope":
                if o["parent"] >= n:
                    ok = False
                n += 1
            elif o.get("scope", 0) >= n:
                ok = False
        if ok:
            try:
                if pred(cand):
                    best = cand
            except Exception:
                pass
        i -= 1
    return best
