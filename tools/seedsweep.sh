#!/bin/sh
# seedsweep.sh [seeds...] — flakiness test on the unchanged tree: every quick check under several
# VERIF_SEED values, in a private copy of /verif (own build directory; /verif's evidence untouched).
# Prints one line per seed; any non-zero exit is a false alarm to investigate (replays are kept
# under build/seedsweep/<seed>/).
export GOFLAGS=-mod=mod GOPROXY=off GOSUMDB=off GOTOOLCHAIN=local
src=$(cd "$(dirname "$0")/.." && pwd)
seeds=${*:-"1 2 3 5 8 13 21 34"}
work=$(mktemp -d /tmp/sweepverif.XXXXXX)
rsync -a --exclude .git --exclude build --exclude replays "$src/" "$work/"
cd "$work" && sh bin/setup >/dev/null 2>&1
mkdir -p "$src/build/seedsweep"
for seed in $seeds; do
  rm -rf "$work/replays"; mkdir -p "$work/replays"
  VERIF_SEED=$seed sh tools/allquick.sh > "$work/sweep_$seed.txt" 2>&1
  bad=$(head -1 "$work/sweep_$seed.txt" | tr ' ' '\n' | paste - - - | awk '$3 != 0 {print $1}' | tr '\n' ' ')
  echo "seed $seed: non-zero: $( [ -n "$(echo $bad)" ] && echo $bad || echo none)"
  grep VIOLATION "$work/sweep_$seed.txt" | cut -c1-160
  if [ -n "$(echo $bad)" ]; then
    mkdir -p "$src/build/seedsweep/$seed"; cp -r "$work/replays/." "$src/build/seedsweep/$seed/" 2>/dev/null
    cp "$work/sweep_$seed.txt" "$src/build/seedsweep/$seed/summary.txt"
  fi
done
rm -rf "$work"
