"""emitraw.py — raw (grammar) cases and implementation traces -> Gallina (RunRaw.rcase)."""
import re

import dotparse
import emit
import genraw

TB = {"absent": "TBAbsent", "true": "TBTrue", "false": "TBFalse", "invalid": "TBInvalid", None: "TBAbsent"}
GO = {"flatten": "GOFlatten", "soft": "GOSoft"}


def grouptag(g):
    if g is None or (g["name"] == 0 and not g["opts"]):
        return "None"   # no tag, or an empty value, which reflect's Get reports like an absent tag
    opts = [GO.get(o, "GOUnknown") for o in g["opts"]]
    return f"(Some (mkGT {g['name']} {emit.lst(opts)}))"


def tags(t):
    return f"(mkTags {t.get('name', 0)} {TB[t.get('optional')]} {grouptag(t.get('group'))} {TB[t.get('ignore')]})"


def gty(t):
    k = t["t"]
    if k == "named":
        return f"(GNamed {t['i']})"
    if k == "iface":
        return f"(GIface {t['i']})"
    if k == "nslice":
        return f"(GNSlice {t['i']})"
    if k == "error":
        return "GError"
    if k == "basic":
        return f"(GBasic {t['i']})"
    if k == "ptr":
        return f"(GPtr {gty(t['e'])})"
    if k == "slice":
        return f"(GSlice {gty(t['e'])})"
    if k == "in":
        return "GIn"
    if k == "out":
        return "GOut"
    if k == "struct":
        fs = [f"mkField {emit.boolc(f['exported'] or f['embedded'])} {emit.boolc(f['embedded'])} {tags(f['tags'])} {gty(f['ty'])}"
              for f in t["fields"]]
        return f"(GStruct {emit.lst(fs)})"
    raise ValueError(k)


def gvalue(r):
    v = r["value"]
    if v == "nil":
        return "VNil"
    if v == "nonfunc":
        return "VNonFunc"
    f = f"(mkFunc {emit.lst([gty(t) for t in r['ins']])} {emit.lst([gty(t) for t in r['outs']])} {emit.boolc(r['variadic'])})"
    return f"(VNilFunc {f})" if v == "nilfunc" else f"(VFunc {f})"


def asarg(a):
    k = a["k"]
    if k == "iface":
        return f"(AsIface {gty(a['ty'])})"
    return {"nil": "AsNil", "nonptr": "AsNonPtr", "ptrnoniface": "AsPtrNonIface"}[k]


def popts(o):
    return (f"(mkPOpts {o['name']} {emit.boolc(o['name_bq'])} {grouptag(o['group'])} {emit.boolc(o['group_bq'])} "
            f"{emit.lst([asarg(a) for a in o['as']])} {emit.boolc(o['export'])} {emit.boolc(o.get('callback', False))})")


def rop(o):
    k = o["op"]
    if k == "scope":
        return f"RCore (OScope {o['parent']})"
    if k == "rawprovide":
        return f"RProvide {o['scope']} {o['fn']} {gvalue(o['raw'])} {popts(o['opts'])}"
    if k == "rawdecorate":
        return f"RDecorate {o['scope']} {o['fn']} {gvalue(o['raw'])} false"
    if k == "rawinvoke":
        return f"RInvoke {o['scope']} {o['fn']} {gvalue(o['raw'])}"
    raise ValueError(k)


ENTRY = re.compile(r'^(?P<ty>.*?)(?:\[(?P<toks>(?:optional|name = "[^"]*"|group = "[^"]*")(?:, (?:optional|name = "[^"]*"|group = "[^"]*"))*)\])?$')


def type_code(s):
    """inverse of genraw.go_type_string on the leaf grammar"""
    if s.startswith("*"):
        return 32 + 4 * type_code(s[1:])
    if s.startswith("[]"):
        return 33 + 4 * type_code(s[2:])
    m = re.match(r'main\.T(\d+)$', s)
    if m:
        return int(m.group(1))
    m = re.match(r'main\.I(\d+)$', s)
    if m:
        return 16 + int(m.group(1))
    m = re.match(r'main\.NS(\d+)$', s)
    if m:
        return 35 + 4 * int(m.group(1))
    if s == "error":
        return 21
    if s in genraw.BASIC_NAMES:
        return 22 + genraw.BASIC_NAMES.index(s)
    if s == "dig.In":
        return 30
    if s == "dig.Out":
        return 31
    return 34


def ientry(s):
    m = ENTRY.match(s)
    ty, toks = m.group("ty"), m.group("toks") or ""
    name = group = 0
    opt = False
    for t in toks.split(", "):
        if t == "optional":
            opt = True
        elif t.startswith("name = "):
            nm = t[len('name = "'):-1]
            name = dotparse.NAMES.get(nm, int(nm[1:]) if re.match(r'n\d+$', nm) else 999)
        elif t.startswith("group = "):
            gr = t[len('group = "'):-1]
            group = dotparse.GROUPS.get(gr, int(gr[1:]) if re.match(r'g\d+$', gr) else 999)
    return f"mkIE {type_code(ty)} {name} {group} {emit.boolc(opt)}"


def info(ot):
    i = ot.get("info") or {"inputs": [], "outputs": []}
    return f"({emit.lst([ientry(s) for s in i['inputs']])}, {emit.lst([ientry(s) for s in i['outputs']])})"


def robs(ot):
    v = ot["verdict"]
    if not ot.get("viz_ok", True) or not ot.get("str_ok", True):
        return "(mkOObs OVBug [])"
    return f"(mkOObs {emit.overdict(v, True)} [])"


def rcase_term(c, t):
    cfg = c["config"]
    return (f"(mkRCase (mkConfig {emit.boolc(cfg.get('defer'))} {emit.boolc(cfg.get('recover'))} {emit.boolc(cfg.get('dry'))})\n"
            f"  {emit.lst([rop(o) for o in c['ops']])}\n  {emit.lst([robs(o) for o in t['ops']])}\n"
            f"  {emit.lst([info(o) for o in t['ops']])})")


def rcases_file(pairs):
    out = ["From Dig Require Import Base Sig State Graph Register Resolve Run GoTypes Parse RunRaw.", "Open Scope nat_scope."]
    names = []
    for i, (c, t) in enumerate(pairs):
        out.append(f"Definition r{i} : rcase := {rcase_term(c, t)}.")
        names.append(f"r{i}")
    out.append(f"Definition all_rcases : list rcase := {emit.lst(names)}.")
    # cases whose calls share one Info struct per kind are compared through raw_diff_sh; the
    # positions in M stay those of all_rcases
    sh = emit.lst([emit.boolc(bool(c.get("share_info"))) for c, _ in pairs])
    out.append(f"Definition shared_flags : list bool := {sh}.")
    out.append("Fixpoint mdiff (i : nat) (cs : list rcase) (fl : list bool) : list (nat * nat * nat) :=\n"
               "  match cs, fl with\n"
               "  | c :: t, f :: ft => map (fun d => (i, fst d, snd d)) (if f then rcase_diff_sh c else rcase_diff c) ++ mdiff (S i) t ft\n"
               "  | _, _ => []\n  end.")
    out.append("Definition M := Eval vm_compute in mdiff 0 all_rcases shared_flags.")
    out.append("Definition V := Eval vm_compute in rviol_from 0 all_rcases.")
    out += ["Print M.", "Print V."]
    return "\n".join(out) + "\n"
