"""genraw.py — grammar-based generator of Go values, signatures, struct tags
and options for the malformed-input stream (C14) and the introspection
check (C18).  Histories run in a DryRun container: every parsing and
validation path is taken, no user code runs."""
import random

BASIC_NAMES = ["int", "string", "bool", "float64", "uint8", "int64", "int32", "uint"]


def named(i):
    return {"t": "named", "i": i}


def iface(i):
    return {"t": "iface", "i": i}


class RawGen:
    def __init__(self, rng, valid_bias=0.7):
        self.r = rng
        self.vb = valid_bias
        self.nfn = 0
        self.out_leaves = []   # (ty, name, group) produced so far, to feed consumers

    def ch(self, p):
        return self.r.random() < p

    # ----- types -----
    def leaf(self, exotic=0.15):
        r = self.r.random()
        if r < exotic / 3:
            return {"t": "basic", "i": self.r.randrange(8)}
        if r < 2 * exotic / 3:
            return {"t": "ptr", "e": named(self.r.randrange(4))}
        if r < exotic:
            return self.r.choice([{"t": "slice", "e": named(self.r.randrange(3))}, {"t": "error"}, {"t": "nslice", "i": self.r.randrange(3)},
                                  {"t": "ptr", "e": {"t": "ptr", "e": named(0)}},
                                  {"t": "slice", "e": {"t": "slice", "e": named(1)}}])
        if self.ch(0.2):
            return iface(self.r.randrange(2))
        return named(self.r.randrange(5))

    def tagbool(self, p_present=0.3):
        if not self.ch(p_present):
            return "absent"
        return self.r.choice(["true", "true", "false", "invalid"] if not self.ch(self.vb) else ["true", "false"])

    def grouptag(self, for_result):
        opts = []
        if for_result and self.ch(0.3):
            opts.append("flatten")
        if not for_result and self.ch(0.3):
            opts.append("soft")
        if not self.ch(self.vb):
            opts.append(self.r.choice(["flatten", "soft", "unknown", "soft"]))
        name = self.r.choice([1, 2])
        if not self.ch(0.93 if self.ch(self.vb) else 0.6):
            name = 0
        return {"name": name, "opts": opts}

    def in_struct(self, depth):
        fields = []
        emb = self.r.random()
        if emb < 0.85:
            fields.append({"exported": True, "embedded": True, "tags": self.tags(ignore=self.tagbool(0.25)), "ty": {"t": "in"}})
        elif emb < 0.92:
            fields.append({"exported": True, "embedded": True, "tags": self.tags(), "ty": {"t": "ptr", "e": {"t": "in"}}})
        else:
            # (plain anonymous structs as value types are not generated: the model's
            # type numbering does not distinguish them)
            fields.append({"exported": True, "embedded": True, "tags": self.tags(), "ty": {"t": "out"}})
        n = self.r.choice([0, 1, 1, 2, 2, 3])
        for _ in range(n):
            fields.append(self.param_field(depth))
        if self.ch(0.1) and fields:
            self.r.shuffle(fields)
        return {"t": "struct", "fields": fields}

    def tags(self, name=0, optional="absent", group=None, ignore="absent"):
        return {"name": name, "optional": optional, "group": group, "ignore": ignore}

    def param_field(self, depth):
        exported = self.ch(0.9)
        r = self.r.random()
        if r < 0.3:
            # value group
            et = named(self.r.randrange(3)) if self.ch(0.8) else iface(0)
            ty = {"t": "slice", "e": et} if self.ch(0.9) else et
            tg = self.tags(group=self.grouptag(False))
            if not self.ch(0.92):
                tg["name"] = 1
            if not self.ch(0.92):
                tg["optional"] = "true"
            return {"exported": exported, "embedded": False, "tags": tg, "ty": ty}
        if r < 0.45 and depth > 0:
            inner = self.in_struct(depth - 1)
            if self.ch(0.1):
                inner = {"t": "ptr", "e": inner}
            return {"exported": exported, "embedded": self.ch(0.15), "tags": self.tags(), "ty": inner}
        tg = self.tags(name=self.r.choice([0, 0, 1, 2]), optional=self.tagbool(0.35))
        return {"exported": exported, "embedded": False, "tags": tg, "ty": self.leaf()}

    def param_type(self, depth=2):
        r = self.r.random()
        if r < 0.5:
            if self.out_leaves and self.ch(0.6):
                return self.r.choice(self.out_leaves)
            return self.leaf()
        if r < 0.9:
            return self.in_struct(depth)
        return self.r.choice([{"t": "in"}, {"t": "out"}, {"t": "ptr", "e": self.in_struct(1)},
                              self.out_struct(1), {"t": "ptr", "e": {"t": "in"}}])

    def out_struct(self, depth):
        fields = []
        emb = self.r.random()
        if emb < 0.85:
            fields.append({"exported": True, "embedded": True, "tags": self.tags(), "ty": {"t": "out"}})
        elif emb < 0.92:
            fields.append({"exported": True, "embedded": True, "tags": self.tags(), "ty": {"t": "ptr", "e": {"t": "out"}}})
        else:
            fields.append({"exported": True, "embedded": True, "tags": self.tags(), "ty": {"t": "in"}})
        n = self.r.choice([1, 1, 2, 2, 3])
        for _ in range(n):
            fields.append(self.result_field(depth))
        return {"t": "struct", "fields": fields}

    def result_field(self, depth):
        exported = self.ch(0.92)
        r = self.r.random()
        if r < 0.3:
            g = self.grouptag(True)
            et = named(self.r.randrange(3))
            ty = {"t": "slice", "e": et} if ("flatten" in g["opts"] and self.ch(0.9)) else (et if self.ch(0.85) else {"t": "slice", "e": et})
            tg = self.tags(group=g)
            if not self.ch(0.93):
                tg["name"] = 2
            if not self.ch(0.93):
                tg["optional"] = "true"
            return {"exported": exported, "embedded": False, "tags": tg, "ty": ty}
        if r < 0.42 and depth > 0:
            inner = self.out_struct(depth - 1)
            if self.ch(0.1):
                inner = {"t": "ptr", "e": inner}
            tg = self.tags(name=0 if self.ch(0.9) else 1)
            return {"exported": exported, "embedded": False, "tags": tg, "ty": inner}
        tg = self.tags(name=self.r.choice([0, 0, 0, 1, 2]))
        t = self.leaf(0.1)
        if self.ch(0.05):
            t = {"t": "error"}
        return {"exported": exported, "embedded": False, "tags": tg, "ty": t}

    def result_type(self):
        r = self.r.random()
        if r < 0.55:
            return self.leaf(0.12)
        if r < 0.9:
            return self.out_struct(2)
        return self.r.choice([{"t": "out"}, {"t": "in"}, {"t": "ptr", "e": self.out_struct(1)}, self.in_struct(1)])

    # ----- values / options -----
    def func(self, n_in, outs):
        ins = [self.param_type() for _ in range(n_in)]
        variadic = False
        if self.ch(0.1):
            ins.append({"t": "slice", "e": {"t": "basic", "i": 0}})
            variadic = True
        return {"value": "func", "ins": ins, "outs": outs, "variadic": variadic}

    def value_kind(self, raw):
        r = self.r.random()
        if r < 0.03:
            return {"value": "nil", "ins": [], "outs": [], "variadic": False}
        if r < 0.06:
            return {"value": "nonfunc", "ins": [], "outs": [], "variadic": False}
        if r < 0.09:
            raw = dict(raw, value="nilfunc")
        return raw

    def with_error(self, outs):
        outs = list(outs)
        if self.ch(0.5):
            pos = len(outs) if self.ch(0.8) else self.r.randrange(len(outs) + 1)
            outs.insert(pos, {"t": "error"})
        return outs

    def popts(self, outs):
        o = {"name": 0, "name_bq": False, "group": None, "group_bq": False, "as": [], "export": self.ch(0.1), "callback": False}
        if self.ch(0.2):
            o["name"] = self.r.choice([1, 2])
        if self.ch(0.02):
            o["name_bq"] = True
        if self.ch(0.2 if o["name"] == 0 else 0.03):
            o["group"] = self.grouptag(True)
        if self.ch(0.02):
            o["group_bq"] = True
        if self.ch(0.2):
            for _ in range(self.r.choice([1, 1, 2])):
                if self.ch(self.vb + 0.15):
                    o["as"].append({"k": "iface", "ty": iface(self.r.randrange(2)) if self.ch(0.9) else {"t": "error"}})
                else:
                    o["as"].append({"k": self.r.choice(["nil", "nonptr", "ptrnoniface"])})
        return o

    def note_outputs(self, outs):
        def walk(t):
            if t["t"] in ("named", "iface"):
                self.out_leaves.append(t)
            elif t["t"] == "struct":
                for f in t["fields"]:
                    if f["tags"].get("group") is None:
                        walk(f["ty"])
        for t in outs:
            walk(t)
        self.out_leaves = self.out_leaves[-12:]

    def gen_case(self, cid):
        ops = []
        nscopes = 1
        n = self.r.randint(4, 12)
        for _ in range(n):
            r = self.r.random()
            s = self.r.randrange(nscopes)
            fn = self.nfn
            self.nfn += 1
            if r < 0.08 and nscopes < 4:
                ops.append({"op": "scope", "parent": self.r.randrange(nscopes)})
                nscopes += 1
            elif r < 0.65:
                outs = [self.result_type() for _ in range(self.r.choice([1, 1, 1, 2, 0]))]
                opts = self.popts(outs)
                if self.ch(0.2):
                    # option-driven results: positional leaves with Group / As / Name options
                    et = named(self.r.randrange(3))
                    g = self.grouptag(True)
                    opts["group"], opts["name"] = g, 0
                    outs = [{"t": "slice", "e": et} if ("flatten" in g["opts"] and self.ch(0.9)) else et]
                    if self.ch(0.3):
                        outs = [{"t": "nslice", "i": self.r.randrange(3)}]
                    if self.ch(0.5):
                        opts["as"] = [{"k": "iface", "ty": iface(self.r.randrange(2))}]
                if self.ch(0.08):
                    # Name together with several distinct As interfaces on one positional result
                    outs = [{"t": "ptr", "e": named(self.r.randrange(3))} if self.ch(0.7) else named(self.r.randrange(3))]
                    k = self.r.choice([2, 2, 3])
                    opts["group"], opts["name"] = None, self.r.choice([1, 2, 0])
                    opts["as"] = [{"k": "iface", "ty": iface(i)} for i in self.r.sample(range(4), k)]
                if self.ch(0.04):
                    # the identical result-object type at two result positions (its single keys collide;
                    # an object holding only group fields is fine)
                    import copy as _copy
                    o1 = self.out_struct(1)
                    outs = [o1, _copy.deepcopy(o1)]
                    opts["group"], opts["name"], opts["as"] = None, 0, []
                if self.ch(0.05):
                    # the result is itself an interface and dig.As lists that interface among others
                    # (dig skips the own type and keeps the rest)
                    i = self.r.randrange(4)
                    outs = [iface(i)]
                    others = self.r.sample([j for j in range(4) if j != i], self.r.choice([1, 2]))
                    lst = [i] + others
                    self.r.shuffle(lst)
                    opts["group"], opts["name"] = None, self.r.choice([0, 0, 1])
                    opts["as"] = [{"k": "iface", "ty": iface(j)} for j in lst]
                raw = self.value_kind(self.func(self.r.choice([0, 0, 1, 1, 2]), self.with_error(outs)))
                self.note_outputs(outs)
                ops.append({"op": "rawprovide", "scope": s, "fn": fn, "raw": raw, "opts": opts})
            elif r < 0.8:
                outs = [self.result_type() for _ in range(self.r.choice([1, 1, 2]))]
                if self.ch(0.05):
                    import copy as _copy
                    o1 = self.out_struct(1)
                    outs = [o1, _copy.deepcopy(o1)]
                if self.ch(0.08):
                    # a decorator's group result written with flatten (a slice of slices): followed by a consumer
                    et = named(self.r.randrange(3))
                    gt = self.grouptag(True)
                    gt["opts"] = ["flatten"]
                    fld = {"exported": True, "embedded": False, "tags": self.tags(group=gt), "ty": {"t": "slice", "e": {"t": "slice", "e": et}}}
                    outs = [{"t": "struct", "fields": [{"exported": True, "embedded": True, "tags": self.tags(), "ty": {"t": "out"}}, fld]}]
                    self.pending_group_consumer = (et, gt["name"])
                raw = self.value_kind(self.func(self.r.choice([0, 1, 1, 2]), self.with_error(outs)))
                ops.append({"op": "rawdecorate", "scope": s, "fn": fn, "raw": raw, "opts": None})
                pg = getattr(self, "pending_group_consumer", None)
                if pg:
                    self.pending_group_consumer = None
                    et, gname = pg
                    cons = {"t": "struct", "fields": [{"exported": True, "embedded": True, "tags": self.tags(), "ty": {"t": "in"}},
                                                      {"exported": True, "embedded": False, "tags": self.tags(group={"name": gname, "opts": []}), "ty": {"t": "slice", "e": et}}]}
                    self.nfn += 1
                    ops.append({"op": "rawinvoke", "scope": s, "fn": self.nfn - 1,
                                "raw": {"value": "func", "ins": [cons], "outs": [], "variadic": False}, "opts": None})
            else:
                outs = [] if self.ch(0.5) else [{"t": "error"}]
                if self.ch(0.1):
                    outs = [self.leaf()] + outs
                raw = self.value_kind(self.func(self.r.choice([1, 1, 2, 3]), outs))
                ops.append({"op": "rawinvoke", "scope": s, "fn": fn, "raw": raw, "opts": None})
        canonicalize_plain_structs(ops)
        return {"id": cid, "profile": "raw", "config": {"defer": self.ch(0.3), "recover": self.ch(0.5), "dry": True},
                "share_info": self.ch(0.4), "fns": [], "ops": ops}


def canonicalize_plain_structs(ops):
    """A pointer to an anonymous struct that embeds *dig.In / *dig.Out (not dig.In / dig.Out) is, for
    dig, an ordinary value type.  The model numbers every anonymous struct type alike
    (GoTypes.tcode (GStruct _) = 34), so two DIFFERENT such types in one history would be one key
    for the model and two for dig.  All of them are therefore replaced by the first one met: the
    history then uses one such type, possibly many times, and the numbering is faithful."""
    import copy
    canon = [None]

    def plain(st):
        emb = [f["ty"] for f in st["fields"] if f.get("embedded")]
        return any(t["t"] == "ptr" and t["e"]["t"] in ("in", "out") for t in emb) and \
            not any(t["t"] in ("in", "out") for t in emb)

    def walk(t):
        if t["t"] == "ptr":
            e = t["e"]
            if e["t"] == "struct" and plain(e):
                if canon[0] is None:
                    canon[0] = copy.deepcopy(e)
                t["e"] = copy.deepcopy(canon[0])
                return
            walk(e)
        elif t["t"] == "slice":
            walk(t["e"])
        elif t["t"] == "struct":
            for f in t["fields"]:
                walk(f["ty"])
    for o in ops:
        raw = o.get("raw")
        if raw:
            for t in raw.get("ins", []) + raw.get("outs", []):
                walk(t)


def generate(seed, count, valid_bias=0.7):
    rng = random.Random(f"raw:{seed}:{valid_bias}")
    out = []
    for i in range(count):
        g = RawGen(rng, valid_bias)
        out.append(g.gen_case(f"raw-{seed}-{i}"))
    return out


# ----- rendering, shared with the emitter -----

def go_type_string(t):
    k = t["t"]
    if k == "named":
        return f"main.T{t['i']}"
    if k == "iface":
        return f"main.I{t['i']}"
    if k == "nslice":
        return f"main.NS{t['i']}"
    if k == "error":
        return "error"
    if k == "basic":
        return BASIC_NAMES[t["i"] % 8]
    if k == "ptr":
        return "*" + go_type_string(t["e"])
    if k == "slice":
        return "[]" + go_type_string(t["e"])
    if k == "in":
        return "dig.In"
    if k == "out":
        return "dig.Out"
    return "struct"


def tcode(t):
    k = t["t"]
    if k == "named":
        return t["i"]
    if k == "iface":
        return 16 + t["i"]
    if k == "nslice":
        return 35 + 4 * t["i"]
    if k == "error":
        return 21
    if k == "basic":
        return 22 + t["i"] % 8
    if k == "in":
        return 30
    if k == "out":
        return 31
    if k == "ptr":
        return 32 + 4 * tcode(t["e"])
    if k == "slice":
        return 33 + 4 * tcode(t["e"])
    return 34


if __name__ == "__main__":
    import sys, json
    for c in generate(int(sys.argv[1]), int(sys.argv[2])):
        print(json.dumps(c))
