"""props.py — per-property configuration of the checks: which Coq files and
theorems are the proof obligations, which generator profiles feed the
correspondence run, which projection is compared, which checker decides."""
import collections
import copy
import json
import os
import random
import subprocess

import common
import emit
import gen

VERIF = common.VERIF
COQ = common.COQ

CORE = ["Base", "Graph", "Sig", "State", "Register", "Resolve", "Run", "Spec", "Check",
        "ErrTable", "Err", "ErrTableCheck", "Check13", "Cases"]

TRUSTED_BASE = [
    "Coq 8.16.1 kernel; vm_compute (cases_*.v evaluation, finite table obligations, Examples); no native_compute",
    "no axioms declared; Print Assumptions of every listed theorem is recorded below",
    "translator tools/errtable (go/parser): error-type table and cause call sites -> ErrTable.v, regenerated every run",
    "correspondence check: Go harness (reflect.MakeFunc/StructOf, provenance pointers), tools/gen.py, tools/emit.py (JSON -> Gallina literals)",
    "hand-written model Sig/State/Register/Resolve/Run; tied to /repo only by the correspondence run",
    "modelled not verified: reflect, errors.As/Is/Unwrap, map iteration order (sets), rand shuffling (multisets), real panics/defers (explicit results), stack depth (fuel), time (mock clock)",
]
ASSUMPTIONS = [
    "single-threaded use of the container (dig is documented as not thread-safe)",
    "user functions do not call back into the container while they run",
    "function ids are unique per registration / invocation in generated histories",
]

CODES = {
    101: "wrong number of arguments", 102: "executed function is not an accepted registration",
    110: "single value is not the nearest decorator's output",
    112: "consumer ran before the nearest decorator of its key succeeded (resolved inside that decorator's build window)",
    120: "single value is not the nearest provider's output", 122: "required parameter received no provider value",
    123: "optional parameter is zero although its provider is available", 124: "no visible provider yet a non-zero value",
    130: "decorated group is not the nearest decorator's output",
    132: "group consumer ran before the nearest group decorator succeeded (inside its build window)",
    140: "a visible group feeder was not run", 141: "group members differ from the visible feeders' results",
    152: "soft group lacks a member of a constructor required by another field of the same parameter object",
    150: "soft group contains a member no visible executed feeder returned", 151: "soft group lacks a member of a feeder executed before the Invoke",
    160: "kind mismatch slice/single", 170: "invoked function not executed exactly once", 171: "invoked function executed although Invoke failed earlier",
    172: "registration executed user code", 201: "execution index inconsistent", 202: "function executed again after it had succeeded",
    203: "argument produced by a failed or non-existent execution", 204: "operation diverged or dig panicked",
    301: "registration executed user code", 302: "Invoke executed a function outside its dependency closure",
    401: "Invoke succeeded although a required dependency is unavailable", 402: "Invoke failed although everything is available",
    403: "unavailable dependency not reported as a dig missing-type error", 404: "constructor with a directly missing dependency was executed",
    501: "diverged/panicked", 502: "cycle reported although the most permissive graph is acyclic",
    503: "Provide accepted although it closes a cycle in some scope's view", 504: "Provide reported a cycle no single view contains",
    601: "observations differ from the history without the rejected registrations", 602: "length differs",
    701: "several failures in one operation", 702: "failing execution is not the last one", 703: "verdict does not carry the failure as root",
    704: "verdict names a user failure no execution of the operation produced",
    901: "duplicate single key accepted", 902: "rejected as duplicate without conflict", 903: "constructor without results accepted",
    1201: "second decorator for a key accepted", 1202: "Decorate rejected without conflict",
    1301: "IsCycleDetected wrong", 1302: "errors.As(RootCause, dig.Error) wrong", 1303: "RootCause is not the innermost error",
    1304: "CanVisualizeError wrong", 1305: "invoked function's error was wrapped", 1306: "error verdict without flags",
    1401: "dig panicked", 1402: "malformed input accepted", 1601: "verdict differs under reordering", 1602: "wiring differs under reordering",
    1603: "length differs", 1604: "only a soft value group differs and an earlier Invoke had failed", 1605: "a soft value group differs although no earlier Invoke failed", 1701: "user function ran in a dry container", 1702: "dry verdict differs from normal all-ok verdict", 1703: "length differs",
    2001: "execution of a function with a callback not immediately followed by its callback", 2002: "callback error does not match outcome",
    2003: "callback Runtime is not the time spent in the body", 2004: "callback without a directly preceding execution",
}


def S(**kw):
    d = dict(requires=list(CORE), eval_requires=list(CORE), theorems=[], twin=None, shrink=True, flags=False)
    d.update(kw)
    return d


N_QUICK = 360
N_THOROUGH = 48000

SPECS = {
    "C01": S(profiles=[("core-mix", 0.75), ("decor", 0.25)], projection="PExec",
             chk="fun c obs => chk_C01 (cs_cfg c) (cs_beh c) (cs_hist c) obs",
             rule="a history is non-trivial when some Invoke executed a constructor or decorator whose value reached a consumer; distinct = distinct canonical JSON"),
    "C02": S(profiles=[("singleton", 0.7), ("core-mix", 0.3)], projection="PExecSet",
             chk="fun c obs => chk_C02 (cs_hist c) obs",
             rule="non-trivial: some function is demanded by at least two Invokes or through two paths (>=2 Invokes and >=1 execution)"),
    "C03": S(profiles=[("bystanders", 0.5), ("decor", 0.25), ("groups", 0.25)], projection="PExecSet",
             chk="fun c obs => chk_C03 (cs_hist c) obs ++ chk_prov (cs_beh c) (cs_hist c) obs",
             rule="non-trivial: at least one accepted constructor is never executed while some Invoke succeeds"),
    "C04": S(profiles=[("gaps", 1.0)], projection="PExec",
             chk="fun c obs => chk_C04 (cs_cfg c) (cs_beh c) (cs_hist c) obs",
             rule="non-trivial: some Invoke is rejected with a missing-type root or some optional parameter received a zero value"),
    "C05": S(profiles=[("cycles", 1.0)], projection="PVerdict",
             chk="fun c obs => chk_C05 (cs_cfg c) (cs_hist c) obs",
             requires=CORE + ["GraphProofs"],
             rule="non-trivial: some Provide or Invoke reported a cycle, or >=3 constructors were accepted across >=2 scopes; graph level: every digraph counts"),
    "C06": S(profiles=[("rejections", 1.0)], projection="PExec", twin="drop-rejected",
             chk2="fun c t p => chk_C06 (cs_hist c) (cs_impl c) t",
             rule="non-trivial: at least one Provide/Decorate was rejected and a later Invoke executed something"),
    "C07": S(profiles=[("faults", 0.5), ("gfaults", 0.2), ("dfaults", 0.3)], projection="PExec",
             chk="fun c obs => chk_C07 (cs_cfg c) (cs_hist c) obs ++ chk_prov (cs_beh c) (cs_hist c) obs",
             rule="non-trivial: some user function failed (error or panic) and a later Invoke demanded it again"),
    "C08": S(profiles=[("trees", 0.7), ("gaps", 0.3)], projection="PExec",
             chk="fun c obs => chk_C08 (cs_beh c) (cs_hist c) obs ++ walk (fun r log o ob => chk_missing_op r log o ob) 0 reg0 [] (cs_hist c) obs",
             rule="non-trivial: >=3 scopes and some Invoke from a non-root scope executed a constructor"),
    "C09": S(profiles=[("keys", 1.0)], projection="PExec",
             chk="fun c obs => chk_C09 (cs_beh c) (cs_hist c) obs",
             rule="non-trivial: a Provide was rejected as duplicate, or named/As/group keys of one type coexist and a consumer ran"),
    "C10": S(profiles=[("groups", 1.0)], projection="PExec",
             chk="fun c obs => chk_C10 (cs_beh c) (cs_hist c) obs",
             rule="non-trivial: a non-soft group parameter with >=1 visible feeder was built"),
    "C11": S(profiles=[("soft", 0.8), ("groups", 0.2)], projection="PExec",
             chk="fun c obs => chk_C11 (cs_beh c) (cs_hist c) obs",
             rule="non-trivial: a soft group parameter was built while the group has >=1 registered feeder"),
    "C12": S(profiles=[("decor", 0.7), ("dfaults", 0.3)], projection="PExec",
             chk="fun c obs => chk_C12 (cs_beh c) (cs_hist c) obs",
             rule="non-trivial: a decorator executed and some consumer received its output"),
    "C13": S(profiles=[("faults", 0.35), ("gfaults", 0.25), ("gaps", 0.2), ("cycles", 0.2)], projection="PChain", flags=True,
             requires=CORE + ["ErrCauseCheck"],
             rule="non-trivial: some operation returned an error (each distinct chain shape counts)"),
    "C14": S(profiles=[("rejections", 0.5), ("core-mix", 0.25), ("decor", 0.25)], projection="PVerdict",
             requires=CORE + ["GoTypes", "Parse", "RunRaw"],
             chk="fun c obs => chk_C14 (cs_hist c) obs",
             rule="non-trivial: the history contains a malformed input (bad op)"),
    "C15": S(profiles=[("core-mix", 0.5), ("keys", 0.25), ("groups", 0.25)], projection="PExec", twin="encode",
             chk2="fun c t p => chk_C15 (cs_impl c) t",
             rule="non-trivial: at least one function's signature was rewritten (parameters wrapped into dig.In objects, results into dig.Out, variadic added, name/group moved to tags) and some Invoke executed it"),
    "C16": S(profiles=[("core-mix", 0.3), ("trees", 0.3), ("cycles", 0.2), ("decor", 0.2)], projection="PExecSet", twin="permute",
             chk2="fun c t p => chk_C16 (cs_hist c) p (cs_impl c) t",
             rule="non-trivial: the permuted twin differs from the original in the order of >=2 accepted registrations, a scope creation, or the defer option"),
    "C17": S(profiles=[("dry", 1.0)], projection="PVerdict", twin="undry",
             chk2="fun c t p => chk_C17_dry (cs_hist c) (cs_impl c) ++ chk_same_verdicts 0 (cs_impl c) t",
             rule="non-trivial: the normal twin executed at least one user function"),
    "C18": S(profiles=[("core-mix", 0.15)], projection="PVerdict", scale=0.3,
             requires=CORE + ["GoTypes", "Parse", "RunRaw"],
             chk="fun c obs => []",
             rule="non-trivial: a raw Provide/Decorate/Invoke was accepted and its Info struct has at least one entry (counted in grammar_stream.accepted_operations_with_info)"),
    "C19": S(profiles=[("core-mix", 0.1)], projection="PVerdict", scale=0.2,
             requires=CORE + ["Dot", "RunViz"],
             chk="fun c obs => []",
             rule="non-trivial: a history over declared functions whose final graph has at least one cluster (each recorded DOT text is parsed and compared; error graphs counted in visualize.error_graphs)"),
    "C20": S(profiles=[("callbacks", 1.0)], projection="PFull",
             chk="fun c obs => chk_C20 (cs_cfg c) (cs_dur c) (cs_hist c) obs",
             rule="non-trivial: a function with a callback was executed"),
}


def attach_prop_files():
    """the proof obligations of a property are the theorems of coq/theories/Prop_<id>.v"""
    import re
    for pid, spec in SPECS.items():
        f = os.path.join(COQ, "theories", f"Prop_{pid}.v")
        if os.path.exists(f):
            names = re.findall(r'^Theorem\s+(\w+)', open(f).read(), re.M)
            spec["theorems"] = [(f"Prop_{pid}", n) for n in names]
            if f"Prop_{pid}" not in spec["requires"]:
                spec["requires"] = spec["requires"] + [f"Prop_{pid}"]


def regen_errtable():
    src = os.path.join(VERIF, "tools", "errtable")
    binp = os.path.join(common.BUILD, "errtable")
    os.makedirs(common.BUILD, exist_ok=True)
    r = common.run(["go", "build", "-o", binp, "."], cwd=src, env=common.GOENV, timeout=300)
    if r.returncode != 0:
        return False, r.stderr
    r = common.run([binp, common.REPO], timeout=60)
    if r.returncode != 0:
        return False, r.stderr
    p = os.path.join(COQ, "theories", "ErrTable.v")
    old = open(p).read() if os.path.exists(p) else None
    if old != r.stdout:
        open(p, "w").write(r.stdout)
    return True, ""


def built_files():
    """files of the development whose .vo is up to date after `make -k`: what
    `make -n` would still rebuild failed to compile or depends on something that did
    (a stale .vo left behind by an earlier build does not count)"""
    import re
    r = common.run(["make", "-n", "-k"], cwd=COQ, timeout=120)
    stale = set(re.findall(r'theories/([A-Za-z0-9_]+)\.v', r.stdout + r.stderr))
    out = set()
    for f in os.listdir(os.path.join(COQ, "theories")):
        if f.endswith(".vo") and f[:-3] not in stale:
            out.add(f[:-3])
    return out


def assumptions_for(spec):
    bymod = collections.defaultdict(list)
    for m, t in spec["theorems"]:
        bymod[m].append(t)
    res = {}
    for m, ts in bymod.items():
        d, raw = common.print_assumptions(ts, m)
        if d is None:
            return None, raw
        res.update(d)
    return res, ""


def allowed_axioms(txt):
    return False


# ------------------------------------------------------------------ cases

def make_twins(spec, cases, seed, traces=None):
    kind = spec["twin"]
    rng = random.Random(f"twin:{seed}")
    out = []
    for idx, c in enumerate(cases):
        if kind == "drop-rejected":
            t = traces[idx]
            keep = []
            for o, ot in zip(c["ops"], t["ops"]):
                if o["op"] in ("provide", "decorate", "bad") and ot["verdict"]["v"] != "ok":
                    continue
                keep.append(o)
            out.append((dict(c, id=c["id"] + "~dropped", ops=keep), []))
        elif kind == "undry":
            c2 = copy.deepcopy(c)
            c2["id"] += "~normal"
            c2["config"]["dry"] = False
            for f in c2["fns"]:
                f.pop("plan", None)
            out.append((c2, []))
        elif kind == "permute":
            if c.get("fixed_twin"):
                # a corpus witness carries its own reordering (and draws nothing from the random stream)
                out.append((copy.deepcopy(c["fixed_twin"]["case"]), list(c["fixed_twin"]["perm"])))
            else:
                out.append(permute_case(c, traces[idx], rng))
        elif kind == "encode":
            if c.get("fixed_twin"):
                out.append((copy.deepcopy(c["fixed_twin"]["case"]), []))
            else:
                out.append((encode_case(c, rng), []))
    return out


def encode_case(c, rng):
    """rewrite the signature of every function into an equivalent encoding"""
    c2 = copy.deepcopy(c)
    c2["id"] += "~enc"

    def toggle_markers(xs):
        # where the dig.In / dig.Out marker is embedded (first or after the fields) is an encoding detail
        for x in xs:
            if x.get("k") == "obj":
                if rng.random() < 0.4:
                    x["marker_last"] = not x.get("marker_last", False)
                toggle_markers(x.get("fields") or [])
    for f in c2["fns"]:
        ps = f.get("params") or []
        # wrap a run of top-level parameters into one new parameter object
        if ps and rng.random() < 0.7:
            i = rng.randrange(len(ps))
            j = rng.randrange(i, len(ps)) + 1
            ps = ps[:i] + [dict(k="obj", fields=ps[i:j])] + ps[j:]
            if rng.random() < 0.3:
                ps = [dict(k="obj", fields=ps)]
        f["params"] = ps
        if rng.random() < 0.4:
            f["variadic"] = True
        rs = f.get("results") or []
        if not rs and rng.random() < 0.5:
            # nothing provided, written as an empty result object (same verdict: rejected)
            f["results"] = [dict(k="obj", fields=[])]
            continue
        if rs and all(r["k"] != "obj" for r in rs) and not any(r.get("as") and r["k"] == "group" for r in rs) and rng.random() < 0.7:
            # positional results (sharing name/group through options) -> one result object with tags
            f["results"] = [dict(k="obj", fields=rs)]
        elif rs and rng.random() < 0.4 and not any(r["k"] != "obj" and (r.get("name") or r.get("group") or r.get("as")) for r in rs):
            # nest result objects / plain results one level deeper
            f["results"] = [dict(k="obj", fields=rs)]
    for f in c2["fns"]:
        toggle_markers(f.get("params") or [])
        toggle_markers(f.get("results") or [])
    return c2


def permute_case(c, trace, rng):
    """permute maximal blocks of registrations that were all accepted; move a
    scope creation earlier; toggle defer when no cycle was ever reported"""
    ops = c["ops"]
    n = len(ops)
    order = list(range(n))
    i = 0
    while i < n:
        if ops[i]["op"] in ("provide", "decorate"):
            j = i
            while j < n and ops[j]["op"] in ("provide", "decorate"):
                j += 1
            if all(trace["ops"][k]["verdict"]["v"] == "ok" for k in range(i, j)) and j - i >= 2:
                blk = order[i:j]
                rng.shuffle(blk)
                order[i:j] = blk
            i = j
        else:
            i += 1
    # move one scope creation earlier or later, as far as legal without crossing another scope creation
    # (scope numbers stay what they are): not past the first operation that uses the scope
    cur = [ops[k] for k in order]
    scope_pos = [k for k, o in enumerate(cur) if o["op"] == "scope"]
    if scope_pos and rng.random() < 0.7:
        k = rng.choice(scope_pos)
        sid = 1 + scope_pos.index(k)
        lo = max([q + 1 for q in scope_pos if q < k] + [0])
        hi = k
        while hi + 1 < n and cur[hi + 1]["op"] != "scope" and cur[hi + 1].get("scope", 0) != sid:
            hi += 1
        cands = [j for j in range(lo, hi + 1) if j != k]
        if cands:
            j = rng.choice(cands)
            x = order.pop(k)
            order.insert(j, x)
    new_ops = [ops[k] for k in order]
    c2 = copy.deepcopy(dict(c, ops=new_ops))
    c2["id"] += "~perm"
    no_cycle = all((t["verdict"].get("root") or {}).get("k") != "cycle" for t in trace["ops"])
    if no_cycle and rng.random() < 0.5:
        c2["config"]["defer"] = not c2["config"]["defer"]
    # perm[i] = position in B of op i of A
    pos = {a: b for b, a in enumerate(order)}
    perm = [pos[i] for i in range(n)]
    return (c2, perm)


def twins_for(spec, cases, traces, seed):
    if not spec["twin"]:
        return None
    tw = make_twins(spec, cases, seed, traces)
    tcases, ttraces = common.run_impl_parallel([t[0] for t in tw])
    if spec["twin"] == "permute":
        # the defer toggle is only claimed for histories on which NEITHER run reports a cycle
        redo = [i for i, (c, tc, tt) in enumerate(zip(cases, tcases, ttraces))
                if tc["config"]["defer"] != c["config"]["defer"] and
                any((o["verdict"].get("root") or {}).get("k") == "cycle" for o in tt["ops"])]
        if redo:
            fixed = []
            for i in redo:
                c2 = copy.deepcopy(tw[i][0])
                c2["config"]["defer"] = cases[i]["config"]["defer"]
                fixed.append(c2)
            fc, ft = common.run_impl_parallel(fixed)
            for i, c2, t2 in zip(redo, fc, ft):
                tcases[i], ttraces[i] = c2, t2
    return [(tc, tt, t[1]) for tc, tt, t in zip(tcases, ttraces, tw)]


def make_cases(spec, prop, tier, seed, corpus):
    n = N_QUICK if tier == "quick" else N_THOROUGH
    n = int(n * spec.get("scale", 1.0))
    cases = list(corpus)
    for prof, frac in spec["profiles"]:
        cases += gen.generate(prof, seed, max(1, int(n * frac)))
    if prop == "C05":
        # bounded-exhaustive sub-spaces (every history of the stated shape)
        cases += gen.exhaustive_cycles(2, True) + gen.exhaustive_cycles(2, True, late_scope=True)
        if tier != "quick":
            cases += gen.exhaustive_cycles(3, False)
    if spec["twin"] == "permute":
        # the claim is about accepted registrations and successful Invokes: user functions all succeed
        for c in cases:
            for f in c["fns"]:
                f.pop("plan", None)
    cases, traces = common.run_impl_parallel(cases)
    twins = twins_for(spec, cases, traces, seed)
    dist = distribution(cases, traces)
    return cases, traces, twins, dist


def distribution(cases, traces):
    ops = collections.Counter()
    verd = collections.Counter()
    sizes = collections.Counter()
    feats = collections.Counter()
    for c, t in zip(cases, traces):
        sizes[min(len(c["ops"]) // 5 * 5, 40)] += 1
        nsc = 1 + sum(1 for o in c["ops"] if o["op"] == "scope")
        feats[f"scopes={min(nsc, 8)}"] += 1
        for k in ("defer", "recover", "dry"):
            if c["config"].get(k):
                feats[k] += 1
        for o, ot in zip(c["ops"], t["ops"]):
            ops[o["op"]] += 1
            v = ot["verdict"]
            verd[v["v"] + (":" + v["root"]["k"] if v.get("root") else "")] += 1
    exh = sum(1 for c in cases if c.get("profile") == "exhaustive-cycles")
    if exh:
        feats["bounded_exhaustive_histories"] = exh
    return dict(op_mix=dict(ops), verdicts=dict(verd), history_length_buckets={str(k): v for k, v in sorted(sizes.items())},
                features=dict(feats))


def _facts(c, t):
    ops = list(zip(c["ops"], t["ops"]))
    fns = {f["id"]: f for f in c["fns"]}
    execs = [(i, e) for i, (o, ot) in enumerate(ops) for e in ot["events"] if e["ev"] == "exec"]
    ok = lambda ot: ot["verdict"]["v"] == "ok"
    root = lambda ot: (ot["verdict"].get("root") or {}).get("k")
    nsc = 1 + sum(1 for o, _ in ops if o["op"] == "scope")
    return ops, fns, execs, ok, root, nsc


def _has_leaf(params, pred):
    for p in params or []:
        if p["k"] == "obj":
            if _has_leaf(p.get("fields"), pred):
                return True
        elif pred(p):
            return True
    return False


def nontrivial(prop, c, t):
    ops, fns, execs, ok, root, nsc = _facts(c, t)
    inv_ok = [i for i, (o, ot) in enumerate(ops) if o["op"] == "invoke" and ok(ot)]
    dep_exec = [(i, e) for i, e in execs if e.get("role") in ("ctor", "dec")]
    if prop in ("C01", "C15"):
        return any(i in inv_ok for i, _ in dep_exec)
    if prop == "C02":
        return sum(1 for o, _ in ops if o["op"] == "invoke") >= 2 and bool(dep_exec)
    if prop == "C03":
        ran = {e["f"] for _, e in execs}
        return bool(inv_ok) and any(o["op"] == "provide" and ok(ot) and o["fn"] not in ran for o, ot in ops)
    if prop == "C04":
        return any(o["op"] == "invoke" and root(ot) == "missing" for o, ot in ops) or \
            any(a.get("zero") for _, e in execs for a in (e.get("args") or []))
    if prop == "C05":
        return any(root(ot) == "cycle" for _, ot in ops) or \
            (sum(1 for o, ot in ops if o["op"] == "provide" and ok(ot)) >= 3 and nsc >= 2)
    if prop in ("C06", "C14"):
        rej = [i for i, (o, ot) in enumerate(ops) if o["op"] in ("provide", "decorate", "bad") and not ok(ot)]
        if prop == "C14":
            return any(o["op"] == "bad" for o, _ in ops)
        return bool(rej) and any(i > rej[0] for i, _ in execs)
    if prop == "C07":
        bad = [i for i, e in execs if e.get("out") in ("err", "panic")]
        return bool(bad) and any(o["op"] == "invoke" for o, _ in ops[bad[0] + 1:])
    if prop == "C08":
        return nsc >= 3 and any(ops[i][0].get("scope", 0) != 0 for i, _ in dep_exec if ops[i][0]["op"] == "invoke")
    if prop == "C09":
        named = any(_has_leaf(f.get("params"), lambda p: p.get("name") or p["k"] == "group") for f in fns.values())
        return any(o["op"] == "provide" and ot["verdict"].get("chain") == ["provide", "invalid"] and root(ot) == "invalid" for o, ot in ops) or (named and bool(dep_exec))
    if prop == "C10":
        return any(a.get("isl") and a.get("l") for _, e in execs for a in (e.get("args") or []))
    if prop == "C11":
        soft_fns = {f["id"] for f in fns.values() if _has_leaf(f.get("params"), lambda p: p["k"] == "group" and p.get("soft"))}
        return any(e["f"] in soft_fns for _, e in execs)
    if prop == "C12":
        decs = [i for i, e in execs if e.get("role") == "dec"]
        return bool(decs)
    if prop == "C13":
        return any(ot["verdict"]["v"] == "err" for _, ot in ops)
    if prop == "C16":
        return sum(1 for o, ot in ops if o["op"] in ("provide", "decorate") and ok(ot)) >= 2 and bool(inv_ok)
    if prop == "C17":
        return any(o["op"] == "invoke" for o, _ in ops)
    if prop == "C20":
        cb = {f["id"] for f in fns.values() if f.get("callback")}
        return any(e["f"] in cb for _, e in execs)
    return len(execs) >= 2 or any(not ok(ot) for _, ot in ops)


def count_nontrivial(spec, cases, traces, prop=None):
    seen = set()
    for c, t in zip(cases, traces):
        try:
            nt = nontrivial(prop, c, t)
        except Exception:
            nt = False
        if nt:
            key = json.dumps({"ops": c["ops"], "fns": c["fns"], "config": c["config"]}, sort_keys=True)
            seen.add(hash(key))
    return len(seen)


def samples(cases, traces):
    out = []
    for c, t in list(zip(cases, traces))[:3]:
        out.append({"id": c["id"], "config": c["config"], "ops": c["ops"][:8],
                    "implementation": [{"verdict": o["verdict"].get("v"), "root": (o["verdict"].get("root") or {}).get("k"),
                                        "events": [(e["ev"], e["f"], e.get("out")) for e in o["events"]]} for o in t["ops"][:8]]})
    return out


# ------------------------------------------------------------------ Coq source

def flags_term(trace):
    out = []
    for ot in trace["ops"]:
        v = ot["verdict"]
        fl = v.get("flags")
        if v["v"] == "err" and fl:
            out.append("Some (mkFlags %s %s %s %s)" % tuple(emit.boolc(fl[k]) for k in ("is_cycle", "as_dig", "can_viz", "rootsame")))
        else:
            out.append("None")
    return emit.lst(out)


def coq_source(spec, cases, traces, twins):
    extra = "ErrTable Err ErrTableCheck Spec Check Check13 Cases"
    defs = []
    k = spec["projection"]
    if spec.get("flags"):
        for i, t in enumerate(traces):
            defs.append(f"Definition f{i} : list (option oflags) := {flags_term(t)}.")
        pairs = emit.lst([f"(c{i}, f{i})" for i in range(len(cases))])
        defs.append(f"Definition all13 := {pairs}.")
        defs.append(f"Definition M := Eval vm_compute in (mism_all {k} all_cases ++ flagmism_from 0 all13).")
        defs.append("Definition V := Eval vm_compute in viol13_from 0 all13.")
    elif twins is not None:
        for i, (tc, tt, perm) in enumerate(twins):
            tbad = emit.bad_flags(tc)
            obs = emit.lst([emit.oobs(o, tbad[j]) for j, o in enumerate(tt["ops"])])
            defs.append(f"Definition t{i} : list oobs := {obs}.")
            defs.append(f"Definition p{i} : list nat := {emit.lst([str(x) for x in perm])}.")
        pairs = emit.lst([f"(c{i}, (t{i}, p{i}))" for i in range(len(cases))])
        defs.append(f"Definition all2 := {pairs}.")
        defs.append(f"Definition M := Eval vm_compute in mism_all {k} all_cases.")
        defs.append(f"Definition V := Eval vm_compute in viol2_all ({spec['chk2']}) all2.")
    else:
        defs.append(f"Definition M := Eval vm_compute in mism_all {k} all_cases.")
        defs.append(f"Definition V := Eval vm_compute in viol_all ({spec['chk']}) all_cases.")
        defs.append(f"Definition W := Eval vm_compute in viol_all_model ({spec['chk']}) all_cases.")
        defs.append("Print W.")
    defs += ["Print M.", "Print V."]
    return emit.cases_file(list(zip(cases, traces)), extra=extra, defs=defs)


attach_prop_files()
