"""graphs.py — C05 graph level: digraphs (self-loops and parallel edges
allowed) through the hook VerifIsAcyclic vs Graph.is_acyclic in Coq."""
import itertools
import random

import common
import emit


def all_digraphs(n, with_multi=False):
    """every digraph on n vertices as adjacency lists in ascending order"""
    pairs = [(u, v) for u in range(n) for v in range(n)]
    for mask in range(1 << len(pairs)):
        g = [[] for _ in range(n)]
        for i, (u, v) in enumerate(pairs):
            if mask >> i & 1:
                g[u].append(v)
        yield g


def order_variants(g, rng, k):
    """the same graph with edge lists permuted / duplicated"""
    out = []
    for _ in range(k):
        h = []
        for es in g:
            es2 = list(es)
            rng.shuffle(es2)
            if es2 and rng.random() < 0.2:
                es2.append(rng.choice(es2))
            h.append(es2)
        out.append(h)
    return out


def random_digraph(rng, n):
    p = rng.choice([0.1, 0.2, 0.3, 0.5])
    return [[v for v in rng.sample(range(n), n) if rng.random() < p] for _ in range(n)]


def graph_cases(tier, seed):
    rng = random.Random(f"graphs:{seed}")
    gs = []
    exhaustive_upto = 3 if tier == "quick" else 4
    for n in range(0, exhaustive_upto + 1):
        gs += list(all_digraphs(n))
    base = len(gs)
    for g in list(gs[:600]):
        gs += order_variants(g, rng, 1)
    nrand = 1500 if tier == "quick" else 60000
    for _ in range(nrand):
        gs.append(random_digraph(rng, rng.randint(4, 8)))
    return gs, dict(exhaustive_upto_nodes=exhaustive_upto, exhaustive_graphs=base, permuted_variants=min(600, base), random=nrand)


def coq_graph(g):
    return emit.lst([emit.lst([str(v) for v in es]) for es in g])


def check_graphs(tier, seed):
    gs, dist = graph_cases(tier, seed)
    res = common.run_graphs(gs, timeout=1200)
    assert len(res) == len(gs)
    shard = 4000
    jobs = [(lo, gs[lo:lo + shard], res[lo:lo + shard]) for lo in range(0, len(gs), shard)]

    def one(job):
        lo, g, r = job
        items = [f"({coq_graph(a)}, ({emit.boolc(b['ok'])}, {emit.lst([str(x) for x in b['path']])}))" for a, b in zip(g, r)]
        src = ("From Dig Require Import Base Graph Cases.\nOpen Scope nat_scope.\n"
               f"Definition gs : list gcase := {emit.lst(items)}.\n"
               "Definition GV := Eval vm_compute in gviol_from 0 gs.\nPrint GV.\n")
        out = common.coq_eval(src, timeout=3000, name="graphs")
        return [(lo + a, b) for a, b in common.parse_pairs(common.parse_printed(out, "GV"))]
    from concurrent.futures import ThreadPoolExecutor
    with ThreadPoolExecutor(max_workers=16) as ex:
        viol = [v for part in ex.map(one, jobs) for v in part]
    return gs, res, viol, dist
