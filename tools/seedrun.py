#!/usr/bin/env python3
"""seedrun.py <candidate-dir> <name> [props...] — confirm a seeded change
(compiles, suite passes, demo fails with / passes without) in a scratch
worktree, then run the checks against it in /repo and record the outcome under
/verif/seeded/<name>/.  /repo is restored afterwards."""
import json, os, shutil, subprocess, sys, time

ENV = dict(os.environ, GOFLAGS="-mod=mod", GOPROXY="off", GOSUMDB="off", GOTOOLCHAIN="local")
ALL = ["C%02d" % i for i in range(1, 21)]


def sh(cmd, cwd=None, timeout=1800):
    return subprocess.run(cmd, shell=True, cwd=cwd, env=ENV, stdout=subprocess.PIPE, stderr=subprocess.STDOUT, text=True, timeout=timeout)


def main():
    cand, name = sys.argv[1], sys.argv[2]
    props = sys.argv[3:] or ALL
    dst = f"/verif/seeded/{name}"
    os.makedirs(dst, exist_ok=True)
    for f in ("patch.diff", "demo_test.go", "meta.json"):
        if os.path.abspath(os.path.join(cand, f)) != os.path.abspath(os.path.join(dst, f)):
            shutil.copy(os.path.join(cand, f), os.path.join(dst, f))
    meta = json.load(open(os.path.join(dst, "meta.json")))
    wt = f"/tmp/seedwt_{name}"
    sh(f"git -C /repo worktree remove --force {wt}")
    sh(f"git -C /repo worktree add -q --detach {wt} HEAD")
    res = {}
    try:
        # demo on the unmodified tree
        shutil.copy(os.path.join(dst, "demo_test.go"), os.path.join(wt, "zz_demo_test.go"))
        r = sh("go test -vet=off -count=1 -run 'Demo|C[0-9][0-9]|Mut|Seed' . 2>&1 | tail -5", cwd=wt)
        r0 = sh("go test -vet=off -count=1 . 2>&1 | grep -E '^(--- FAIL|ok|FAIL)' | head -20", cwd=wt)
        res["demo_without_patch"] = r0.stdout.strip()
        os.remove(os.path.join(wt, "zz_demo_test.go"))
        a = sh(f"git apply {dst}/patch.diff", cwd=wt)
        res["apply"] = a.returncode
        b = sh("go build ./... && go vet -tags verif . >/dev/null 2>&1; go test -vet=off -count=1 . ./internal/... 2>&1 | grep -E '^(--- FAIL|ok|FAIL)' | head -20", cwd=wt)
        res["suite_with_patch"] = b.stdout.strip()
        shutil.copy(os.path.join(dst, "demo_test.go"), os.path.join(wt, "zz_demo_test.go"))
        r1 = sh("go test -vet=off -count=1 . 2>&1 | grep -E '^(--- FAIL|ok|FAIL)' | head -20", cwd=wt)
        res["demo_with_patch"] = r1.stdout.strip()
    except Exception:
        sh(f"git -C /repo worktree remove --force {wt}")
        raise
    suite_fails = [l for l in res["suite_with_patch"].split("\n") if l.startswith("--- FAIL")]
    demo_fails_with = [l for l in res["demo_with_patch"].split("\n") if l.startswith("--- FAIL") and "TestProvideLocation" not in l]
    demo_fails_without = [l for l in res["demo_without_patch"].split("\n") if l.startswith("--- FAIL") and "TestProvideLocation" not in l]
    res["confirmed"] = (res["apply"] == 0 and all("TestProvideLocation" in l for l in suite_fails)
                        and bool(demo_fails_with) and not demo_fails_without)
    # run the checks against the change: the scratch worktree (patch applied, demo removed) is the
    # tree under test (VERIF_REPO); /repo itself is never modified
    checks = {}
    try:
        if res["confirmed"]:
            os.remove(os.path.join(wt, "zz_demo_test.go"))
            env = dict(ENV, VERIF_REPO=wt)
            before = set()
            for root, _, fs in os.walk("/verif/replays"):
                before |= {os.path.join(root, f) for f in fs}
            procs = {}
            for p in props:
                procs[p] = subprocess.Popen(f"bin/check {p} quick", shell=True, cwd="/verif", env=env, stdout=subprocess.PIPE, stderr=subprocess.DEVNULL, text=True)
            for p, pr in procs.items():
                out, _ = pr.communicate(timeout=3000)
                checks[p] = dict(exit=pr.returncode, lines=[l for l in out.split("\n") if l.startswith(("VIOLATION", "KNOWN-FINDING"))][:6])
            os.makedirs(os.path.join(dst, "replays"), exist_ok=True)
            for root, _, fs in os.walk("/verif/replays"):
                for f in fs:
                    pth = os.path.join(root, f)
                    if pth not in before:
                        shutil.move(pth, os.path.join(dst, "replays", os.path.basename(root) + "-" + f))
    finally:
        sh(f"git -C /repo worktree remove --force {wt}")
        sh("git -C /verif checkout -- evidence coq/theories/ErrTable.v")
    res["checks"] = checks
    target = meta.get("property")
    res["detected_by"] = sorted(p for p, c in checks.items() if c["exit"] != 0)
    res["target_detected"] = target in res["detected_by"]
    meta["verification"] = res
    meta["what_was_run"] = "tools/seedrun.py: demo with/without the patch in a scratch worktree, library suite with the patch, then bin/check <id> quick for " + ",".join(props) + " against a scratch worktree of /repo with the patch applied (VERIF_REPO; /repo itself untouched)"
    json.dump(meta, open(os.path.join(dst, "meta.json"), "w"), indent=1)
    print(name, "confirmed" if res["confirmed"] else "NOT CONFIRMED", "target", target, "detected_by", res["detected_by"])
    if not res["confirmed"]:
        print(json.dumps({k: res[k] for k in ("apply", "suite_with_patch", "demo_with_patch", "demo_without_patch")}, indent=1)[:1500])


if __name__ == "__main__":
    main()
