#!/usr/bin/env python3
"""Regenerate MANIFEST.json from tools/props.py (kept in git; run after changing SPECS)."""
import json, subprocess, sys, os
sys.path.insert(0, os.path.dirname(os.path.abspath(__file__)))
import props
ALL = ["C%02d" % i for i in range(1, 21)]
NA_REASON = {
    "C19": "not yet claimed in this revision: the DOT graph model (Dot.v) is under construction; see DESIGN.md section 10",
}
hook = subprocess.run(['git', '-C', '/repo', 'log', '--format=%H', '--grep=verif-tagged hooks'], capture_output=True, text=True).stdout.strip().split('\n')[0]
checks = []
for pid, spec in sorted(props.SPECS.items()):
    thms = [f"{m}.{t}" for m, t in spec['theorems']]
    checks.append(dict(
        property_id=pid,
        quick_cmd=f"bin/check {pid} quick",
        thorough_cmd=f"bin/check {pid} thorough",
        evidence_file=f"evidence/{pid}.json",
        replay_cmd_template="python3 tools/showreplay.py {path}",
        engine="coq-model+correspondence",
        technique="machine-checked proof in Coq 8.16 over an executable Gallina model of dig; the model is tied to /repo on every run by a differential correspondence check (Go harness vs vm_compute) and a translator-regenerated error-type table; property checkers defined in Coq are evaluated on implementation traces to find failing inputs",
        level_claimed=dict(category="proof",
            text=(spec.get("claim", "") + " " if spec.get("claim") else "") +
                 (f"Theorems re-checked by this build: {', '.join(thms)}. " if thms else "No property-specific theorem yet; the model and checker definitions are re-checked. ") +
                 f"The property's checker ({spec.get('chk') or spec.get('chk2')}) is a Coq definition evaluated on every implementation trace of the run; model and implementation are compared on the {spec['projection']} projection. "
                 "Where the universally quantified theorem chk(run h)=[] is not (yet) proved the claim is partial: what is proved is listed in the evidence, the remainder is decided per explored history.",
            design_ref="DESIGN.md section 6 (" + pid + ")"),
        level_note="Trusted: Coq kernel + vm_compute; hand-written model tied only by the correspondence run; harness, generator and emitter; reflect/errors/runtime behaviour modelled by explicit values. No axioms declared; Print Assumptions recorded in the evidence."))
m = dict(version=1, setup_cmd="sh bin/setup",
         hooks=dict(guard="verif", enable="go build -tags verif (the harness module replaces go.uber.org/dig by /repo)",
                    baseline_off_cmd="cd /repo && GOFLAGS=-mod=mod go test -json -vet=off -count=1 -timeout 25m ./...",
                    source_commits=[hook], add_only=True),
         engines=[dict(name="coq-model+correspondence", path="coq/ harness/ tools/", serves_properties=sorted(props.SPECS),
                       kind_free_text="Coq 8.16 development (model, spec, checkers, proofs) + Go differential harness + Python driver")],
         checks=checks,
         not_applicable=[dict(property_id=p, reason=NA_REASON.get(p, "not yet claimed")) for p in ALL if p not in props.SPECS],
         notes="bin/check <id> quick|thorough; VERIF_SEED seeds every random choice. known_findings.json lists the recorded findings (D12, D13, D19: printed as KNOWN-FINDING, never suppressing a different violation) and the fixed defects (fixed: lines, suppress nothing).")
json.dump(m, open(os.path.join(props.VERIF, 'MANIFEST.json'), 'w'), indent=1)
print("checks:", len(checks), "not_applicable:", [x['property_id'] for x in m['not_applicable']])
